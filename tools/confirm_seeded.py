#!/usr/bin/env python3
"""Confirms a sub-agent's mutant in a fresh scratch worktree of /repo (outside /repo and /verif) and, if it holds up,
stores it under /verif/seeded/<id>/ (patch.diff, demo.py, meta.json).

usage: tools/confirm_seeded.py <Cnn> <k> [--no-tests] [--roundN]     (--roundN: reads /tmp/mut/<Cnn>/_outN/*_<k>.*, stores seeded/<Cnn>-<k+2(N-1)>)
 checks: demo PASSes on the unchanged tree; patch applies; demo FAILs with the patch; the 165 baseline tests still pass.
"""
import json
import os
import shutil
import subprocess
import sys
import xml.etree.ElementTree as ET

ROOT = os.path.dirname(os.path.dirname(os.path.abspath(__file__)))


def sh(cmd, cwd=None, env=None, timeout=1800):
    return subprocess.run(cmd, cwd=cwd, env=env, shell=isinstance(cmd, str), capture_output=True, text=True, timeout=timeout)


def main():
    prop, k = sys.argv[1], sys.argv[2]
    rnd = next((int(a[len("--round"):]) for a in sys.argv if a.startswith("--round")), 1)
    r2, r3 = rnd == 2, rnd == 3
    src = f"/tmp/mut/{prop}/_out" + (str(rnd) if rnd > 1 else "")
    sid = str(int(k) + 2 * (rnd - 1))
    wt = f"/tmp/scratch/confirm_{prop}_{k}"
    shutil.rmtree(wt, ignore_errors=True)
    sh(["git", "-C", "/repo", "worktree", "prune"])
    r = sh(["git", "-C", "/repo", "worktree", "add", "-q", "--detach", wt, "HEAD"])
    assert r.returncode == 0, r.stderr
    log = {}
    try:
        env = dict(os.environ, PYTHONPATH=wt)
        demo = os.path.join(src, f"demo_{k}.py")
        r0 = sh(["/venv/bin/python", demo], cwd=wt, env=env)
        log["demo_clean_rc"] = r0.returncode
        log["demo_clean_tail"] = (r0.stdout + r0.stderr)[-300:]
        ra = sh(["git", "apply", os.path.join(src, f"mutant_{k}.diff")], cwd=wt)
        log["apply_rc"] = ra.returncode
        log["apply_err"] = ra.stderr[-300:]
        if ra.returncode == 0:
            r1 = sh(["/venv/bin/python", demo], cwd=wt, env=env)
            log["demo_mut_rc"] = r1.returncode
            log["demo_mut_tail"] = (r1.stdout + r1.stderr)[-400:]
            if "--no-tests" not in sys.argv:
                jx = os.path.join(wt, "_junit.xml")
                sh(f"/venv/bin/python -m pytest -q -p no:cacheprovider --timeout=900 --continue-on-collection-errors --junitxml={jx} >/dev/null 2>&1", cwd=wt)
                base = set(json.load(open("/root/.vp/BASELINE.json"))["stable_pass"])
                passed = set()
                for tc in ET.parse(jx).getroot().iter("testcase"):
                    if not list(tc):
                        passed.add(f"{tc.get('classname')}::{tc.get('name')}")
                    elif all(ch.tag in ("system-out", "system-err") for ch in tc):
                        passed.add(f"{tc.get('classname')}::{tc.get('name')}")
                missing = sorted(base - passed)
                log["baseline_missing"] = missing[:10]
                log["tests_pass"] = not missing
        ok = log.get("demo_clean_rc") == 0 and log.get("apply_rc") == 0 and log.get("demo_mut_rc", 0) != 0 and log.get("tests_pass", "--no-tests" in sys.argv)
        log["confirmed"] = bool(ok)
        if ok:
            dst = os.path.join(ROOT, "seeded", f"{prop}-{sid}")
            os.makedirs(dst, exist_ok=True)
            shutil.copy(os.path.join(src, f"mutant_{k}.diff"), os.path.join(dst, "patch.diff"))
            shutil.copy(demo, os.path.join(dst, "demo.py"))
            meta = json.load(open(os.path.join(src, f"meta_{k}.json")))
            meta_out = dict(property=prop, summary=meta.get("summary"), needs=meta.get("needs"), files=meta.get("files"),
                            notes=meta.get("notes"), origin="independent sub-agent given only the property text and a scratch worktree",
                            confirmed_by=dict(cmd=f"tools/confirm_seeded.py {prop} {k}" + (f" --round{rnd}" if rnd > 1 else ""), demo_on_unchanged_tree="exit 0 (PASS)",
                                              demo_with_patch=f"exit {log.get('demo_mut_rc')} (FAIL)", baseline_tests_with_patch="all 165 baseline tests pass" if log.get("tests_pass") else "not run",
                                              demo_output_with_patch=log.get("demo_mut_tail", "")[-200:]))
            json.dump(meta_out, open(os.path.join(dst, "meta.json"), "w"), indent=1)
        print(json.dumps(log, indent=1))
    finally:
        sh(["git", "-C", "/repo", "worktree", "remove", "--force", wt])
        shutil.rmtree(wt, ignore_errors=True)


if __name__ == "__main__":
    main()
