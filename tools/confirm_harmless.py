#!/usr/bin/env python3
"""Confirms a sub-agent's behaviour-preserving refactoring in a fresh scratch worktree of /repo (outside /repo and /verif): the
patch applies and the 165 baseline tests still pass.  Stores it as seeded/<Hg>-<k>/ (patch.diff, meta.json with expect = 0 and the
checks that cover the touched code), so tools/selftest.py runs those checks against it and any VIOLATION is a false alarm.

usage: tools/confirm_harmless.py <Hg> <k> <Cnn,Cnn,...>      (reads /tmp/mut/<Hg>/_outH/refactor_<k>.diff, meta_<k>.json)
"""
import json
import os
import shutil
import subprocess
import sys
import xml.etree.ElementTree as ET

ROOT = os.path.dirname(os.path.dirname(os.path.abspath(__file__)))


def sh(cmd, cwd=None, timeout=1800):
    return subprocess.run(cmd, cwd=cwd, shell=isinstance(cmd, str), capture_output=True, text=True, timeout=timeout)


def main():
    g, k, checks = sys.argv[1], sys.argv[2], sys.argv[3].split(",")
    src = f"/tmp/mut/{g}/_outH"
    wt = f"/tmp/scratch/confirm_{g}_{k}"
    shutil.rmtree(wt, ignore_errors=True)
    sh(["git", "-C", "/repo", "worktree", "prune"])
    r = sh(["git", "-C", "/repo", "worktree", "add", "-q", "--detach", wt, "HEAD"])
    assert r.returncode == 0, r.stderr
    log = {}
    try:
        ra = sh(["git", "apply", os.path.join(src, f"refactor_{k}.diff")], cwd=wt)
        log["apply_rc"], log["apply_err"] = ra.returncode, ra.stderr[-300:]
        if ra.returncode == 0:
            jx = os.path.join(wt, "_junit.xml")
            sh(f"/venv/bin/python -m pytest -q -p no:cacheprovider --timeout=900 --continue-on-collection-errors --junitxml={jx} >/dev/null 2>&1", cwd=wt)
            base = set(json.load(open("/root/.vp/BASELINE.json"))["stable_pass"])
            passed = set()
            for tc in ET.parse(jx).getroot().iter("testcase"):
                if all(ch.tag in ("system-out", "system-err") for ch in tc):
                    passed.add(f"{tc.get('classname')}::{tc.get('name')}")
            log["baseline_missing"] = sorted(base - passed)[:10]
            log["tests_pass"] = not (base - passed)
        ok = log.get("apply_rc") == 0 and log.get("tests_pass")
        log["confirmed"] = bool(ok)
        if ok:
            dst = os.path.join(ROOT, "seeded", f"{g}-{k}")
            os.makedirs(dst, exist_ok=True)
            shutil.copy(os.path.join(src, f"refactor_{k}.diff"), os.path.join(dst, "patch.diff"))
            meta = json.load(open(os.path.join(src, f"meta_{k}.json")))
            json.dump(dict(property=None, expect=0, checks=checks, summary="HARMLESS refactoring: " + str(meta.get("summary")), functions=meta.get("functions"),
                           why_preserving=meta.get("why_preserving"), origin="independent sub-agent asked for strictly behaviour-preserving refactorings (no access to /verif)",
                           confirmed_by=dict(cmd=f"tools/confirm_harmless.py {g} {k} {','.join(checks)}", baseline_tests_with_patch="all 165 baseline tests pass")),
                      open(os.path.join(dst, "meta.json"), "w"), indent=1)
        print(json.dumps(log, indent=1))
    finally:
        sh(["git", "-C", "/repo", "worktree", "remove", "--force", wt])
        shutil.rmtree(wt, ignore_errors=True)


if __name__ == "__main__":
    main()
