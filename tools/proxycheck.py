#!/usr/bin/env python3
"""CPython / torch cross-check of the proxy semantics (engine soundness, DESIGN §2.3): every pointwise operation of `SymTensor`
and of the `FakeTorch` stub namespace is executed (a) symbolically, the resulting z3 term evaluated under a concrete
interpretation of the array constants, and (b) natively by real torch on the same concrete data; results must agree, and the
aliasing behaviour (in-place visible through detach()/view, not through clone()) must match torch's.

usage: .venv312/bin/python tools/proxycheck.py     (exit 0 = every proxy operation agrees with real torch)
"""
import logging
import os
import sys

ROOT = os.path.dirname(os.path.dirname(os.path.abspath(__file__)))
sys.path.insert(0, ROOT)
logging.disable(logging.CRITICAL)

import torch  # noqa: E402
import z3  # noqa: E402

from vlib.numeval import Eval  # noqa: E402
from vlib.sym import SymReal  # noqa: E402
from vlib.tensor import FakeTorch, SymTensor  # noqa: E402

N = 6
EV = Eval({}, seed=7)


def conc(name):
    f = EV.arr_const(name)
    return torch.tensor([f(i) for i in range(N)], dtype=torch.float64)


class PosEval(Eval):
    def arr_const(self, name):
        base = Eval.arr_const(self, name)
        if name.startswith("p"):
            return lambda i: abs(base(i)) + 0.5
        return base


EV = PosEval({}, seed=7)


def sym(name):
    return SymTensor.array(name, dtype=torch.float64)


def value(t):
    ev = PosEval({}, seed=7)
    return torch.tensor([float(ev.ev(t.at(z3.IntVal(i)))) for i in range(N)], dtype=torch.float64)


def check(label, got_sym, want, failures):
    got = value(got_sym) if isinstance(got_sym, SymTensor) else got_sym
    if not torch.allclose(got, want, rtol=1e-9, atol=1e-9):
        failures.append(f"{label}: proxy {got.tolist()} vs torch {want.tolist()}")


def main():
    ft = FakeTorch()
    fails = []
    a, b, c, p = conc("a"), conc("b"), conc("c"), conc("p")
    s, al = 0.37, -1.25
    # out-of-place
    for label, fs, fr in [
        ("add", lambda x, y: x + y, lambda x, y: x + y), ("sub", lambda x, y: x - y, lambda x, y: x - y),
        ("mul", lambda x, y: x * y, lambda x, y: x * y), ("div", lambda x, y: x / (y * y + 1), lambda x, y: x / (y * y + 1)),
        ("radd", lambda x, y: s + x, lambda x, y: s + x), ("rsub", lambda x, y: s - x, lambda x, y: s - x), ("rmul", lambda x, y: s * x, lambda x, y: s * x),
        ("neg", lambda x, y: -x, lambda x, y: -x), ("square", lambda x, y: x.square(), lambda x, y: x.square()),
        ("add-alpha", lambda x, y: x.add(y, alpha=al), lambda x, y: x.add(y, alpha=al)),
        ("lerp", lambda x, y: x.lerp(y, s), lambda x, y: x.lerp(y, s)), ("pow2", lambda x, y: x ** 2, lambda x, y: x ** 2),
        ("clone", lambda x, y: x.clone(), lambda x, y: x.clone()),
    ]:
        check(label, fs(sym("a"), sym("b")), fr(a.clone(), b.clone()), fails)
    check("sqrt", sym("p").sqrt(), p.sqrt(), fails)
    check("scalar-tensor mul", sym("a") * SymTensor.real_scalar(SymReal(z3.RealVal("3/8"))), a * 0.375, fails)
    # in-place
    for label, fs, fr in [
        ("add_", lambda x, y, z: x.add_(y, alpha=al), lambda x, y, z: x.add_(y, alpha=al)), ("sub_", lambda x, y, z: x.sub_(y, alpha=al), lambda x, y, z: x.sub_(y, alpha=al)),
        ("mul_", lambda x, y, z: x.mul_(y), lambda x, y, z: x.mul_(y)), ("mul_scalar", lambda x, y, z: x.mul_(s), lambda x, y, z: x.mul_(s)),
        ("div_", lambda x, y, z: x.div_(y * y + 1), lambda x, y, z: x.div_(y * y + 1)), ("copy_", lambda x, y, z: x.copy_(y), lambda x, y, z: x.copy_(y)),
        ("lerp_", lambda x, y, z: x.lerp_(y, s), lambda x, y, z: x.lerp_(y, s)), ("addcmul_", lambda x, y, z: x.addcmul_(y, z, value=al), lambda x, y, z: x.addcmul_(y, z, value=al)),
        ("zero_", lambda x, y, z: x.zero_(), lambda x, y, z: x.zero_()),
    ]:
        xs = sym("a")
        r = fs(xs, sym("b"), sym("c"))
        xr = a.clone()
        fr(xr, b.clone(), c.clone())
        check(label, xs, xr, fails)
        if r is not xs:
            fails.append(f"{label}: in-place proxy op does not return self")
    xs = sym("p")
    xs.sqrt_()
    check("sqrt_", xs, p.clone().sqrt_(), fails)
    # foreach
    for label, run_s, run_r in [
        ("_foreach_add_(alpha)", lambda: ft._foreach_add_, lambda: torch._foreach_add_),
    ]:
        xs, ys = [sym("a"), sym("b")], [sym("b"), sym("c")]
        ft._foreach_add_(xs, ys, alpha=al)
        xr, yr = [a.clone(), b.clone()], [b.clone(), c.clone()]
        torch._foreach_add_(xr, yr, alpha=al)
        check(label + "[0]", xs[0], xr[0], fails)
        check(label + "[1]", xs[1], xr[1], fails)
    xs = [sym("a"), sym("b")]
    ft._foreach_mul_(xs, s)
    xr = [a.clone(), b.clone()]
    torch._foreach_mul_(xr, s)
    check("_foreach_mul_(scalar)", xs[1], xr[1], fails)
    xs, ys = [sym("a")], [sym("b")]
    out = ft._foreach_lerp(xs, ys, weight=s)
    check("_foreach_lerp", out[0], torch._foreach_lerp([a.clone()], [b.clone()], weight=s)[0], fails)
    check("_foreach_lerp leaves input", xs[0], a, fails)
    ft._foreach_lerp_(xs, ys, weight=s)
    xr = [a.clone()]
    torch._foreach_lerp_(xr, [b.clone()], weight=s)
    check("_foreach_lerp_", xs[0], xr[0], fails)
    xs, ys, zs = [sym("a")], [sym("b")], [sym("c")]
    ft._foreach_addcmul_(xs, ys, zs, value=al)
    xr = [a.clone()]
    torch._foreach_addcmul_(xr, [b.clone()], [c.clone()], value=al)
    check("_foreach_addcmul_", xs[0], xr[0], fails)
    out = ft._foreach_div([sym("a")], SymTensor.real_scalar(SymReal(z3.RealVal(4))))
    check("_foreach_div(scalar tensor)", out[0], torch._foreach_div([a.clone()], torch.tensor(4.0, dtype=torch.float64))[0], fails)
    out = ft._foreach_div([sym("a")], [sym("p")])
    check("_foreach_div(list)", out[0], torch._foreach_div([a.clone()], [p.clone()])[0], fails)
    xs = [sym("a")]
    ft._foreach_div_(xs, [sym("p")])
    xr = [a.clone()]
    torch._foreach_div_(xr, [p.clone()])
    check("_foreach_div_", xs[0], xr[0], fails)
    xs = [sym("a")]
    ft._foreach_copy_(xs, [sym("b")])
    check("_foreach_copy_", xs[0], b, fails)
    xs = [sym("p")]
    ft._foreach_sqrt_(xs)
    check("_foreach_sqrt_", xs[0], p.sqrt(), fails)
    # aliasing
    x = sym("a")
    v = x.detach()
    cl = x.clone()
    x.mul_(2.0)
    check("detach() aliases the storage", v, a * 2, fails)
    check("clone() does not alias", cl, a, fails)
    v2 = x.view(2, 3)
    v2.add_(1.0)
    check("view() aliases the storage", x, a * 2 + 1, fails)
    # real-torch aliasing facts the model relies on
    xr = a.clone()
    vr = xr.detach()
    xr.mul_(2.0)
    if not torch.equal(vr, a * 2):
        fails.append("real torch: detach() no longer aliases")
    lst = (a.clone(),)
    same = lst
    torch._foreach_mul_(same, 2.0)
    if not torch.equal(lst[0], a * 2):
        fails.append("real torch: _foreach_mul_ does not mutate the list elements in place")
    # int scalar / step semantics
    st = SymTensor.int_scalar(3)
    st.add_(1)
    if z3.simplify(st.v).as_long() != 4:
        fails.append("int scalar add_")
    pw = 0.5 ** SymTensor.int_scalar(3)
    if abs(float(PosEval({}, 1).ev(pw.at(0))) - 0.125) > 1e-12:
        fails.append("scalar ** int-tensor")
    for f in fails:
        print("MISMATCH", f)
    print(f"proxycheck: {'OK' if not fails else 'FAILED'} ({len(fails)} mismatches)")
    sys.exit(1 if fails else 0)


if __name__ == "__main__":
    main()
