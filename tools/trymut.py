#!/usr/bin/env python3
"""Debug helper: apply one catalogued / seeded change to a scratch copy of /repo, run `vcheck <check> [args...]` against it, print the
tail of the output, remove the copy.   usage: tools/trymut.py <name> <Cnn> [vcheck args...]"""
import json, os, shutil, subprocess, sys, tempfile
ROOT = os.path.dirname(os.path.dirname(os.path.abspath(__file__)))
name, check, rest = sys.argv[1], sys.argv[2], sys.argv[3:]
cat = {e["name"]: e for e in json.load(open(os.path.join(ROOT, "selftest", "catalog.json")))}
d = tempfile.mkdtemp(prefix="verif_trymut_")
try:
    subprocess.run(["rsync", "-a", "--exclude", ".git", "/repo/", d + "/"], check=True)
    if name.startswith("seeded-"):
        r = subprocess.run(["git", "apply", "--unsafe-paths", "--directory", d, os.path.join(ROOT, "seeded", name[7:], "patch.diff")], cwd="/", capture_output=True, text=True)
        assert r.returncode == 0, r.stderr
    else:
        e = cat[name]
        for ed in e.get("edits") or [e]:
            p = os.path.join(d, ed["file"]); s = open(p).read(); assert ed["old"] in s, "pattern not found"
            open(p, "w").write(s.replace(ed["old"], ed["new"], ed.get("count", 1)))
    r = subprocess.run([os.path.join(ROOT, "vcheck"), check] + rest, capture_output=True, text=True, env=dict(os.environ, VERIF_REPO=d))
    lines = [l for l in (r.stdout + r.stderr).splitlines() if not l.startswith(("    ", "  File"))]
    print("\n".join(l[:400] for l in lines[-int(os.environ.get("TAIL", "12")):]))
    print("rc =", r.returncode)
finally:
    shutil.rmtree(d, ignore_errors=True)
    shutil.rmtree(os.path.join(ROOT, ".scratch", os.path.basename(d)), ignore_errors=True)
