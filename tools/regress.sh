#!/bin/sh
# runs every registered check (quick tier) on /repo and prints one summary line each; exit 1 if any check does not exit 0
cd "$(dirname "$0")/.."
rc=0
for p in C01 C02 C03 C04 C05 C06 C07 C08 C09 C10 C11 C12 C13 C14 C15 C16 C17 C18; do
  out=$(VERIF_SEED=${VERIF_SEED:-1} timeout ${REGRESS_TIMEOUT:-1800} ./vcheck $p --tier ${1:-quick} 2>&1); r=$?
  echo "$p rc=$r $(echo "$out" | grep "^$p \[" | tail -1 | cut -c1-200)"
  if [ $r -ne 0 ]; then rc=1; echo "$out" | grep -v "^KNOWN" | grep "VIOLATION\|UNDECIDED\|CRASH" | head -3 | cut -c1-300; fi
done
exit $rc
