#!/usr/bin/env python3
"""Mutation self-test of the engines: applies each catalogued change (a property-breaking patch, or a
semantics-preserving refactoring) to a scratch copy of /repo's working tree OUTSIDE /repo and /verif, runs the
named check against the copy (VERIF_REPO), removes the copy, and compares the exit code with the expectation
(breaking => 1, harmless => 0).

usage: tools/selftest.py [name-substring ...]      (catalogue: selftest/catalog.json, seeded/<id>/patch.diff)
"""
import json
import os
import shutil
import subprocess
import sys
import tempfile
import time

ROOT = os.path.dirname(os.path.dirname(os.path.abspath(__file__)))
REPO = "/repo"


def run_one(entry):
    d = tempfile.mkdtemp(prefix="verif_selftest_")
    try:
        subprocess.run(["rsync", "-a", "--exclude", ".git", REPO + "/", d + "/"], check=True)
        if "patch" in entry:
            r = subprocess.run(["git", "apply", "--unsafe-paths", "--directory", d, os.path.join(ROOT, entry["patch"])],
                               cwd="/", capture_output=True, text=True)
            if r.returncode != 0:
                r = subprocess.run(["patch", "-p1", "-d", d, "-i", os.path.join(ROOT, entry["patch"])], capture_output=True, text=True)
                if r.returncode != 0:
                    return dict(name=entry["name"], ok=False, detail="patch does not apply: " + r.stderr[-300:] + r.stdout[-300:])
        else:
            for ed in entry.get("edits") or [entry]:
                p = os.path.join(d, ed["file"])
                s = open(p).read()
                if s.count(ed["old"]) < 1:
                    return dict(name=entry["name"], ok=False, detail="pattern not found")
                s = s.replace(ed["old"], ed["new"], ed.get("count", 1))
                open(p, "w").write(s)
        res = {}
        allok = True
        for prop in entry["checks"]:
            t0 = time.time()
            env = dict(os.environ, VERIF_REPO=d)
            r = subprocess.run([os.path.join(ROOT, "vcheck"), prop, "--tier", "quick"], capture_output=True, text=True, env=env)
            want = entry.get("expect", 1)
            res[prop] = dict(rc=r.returncode, s=round(time.time() - t0, 1),
                             first=[l for l in r.stdout.splitlines() if l.startswith(("VIOLATION", "UNDECIDED", "CHECKER-CRASH"))][:2])
            if r.returncode != want:
                allok = False
        if entry.get("expect", 1) == 1 and len(entry["checks"]) > 1:
            # a breaking change listed against several checks: caught iff at least one reports a violation and none crashes
            rcs = [v["rc"] for v in res.values()]
            allok = (1 in rcs) and (3 not in rcs)
        return dict(name=entry["name"], ok=allok, results=res)
    finally:
        shutil.rmtree(d, ignore_errors=True)
        shutil.rmtree(os.path.join(ROOT, ".scratch", os.path.basename(d)), ignore_errors=True)
        # (evidence / replays of scratch-copy runs go to .scratch/, never to evidence/)


def main():
    cat = json.load(open(os.path.join(ROOT, "selftest", "catalog.json")))
    sd = os.path.join(ROOT, "seeded")
    for d in sorted(os.listdir(sd)) if os.path.isdir(sd) else []:
        mp = os.path.join(sd, d, "meta.json")
        if os.path.exists(mp):
            meta = json.load(open(mp))
            cat.append(dict(name="seeded-" + d, patch=f"seeded/{d}/patch.diff", checks=meta.get("checks") or [meta["property"]], expect=meta.get("expect", 1)))
    sel = sys.argv[1:]
    exact = set()
    for a in list(sel):
        if a.startswith("@"):  # @file: exact names, one per line
            sel.remove(a)
            exact |= {l.strip() for l in open(a[1:]) if l.strip()}
    bad = 0
    for e in cat:
        if (sel or exact) and not (any(s in e["name"] for s in sel) or e["name"] in exact):
            continue
        r = run_one(e)
        print(("OK   " if r["ok"] else "MISS ") + json.dumps(r), flush=True)
        r.update(expect=e.get("expect", 1), checks=e["checks"], note=e.get("note", ""), when=time.strftime("%Y-%m-%dT%H:%M:%S"),
                 verif_commit=subprocess.run(["git", "-C", ROOT, "rev-parse", "--short", "HEAD"], capture_output=True, text=True).stdout.strip(),
                 repo_commit=subprocess.run(["git", "-C", REPO, "rev-parse", "--short", "HEAD"], capture_output=True, text=True).stdout.strip())
        with open(os.path.join(ROOT, "selftest", "results.jsonl"), "a") as f:
            f.write(json.dumps(r) + "\n")
        bad += 0 if r["ok"] else 1
    sys.exit(1 if bad else 0)


if __name__ == "__main__":
    main()
