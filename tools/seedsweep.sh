#!/bin/sh
# quick tier of every check for several VERIF_SEED values (the seed only affects the bounded stand-in tiers): any non-zero exit on the
# unchanged tree would be a seed-dependent false alarm / flaky tolerance.   usage: tools/seedsweep.sh [seed ...]
cd "$(dirname "$0")/.."
rc=0
for s in ${@:-0 2 3 7 11 12345}; do
  echo "== VERIF_SEED=$s"
  VERIF_SEED=$s sh tools/regress.sh quick | grep -v "rc=0" && rc=1
done
exit $rc
