#!/usr/bin/env python3
"""Regenerates MANIFEST.json from the table below (claimed checks) — every property not claimed is listed under
not_applicable with its reason."""
import json
import os

ROOT = os.path.dirname(os.path.dirname(os.path.abspath(__file__)))

E2 = ("contract-based deductive verification: the real function objects of /repo are executed by CPython on symbolic "
      "proxies (all feasible paths enumerated), per-path verification conditions generated from sidecar contracts and "
      "discharged by z3 (cvc5 on unknown)")

CLAIMED = {
    "C17": dict(
        category="proof",
        text=("Every feasible path of the real DistributedShampoo.__init__ (up to super().__init__) and of the real config "
              "__post_init__s is enumerated on symbolic IEEE doubles / integers; per path the obligations `raises ValueError => "
              "not D`, `success => D` and `defaults resolved as documented` are discharged by z3 for all values, including NaN, "
              "infinities, signed zero and every boundary. Loop-free code, so the path enumeration is complete, not time-boxed."),
        design_ref="DESIGN.md §4/C17",
        note=("trusted: CPython, z3 FloatingPoint theory, stubbed torch.optim.Optimizer.__init__ (stores defaults); override-list "
              "length and ignored_dims lists enumerated (0..3 quick, 0..5 thorough); unsupported config types enumerated by kind; "
              "bounded boundary grid on the real constructor reported separately, not counted as proved"),
        technique=E2 + "; Float64 theory for comparisons",
    ),
}

CLAIMED["C01"] = dict(
    category="proof",
    text=("The real _per_group_step_impl (with its six helpers, the real default update_params and the real Adagrad/SGD grafting lists), the real "
          "step() and the real Shampoo preconditioner-list class are executed on symbolic tensors/scalars; on every feasible flag path the post-heap "
          "(parameters, filtered gradient, momentum, grafting accumulator, factor matrices, inverse roots, bias corrections, step counter) is proved equal "
          "to the documented recurrence for all real values, all step numbers, orders 0..4 and every ignored-dims subset; schedule flags and argument wiring "
          "of step() are proved for all integers. Counter-models replay on the real code natively."),
    design_ref="DESIGN.md §4/C01",
    note=("real arithmetic instead of IEEE; assumed pointwise/norm contracts of torch _foreach ops; tensordot/permute uninterpreted per structural signature "
          "(their mathematical meaning validated natively against einsum definitions, bounded); matrix_inverse_root by contract [M]; two generic blocks "
          "(block-count parametricity is a stated meta-assumption); filtered/momentum buffers exist iff beta1/momentum non-zero at construction"),
    technique=E2 + "; real-arithmetic + array theory, uninterpreted matrix functions; numeric refutation + native replay for counter-models",
)
CLAIMED["C02"] = dict(
    category="proof",
    text=("Under the hyperparameter correspondence of each of the five grafting targets, one real warm-up group step is proved (all values, all flag paths) to "
          "produce the parameter that the REAL torch.optim._single_tensor_{sgd,adagrad,rmsprop,adam,adamw} function produces when shadow-executed on the same symbolic "
          "state (the carried state correspondence is an auxiliary invariant); a block of the group without gradient keeps its grafting state untouched, as torch.optim "
          "skips parameters whose grad is None; DistributedShampoo.step's per-group loop (one group step per group with gradients, none for the others, the loop never "
          "stops early) is discharged by the step/flags contract cases; after warm-up the applied direction is proved to be the Shampoo direction times "
          "||graft||/(||shampoo||+1e-16); _instantiate_grafting's config->(beta2, epsilon, bias-correction) wiring is proved on the real code."),
    design_ref="DESIGN.md §4/C02",
    note=("the torch.optim side is the real single-tensor implementation of the installed torch (its foreach / fused variants are assumed equivalent); side conditions SGD "
          "dampening=0, Adagrad lr_decay=0, RMSprop centered=False/momentum=0, per-parameter step == group step for the Adam variants; axiom instances for integer powers, "
          "sqrt and Frobenius-norm homogeneity; real arithmetic; real optimizer vs real torch.optim classes with absent gradients and two parameter groups is bounded"),
    technique=E2 + "; oracle = the real torch.optim single-tensor functions shadow-executed; NRA with sqrt/pow axiom instances and separately discharged lemmas",
)

CLAIMED["C03"] = dict(
    category="proof",
    text=("The real EigenvalueCorrectedShampooPreconditionerList (constructor chain, update_preconditioners, _update_eigenvalue_corrections, precondition, "
          "_amortized_computation) is executed on symbolic tensors for orders 1..4 and every ignored-dims subset: factor recurrence, refresh only on the flag, "
          "corrected eigenvalues = second moment of the gradient rotated through the refreshed bases, direction = rotate / divide by (C/bc2+eps)^(1/root) / rotate "
          "back with the same bases, original coordinates before a basis exists, ignored dims only permuted — proved for all values on every path. The dtype "
          "discipline of the QR path is proved on the real _compute_orthogonal_iterations for all 9 dtype pairings."),
    design_ref="DESIGN.md §4/C03",
    note=("structure proved; orthonormality/diagonalisation of the stored bases rest on the assumed eigh/qr contracts (C12) and are sampled natively (bounded); "
          "tensordot/permute uninterpreted per signature; real arithmetic; bases under tolerated failures are C13's subject"),
    technique=E2 + "; uninterpreted matrix functions + dtype theory",
)

CLAIMED["C13"] = dict(
    category="proof",
    text=("The real _amortized_computation of both list classes, the counter update, the NaN/Inf guard and compress_preconditioner_list are executed "
          "with a matrix routine that may throw (one symbolic fault bit per call) on two blocks / three factors: on every feasible path a failed factor keeps "
          "its previous matrix, a computed matrix is stored only after factor and result passed the NaN/Inf checks, the per-block counter resets / increments "
          "by one / raises exactly past a symbolic tolerance, a raising step has written no parameter, and a mask change preserves every block's counter "
          "(representation invariant local[b] = run[b], all 8x8 old/new masks on three blocks)."),
    design_ref="DESIGN.md §4/C13",
    note=("matrix routine by contract (returns or throws); isnan/isinf uninterpreted predicates; two/three generic blocks; histories by induction over the "
          "counter invariant; bounded native fault-injection x mask histories through the real optimizer reported separately"),
    technique=E2 + "; ghost history variable per block, representation invariant over masks",
)

CLAIMED["C04"] = dict(
    category="proof",
    text=("Representation invariant RI (every masked list = compress(its local list, current selector), selectors consistent) is shown to be established by the "
          "real constructor and re-established by the real merge_and_block_gradients + _mask_state_lists + compress_preconditioner_list from every previous "
          "gradient-presence pattern to every new one (complete transition enumeration on a three-block instance, five configuration families; every `_masked_*` "
          "attribute found by introspection) - an inductive argument over histories of any length; with RI the symbolic group step writes no heap object of an "
          "unselected block (E2 frame obligation) and step() skips a group without gradients before incrementing its counter (E2, all integers)."),
    design_ref="DESIGN.md §4/C04",
    note=("block-count parametricity: transition relation enumerated on three equal-shaped blocks over two parameters (list code uses zip/compress/foreach only); "
          "real code executed concretely for the RI transitions (exhaustive over patterns, not symbolic); bounded native presence histories with twin-parameter "
          "cross-wiring oracle reported separately"),
    technique="representation invariant checked inductively on the real code (complete enumeration of mask transitions) + " + E2 + " for frame and skip obligations",
)
CLAIMED["C05"] = dict(
    category="proof",
    text=("merge_small_dims is executed on symbolic extents/threshold for orders 0..4 (the property's domain): element count preserved, result = products of runs of "
          "adjacent non-1 dims, fused runs within the limit, on every path for all integers. multi_dim_split is executed against the torch.split view contract with "
          "symbolic extents and split size: pieces are exactly the chunk boxes in row-major order, views of the same storage, extents in 1..s; the 1-D chunking "
          "partition lemma is discharged in LIA for all n, s. The real _merge_and_block_parameters/_gradients run on view proxies: view(merged) legal, blocks are "
          "views of the parameter's own storage, gradient block k has parameter block k's box, selector repeats presence per block."),
    design_ref="DESIGN.md §4/C05",
    note=("torch.split / view / detach contracts assumed (validated natively, bounded); chunk counts per dimension enumerated in {1,2,3} for the fold structure; "
          "product-of-partitions fact machine-checked by Lean 4 on every run (lemmas/C05ProductPartition.lean); independence of blocks is the non-interference obligation of C01/C04; exhaustive small-shape native tiling check reported as bounded"),
    technique=E2 + "; LIA/NIA over symbolic extents, view/box theory with a torch.split contract stub",
)

CLAIMED["C15"] = dict(
    category="proof",
    text=("The nested recursive function is rebuilt from the real code object and executed one level at a time on symbolic extents, start and end with the contract "
          "assumed at its recursive calls (structural induction, dimension concrete, orders 0..5, both copies): every recursive-call precondition, every narrow/view "
          "side condition and the postcondition (ordered gap-free chain from start to end, empty range gives [], every explicit piece a non-empty slab m x shape[d+1:] "
          "aligned to R_d inside one cell of R_{d-1}, as a narrow/view of the shard) are discharged for all integers; a relational obligation proves the FSDP and HSDP "
          "copies return identical pieces. Minimality: the code is proved to follow the optimal recurrence (rec(d+1) on the partial ranges, one slab for the aligned centre, "
          "direct descent when no cell boundary lies in the range) with the strengthened recursion precondition end - start < R_{d-1}, and the arithmetic lemmas of the lower "
          "bound (a slab of level d lies in the centre, deeper slabs lie in one of the three parts because cells nest, no shallower slab fits) are discharged as pure integer "
          "obligations; the counting / induction step combining them is machine-checked by Lean 4 on every run (lemmas/C15Minimality.lean, theorem C15.minimality_top) and additionally cross-checked exhaustively against a DP optimum on small shapes (bounded)."),
    design_ref="DESIGN.md §4/C15",
    note=("narrow/view contracts assumed; recursion by contract; nonlinear integer arithmetic with explicit div/mod axiom instances; products of extents kept atomic; "
          "minimality: recurrence + arithmetic lemmas proved, counting/induction step proved in Lean 4 (lemmas/C15Minimality.lean, a statement about the specification linked to the code by the recurrence obligation) and sampled exhaustively (numel <= 24 quick / 64 thorough); "
          "wrapper checked by run-time contract evaluation on all small shapes"),
    technique=E2 + "; recursion by contract on the real nested code object, NIA with div/mod axiom instances, relational obligation for the two copies",
)

CLAIMED["C14"] = dict(
    category="proof",
    text=("The three copies of _distribute_buffer_sizes / _construct_distributed_buffers / _split_local_dist_buffers are executed on symbolic block byte sizes "
          "(ties included) with heapq and torch.split/view replaced by their contracts: alignment = next multiple of 64, one owner in [0,G), largest-first onto a "
          "least-loaded rank, load spread <= largest block, buffer views at owner*max + prefix of same-owner sizes, inside the owner's segment, pairwise disjoint, "
          "numel*dtype_size bytes, 64-byte aligned, every torch precondition (split sums, view alignment) — for all sizes with the block count enumerated; the "
          "assignment loop's inductive step is proved for arbitrary block count and G in 1..16 on the mechanically extracted loop body; purity (function of sizes "
          "and group size only) by AST scan."),
    design_ref="DESIGN.md §4/C14",
    note=("heapq / torch.split / view contracts assumed (validated natively); block count enumerated n<=3 (quick) / 4 (thorough), G in 1..3 for whole-function "
          "obligations; Graham's 4/3 bound cited and validated exhaustively (bounded, n<=7, G<=4); state placement checked natively only"),
    technique=E2 + "; heap and byte-range view contracts, extracted loop body for the inductive step (LIA)",
)

CLAIMED["C10"] = dict(
    category="other",
    text=("Structural clauses are proof obligations discharged on the real matrix_functions code executed on symbolic matrices with uninterpreted dense kernels: dispatch on the "
          "config type with the config's own parameters, every raise condition, 1x1 and diagonal fast paths equal to the general spectral value on PSD input, Newton's "
          " and budget rule, the higher-order solver's while/else flag semantics, its residual/NaN guard and the tf32 restore on "
          "every exit. The accuracy clause (relative error <= c n u cond + tolerance) is a floating-point statement no such contract can decide: it is sampled natively against "
          "a float64 spectral oracle (bounded stand-in, labelled, not counted as proved)."),
    design_ref="DESIGN.md §4/C10",
    note="dense kernels uninterpreted; iteration budgets enumerated small; accuracy bounded only (sizes 1..16 quick / 128 thorough, spectra, scales, roots, dtypes, four solver configs)",
    technique=E2 + " for the structural clauses; bounded numeric sampling for the accuracy clause",
)
CLAIMED["C11"] = dict(
    category="proof",
    text=("On the real code: the eigendecomposition path returns the spectral function Q f(Lambda) Q^T of eigh(A) with f(lambda) = (lambda - min(lambda_min,0) + eps)^(-1/r) "
          "(both stability variants), the shifted eigenvalue is >= eps > 0 for every real input whatever the sign of lambda_min, hence 0 < f <= eps^(-1/r) (lemma over the assumed "
          "monotone-power axioms); the 1x1 shortcut equals that formula for any sign; non-square / non-2-D inputs with more than one element are rejected on every path; the "
          "double-precision retry happens exactly when the first attempt throws, the flag is set and the dtype is not float64."),
    design_ref="DESIGN.md §4/C11",
    note=("eigh exact-arithmetic contract and real-power axioms assumed; symmetric-PD / commuting / equivariance consequences of the spectral form are machine-checked by Lean 4 / Mathlib on every run (lemmas/C11Spectral.lean) and are "
          "sampled natively (bounded) on zero, rank-deficient and slightly indefinite matrices; floating-point finiteness sampled"),
    technique=E2 + "; real arithmetic lemma for the spectral function",
)
CLAIMED["C12"] = dict(
    category="other",
    text=("Control and data flow of matrix_eigenvectors / _compute_orthogonal_iterations / check_diagonal are proof obligations on the real code (1x1 -> ones, diagonal flag -> "
          "eye in A's dtype, shape rejection, eigh config -> eigh's eigenvectors, QR: zero estimate -> eigh fallback, else 1..max updates Q <- qr(A @ Q).Q and a final permutation "
          "by ascending Rayleigh quotient, unknown config -> NotImplementedError). Orthonormality / ordering / diagonalisation follow only from the assumed LAPACK contracts; "
          "they and the fixed-point-up-to-sign clause are sampled natively (bounded stand-in)."),
    design_ref="DESIGN.md §4/C12",
    note=("LAPACK eigh/qr contracts assumed; QR loop under a loop contract for every iteration budget; numerics bounded only (sizes 1..16 quick / 64 thorough, distinct / repeated / "
          "singular spectra, both dtypes); known finding F12: on a singular PSD matrix an exact eigenbasis is not a fixed point of the QR method (reported as KNOWN-FINDING, exit 0)"),
    technique=E2 + " for control/data flow; bounded numeric sampling for the numerical clauses",
)

CLAIMED["C09"] = dict(
    category="proof",
    text=("Completeness argument decomposed into obligations: (1) the un-checkpointed derived state (_bias_correction2 of both preconditioner lists and of the grafting list) "
          "is proved irrelevant on the symbolic post-state of the real code: overwritten before use when bias correction is on, equal to its constructor value otherwise "
          "(relational obligations, all values, every path); masked lists are re-derived from the gradients (C04). (2) on seven configuration families every tensor reachable "
          "from optimizer.state is in the saved dict, every tensor a step mutates is a parameter or saved, keys are unique, the optimizer's own dict loads, load is in place "
          "(tensor identities kept) and restores param_groups; (3) unknown parameter keys, missing entries (also inside Kronecker-factor modules) and group mismatches raise. "
          "Determinism of the step is C01's contract. The bitwise resume at every stop step is sampled (bounded)."),
    design_ref="DESIGN.md §4/C09",
    note=("save/load structure obligations are concrete executions of the real functions over configuration families; reads of non-tensor Python attributes are covered by the "
          "object-graph scan only; bitwise resume bounded (every stop step 0..5, 7 families, seeded); C13's failure counters are not checkpointed (resume restarts the count)"),
    technique=E2 + " for derived-state independence (relational), run-time contract evaluation of the real save/load functions for structure; bounded bitwise resume",
)

CLAIMED["C06"] = dict(
    category="proof",
    text=("The real DDPDistributor.update_params is executed on symbolic block tensors under the all-gather contract (rely/guarantee over the group) for both modes, three "
          "communication dtypes, every gradient-presence pattern of three blocks and for the executing rank being owner and non-owner: each gradient-carrying block ends as "
          "param + round_comm(direction of its owner) (or round_comm(param + direction)), the same term on every rank, blocks without gradient untouched, exactly one all-gather "
          "of (global buffer, local buffer, group) - for all values. The DDP masked-list invariant is checked over all mask transitions on the real distributors of 2 and 3 "
          "simulated ranks. The collective-trace obligation compares, rank against rank, the real step()'s decision to enter the group step and the process-group creations of "
          "the per-owner state allocation: both diverge on the unchanged tree (known findings F5, F6, with characteristic conditions); any other divergence is a violation."),
    design_ref="DESIGN.md §4/C06, §5",
    note=("all_gather / new_group contracts assumed; per-block buffers as independent cells (C14); owner's direction = serial direction (C01); hangs reduced to trace equality; "
          "RI and end-to-end comparison with the serial optimizer on simulated ranks (threads) are bounded (world 1..4); F5/F6 are recorded findings, not repaired"),
    technique=E2 + "; rely/guarantee contract for the collective, 2-safety trace comparison; known-findings protocol",
)

CLAIMED["C07"] = dict(
    category="proof",
    text=("The real _merge_and_block_parameters / _merge_and_block_gradients of FSDPDistributor and HSDPDistributor are executed on view proxies with split-tensor-block recovery "
          "replaced by its contract (C15) and torch.split by its view contract: blocks are, in order, the default blocks of every recovered piece (extents <= max dim), the per-piece "
          "and per-parameter bookkeeping is exact, gradients are recovered with the same (shape, start, end) and blocked identically so gradient block k has parameter block k's box, "
          "an empty shard yields no blocks - all extents symbolic. compile_fsdp_parameter_metadata's index arithmetic is proved for all integers. HSDP's update_params is proved "
          "under the all-gather contract (as C06)."),
    design_ref="DESIGN.md §4/C07",
    note=("recovery by contract (C15), pieces per parameter enumerated 0..3, chunk counts enumerated; FSDP shard metadata partition is external; simulated-shard comparison with serial "
          "Shampoo on the recovered pieces and exactly-once coverage across shard ranks are bounded (1..8 ranks); the real HSDP distributor on replicate x shard meshes of simulated ranks (replica agreement for every communication setting, FP32 equal to serial on the recovered pieces) is bounded (meshes 2x2, 4x1, 3x2, 4x2)"),
    technique=E2 + "; contract composition C15 + C05 + C06",
)
CLAIMED["C08"] = dict(
    category="proof",
    text=("The real _get_params_or_grads and block-info constructors of FullyShardDistributor and HybridShardDistributor are executed on DTensor proxies with symbolic local sizes: "
          "parameters and gradients are filtered by the same predicate on the parameter (local numel > 0), an absent gradient stays None, block k's BlockInfo.param is the parameter "
          "owning block k, strict zips fail only on a count mismatch - for all local sizes and all gradient-presence patterns of three parameters. HybridShard's update_params is "
          "proved under the all-gather contract (as C06). Blocking, step, assignment and buffers are inherited from C05, C01-C04, C14."),
    design_ref="DESIGN.md §4/C08",
    note=("DTensor.to_local contract assumed; bounded: FullyShard DTensor runs on simulated ranks with empty local shards and absent gradients vs serial Shampoo on the local tensors "
          "(world 2..4) and the real HybridShard distributor on replicate x shard meshes of simulated ranks (local shard == serial for FP32 communication, replicas bit-identical "
          "for every communication setting, a never-updated parameter stays untouched)"),
    technique=E2 + "; contract composition with C05/C14/C06",
)

CLAIMED["C18"] = dict(
    category="other",
    text=("The compiled callable is produced by Dynamo/AOT at run time and is not source text; Dynamo's correctness is a TRUSTED contract [D]: torch.compile(f, numerics-preserving "
          "backend) is extensionally f executed with the tracing predicates (torch.compiler.is_compiling & co.) answering True, except inside torch.compiler.disable'd callees. "
          "Under [D] the property reduces to obligations on the real code, which are discharged deductively: (1) wiring - _instantiate_per_group_step hands exactly the bound "
          "_per_group_step_impl to torch.compile with the user's backend and installs the result (or the uncompiled bound method); (2) mode-independence - the real "
          "_per_group_step_impl with its helpers, update_preconditioners / precondition of both Shampoo list classes and update_params satisfy the SAME functional contract as in "
          "C01 / C03 (post-state = documented recurrence, observed where a step ends) with the tracing predicates answered by one symbolic boolean (False inside compiler-disabled "
          "callees, recognised by the frame of Dynamo's real wrapper), so every obligation holds for both answers, for all values. The compiled artefact itself (eager and "
          "aot_eager backends, static / dynamic shapes) is compared bitwise with the uncompiled optimizer and with the float64 reference at run time - bounded stand-in only."),
    design_ref="DESIGN.md §0.6, §4/C18",
    note=("Dynamo/AOTAutograd trusted [D]; inductor out of scope; trusted base of C01/C03 carries over; the run-time comparison is bounded: 6 configurations quick / 24 thorough x backends "
          "x modes x 6 steps"),
    technique=E2 + " with the tracing predicate symbolic (mode-independence of the traced region) + wiring obligations; bounded run-time comparison of the compiled artefact",
)

CLAIMED["C16"] = dict(
    category="proof",
    text=("Structural induction by contract on the real nested code objects: one recursion level of flatten_with_parent_keys, save_to_state_dict and "
          "load_from_new_state_to_old_state is executed for every combination of child kinds (up to three children / two elements) with opaque keys and tensors and the "
          "contract assumed at recursive calls: flat keys are dumps(parent ++ [key]) of the same leaf objects, sub-dictionaries are flattened under the extended prefix, "
          "nothing is overwritten, leaf-less sub-dictionaries contribute nothing; unflatten builds the trie of decoded paths with the same leaves; state_dict stores "
          "detached aliases, delegates to nested modules and recurses into dicts/lists/tuples; load copies in place returning the same tensor object and rebuilds "
          "containers with the same objects. Holds for any string/integer keys under the assumed json contract (validated against CPython natively)."),
    design_ref="DESIGN.md §4/C16",
    note=("json contract assumed (dumps injective, loads inverse, key types kept) and validated natively; child-kind combinations enumerated (code iterates children uniformly); "
          "whole-structure round trips bounded (exhaustive small trees over adversarial keys, seeded module graphs)"),
    technique=E2 + "; recursion by contract on real nested code objects with opaque keys (structural induction)",
)

NOT_YET = "no check committed yet for this property (work in progress; see DESIGN.md for the planned contract)"


def main():
    props = [json.loads(l) for l in open(os.path.join(ROOT, "properties.jsonl"))]
    checks, na = [], []
    for p in props:
        pid = p["id"]
        c = CLAIMED.get(pid)
        if c is None or not os.path.exists(os.path.join(ROOT, "checks", pid.lower() + ".py")):
            na.append(dict(property_id=pid, reason=(c or {}).get("na_reason", NOT_YET)))
            continue
        checks.append(dict(
            property_id=pid,
            quick_cmd=f"./vcheck {pid} --tier quick",
            thorough_cmd=f"./vcheck {pid} --tier thorough",
            evidence_file=f"/verif/evidence/{pid}.json",
            replay_cmd_template="./vcheck replay {path}",
            engine="vcheck",
            level_claimed=dict(category=c["category"], text=c["text"], design_ref=c["design_ref"]),
            level_note=c["note"],
            technique=c["technique"],
        ))
    m = dict(
        version=1,
        setup_cmd="sh setup.sh",
        hooks=dict(guard="OPTIMIZERS_VERIF", enable="none needed: contracts are sidecar files under /verif; checks import /repo's working tree directly (editable install)",
                   baseline_off_cmd="cd /repo && /venv/bin/python -m pytest -ra -q -p no:cacheprovider --timeout=900 --continue-on-collection-errors",
                   source_commits=[], add_only=True),
        engines=[dict(name="vcheck", path="/verif/vcheck", serves_properties=[c["property_id"] for c in checks],
                      kind_free_text="self-built VC generator (shadow execution of the real code on z3-backed proxies + sidecar contracts) with z3/cvc5 back end; native replay; bounded run-time-contract tier labelled as such")],
        checks=checks,
        not_applicable=na,
        notes="See DESIGN.md. Exit codes of every check: 0 held, 1 violation (VIOLATION line), 2 undecided, 3 checker crash.",
    )
    json.dump(m, open(os.path.join(ROOT, "MANIFEST.json"), "w"), indent=1)
    print("MANIFEST.json:", len(checks), "checks,", len(na), "not_applicable")


if __name__ == "__main__":
    main()
