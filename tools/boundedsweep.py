#!/usr/bin/env python3
"""Runs ONLY the bounded stand-in tier of every check for several seeds on /repo (the deductive obligations do not depend on the seed):
any violation here on the unchanged tree is a seed-dependent false alarm (tolerance, flaky history).
usage: .venv312/bin/python tools/boundedsweep.py [--tier quick] [--checks C01,C02] seed [seed ...]"""
import importlib, logging, os, sys, time
ROOT = os.path.dirname(os.path.dirname(os.path.abspath(__file__)))
sys.path.insert(0, ROOT)
sys.path.insert(0, os.environ.get("VERIF_REPO", "/repo"))
logging.disable(logging.CRITICAL)
args = sys.argv[1:]
tier = "quick"
checks = [f"C{i:02d}" for i in range(1, 19)]
seeds = []
while args:
    a = args.pop(0)
    if a == "--tier":
        tier = args.pop(0)
    elif a == "--checks":
        checks = args.pop(0).split(",")
    else:
        seeds.append(int(a))
bad = 0
for c in checks:
    mod = importlib.import_module("checks." + c.lower())
    if not hasattr(mod, "bounded"):
        continue
    for s in seeds or [0, 2, 3]:
        t0 = time.time()
        try:
            b = mod.bounded(tier, s)
            v = b.get("violations") or []
        except BaseException as e:  # noqa
            v = [dict(ob="CRASH", text=f"{type(e).__name__}: {e}")]
        print(f"{c} seed={s} evals={b.get('evaluations') if not v or v[0].get('ob') != 'CRASH' else '-'} violations={len(v)} {time.time() - t0:.0f}s", flush=True)
        for x in v[:3]:
            bad += 1
            print("   ", x.get("ob"), "::", str(x.get("text"))[:300], flush=True)
sys.exit(1 if bad else 0)
