/-
C11 — consequences of the spectral form (specification-side mathematics; no repository code is modelled).
The real `_matrix_inverse_root_eigen` / diagonal / 1x1 paths are proved (z3, checks/c11.py) to return `Q diag(f(λ_i)) Qᵀ` with
`0 < f(λ_i) ≤ ε^(-1/r)` under the assumed `eigh` contract (`Qᵀ Q = 1`, `A = Q diag(λ) Qᵀ`).  This file machine-checks what was
"cited spectral calculus": such a matrix is symmetric (`spec_symm`), positive definite (`spec_posDef`), has the `f(λ_i)` as
eigenvalues on the columns of `Q` (`spec_eigen`), commutes with `A` (`spec_commute`), and is orthogonally equivariant
(`spec_equivariant`: conjugating the eigenbasis conjugates the result).
-/
import Mathlib.LinearAlgebra.Matrix.PosDef
import Mathlib.LinearAlgebra.Matrix.Symmetric
import Mathlib.Algebra.Order.Star.Real

open Matrix

namespace C11

variable {n : Type*} [Fintype n] [DecidableEq n]

/-- the spectral form: `Q diag(d) Qᵀ` -/
def spec (Q : Matrix n n ℝ) (d : n → ℝ) : Matrix n n ℝ := Q * diagonal d * Qᵀ

theorem spec_symm (Q : Matrix n n ℝ) (d : n → ℝ) : (spec Q d)ᵀ = spec Q d := by
  unfold spec
  simp [Matrix.transpose_mul, Matrix.mul_assoc]

theorem spec_commute (Q : Matrix n n ℝ) (hQ : Qᵀ * Q = 1) (d l : n → ℝ) :
    spec Q d * spec Q l = spec Q l * spec Q d := by
  unfold spec
  have h1 : Q * diagonal d * Qᵀ * (Q * diagonal l * Qᵀ) = Q * (diagonal d * (Qᵀ * Q) * diagonal l) * Qᵀ := by
    simp only [Matrix.mul_assoc]
  have h2 : Q * diagonal l * Qᵀ * (Q * diagonal d * Qᵀ) = Q * (diagonal l * (Qᵀ * Q) * diagonal d) * Qᵀ := by
    simp only [Matrix.mul_assoc]
  rw [h1, h2, hQ]
  simp only [Matrix.mul_one, diagonal_mul_diagonal]
  congr 3
  funext i
  exact mul_comm _ _

theorem spec_equivariant (U Q : Matrix n n ℝ) (d : n → ℝ) :
    spec (U * Q) d = U * spec Q d * Uᵀ := by
  unfold spec
  simp only [Matrix.transpose_mul, Matrix.mul_assoc]

theorem spec_posDef (Q : Matrix n n ℝ) (hQ : Qᵀ * Q = 1) (d : n → ℝ) (hd : ∀ i, 0 < d i) :
    (spec Q d).PosDef := by
  have hQ' : Q * Qᵀ = 1 := mul_eq_one_comm.mp hQ
  have hdiag : (diagonal d : Matrix n n ℝ).PosDef := Matrix.PosDef.diagonal hd
  have hinj : Function.Injective Q.vecMul := by
    intro x y hxy
    have h := congrArg (fun v => Matrix.vecMul v Qᵀ) hxy
    simpa [Matrix.vecMul_vecMul, hQ'] using h
  have := hdiag.mul_mul_conjTranspose_same (B := Q) hinj
  simpa [spec, Matrix.conjTranspose_eq_transpose_of_trivial] using this

/-- the eigenvalues of the spectral form are the `d i`: `spec Q d` maps the i-th column of `Q` to `d i` times itself -/
theorem spec_eigen (Q : Matrix n n ℝ) (hQ : Qᵀ * Q = 1) (d : n → ℝ) :
    spec Q d * Q = Q * diagonal d := by
  unfold spec
  rw [Matrix.mul_assoc, hQ, Matrix.mul_one]

end C11
