/-
C15 — lower bound ("no decomposition into valid slabs has fewer pieces") for the recurrence that the REAL
`block_within_tensor_shard_recovery` is proved to follow (obligation `ensures:pieces-follow-the-optimal-recurrence`
of checks/c15.py, discharged by z3 on the real code for every level of both copies).

This file machine-checks the counting / induction step that used to be a paper argument.  It is pure mathematics about
the SPECIFICATION (no repository code is modelled here):

  S 0 = numel (any positive multiple of S 1),  S (j+1) = R_j = prod(shape[j+1:]),   S (j+1) ∣ S j,  0 < S j.
  A slab of level j is a range [a, b), a < b, whose ends are multiples of S (j+1) and which lies inside one cell of S j.
  `Tiling S n d s e k`: [s, e) is cut into k consecutive slabs of levels j with d ≤ j < n.
  `N S fuel d s e` (fuel = n - d): the number of pieces of the recurrence the code follows
        0                                              if s = e
        1                                              at the last dimension (fuel = 1)
        N (d+1) s e                                    if L > R        (L = ⌈s / S(d+1)⌉ S(d+1), R = ⌊e / S(d+1)⌋ S(d+1))
        N (d+1) s L + [L < R] + N (d+1) R e            otherwise.

  theorem `minimality`:  Tiling S (d + fuel) d s e k  →  N S fuel d s e ≤ k.
  With d = 0 every level is allowed: any decomposition of [start, end) into valid slabs has at least as many pieces as
  the code returns.
-/
import Mathlib.Tactic.Linarith
import Mathlib.Tactic.Ring
import Mathlib.Algebra.Order.Ring.Nat

namespace C15

structure Strides (S : ℕ → ℕ) : Prop where
  pos : ∀ j, 0 < S j
  dvd : ∀ j, S (j + 1) ∣ S j

def ValidSlab (S : ℕ → ℕ) (j a b : ℕ) : Prop :=
  a < b ∧ S (j + 1) ∣ a ∧ S (j + 1) ∣ b ∧ ∃ c, c * S j ≤ a ∧ b ≤ (c + 1) * S j

inductive Tiling (S : ℕ → ℕ) (n d : ℕ) : ℕ → ℕ → ℕ → Prop
  | nil (s : ℕ) : Tiling S n d s s 0
  | cons {s m e k : ℕ} (j : ℕ) : d ≤ j → j < n → ValidSlab S j s m → Tiling S n d m e k →
      Tiling S n d s e (k + 1)

/-- least multiple of `T` that is ≥ `s` -/
def lo (T s : ℕ) : ℕ := ((s + T - 1) / T) * T
/-- greatest multiple of `T` that is ≤ `e` -/
def hi (T e : ℕ) : ℕ := (e / T) * T

def N (S : ℕ → ℕ) : ℕ → ℕ → ℕ → ℕ → ℕ
  | 0, _, _, _ => 0
  | fuel + 1, d, s, e =>
    if s = e then 0
    else if fuel = 0 then 1
    else if lo (S (d + 1)) s > hi (S (d + 1)) e then N S fuel (d + 1) s e
    else N S fuel (d + 1) s (lo (S (d + 1)) s)
          + (if lo (S (d + 1)) s < hi (S (d + 1)) e then 1 else 0)
          + N S fuel (d + 1) (hi (S (d + 1)) e) e

/-! ### arithmetic of `lo` / `hi` -/

theorem le_lo {T : ℕ} (hT : 0 < T) (s : ℕ) : s ≤ lo T s := by
  unfold lo
  have h := Nat.div_add_mod (s + T - 1) T
  have h2 := Nat.mod_lt (s + T - 1) hT
  have h3 : (s + T - 1) / T * T = T * ((s + T - 1) / T) := Nat.mul_comm _ _
  omega

theorem hi_le (T e : ℕ) : hi T e ≤ e := by
  unfold hi
  exact Nat.div_mul_le_self e T

theorem lo_le_of_dvd {T a s : ℕ} (hT : 0 < T) (hd : T ∣ a) (h : s ≤ a) : lo T s ≤ a := by
  obtain ⟨q, rfl⟩ := hd
  unfold lo
  have : (s + T - 1) / T ≤ q := by
    rw [Nat.div_le_iff_le_mul_add_pred hT]
    have : T * q = q * T := Nat.mul_comm _ _
    omega
  calc (s + T - 1) / T * T ≤ q * T := Nat.mul_le_mul_right _ this
    _ = T * q := Nat.mul_comm _ _

theorem le_hi_of_dvd {T b e : ℕ} (hT : 0 < T) (hd : T ∣ b) (h : b ≤ e) : b ≤ hi T e := by
  obtain ⟨q, rfl⟩ := hd
  unfold hi
  have : q ≤ e / T := by
    rw [Nat.le_div_iff_mul_le hT]
    have : T * q = q * T := Nat.mul_comm _ _
    omega
  calc T * q = q * T := Nat.mul_comm _ _
    _ ≤ e / T * T := Nat.mul_le_mul_right _ this

theorem dvd_lo (T s : ℕ) : T ∣ lo T s := ⟨_, Nat.mul_comm _ _⟩
theorem dvd_hi (T e : ℕ) : T ∣ hi T e := ⟨_, Nat.mul_comm _ _⟩

/-! ### strides -/

theorem Strides.dvd_of_le {S : ℕ → ℕ} (hS : Strides S) {i j : ℕ} (h : i ≤ j) : S j ∣ S i := by
  induction j with
  | zero =>
    have : i = 0 := by omega
    subst this
    exact dvd_refl _
  | succ j ih =>
    rcases Nat.lt_or_ge i (j + 1) with h1 | h1
    · exact dvd_trans (hS.dvd j) (ih (by omega))
    · have : i = j + 1 := by omega
      subst this
      exact dvd_refl _

/-- (b) a slab of a deeper level never straddles a multiple of `S (d+1)` -/
theorem no_straddle {S : ℕ → ℕ} (hS : Strides S) {d j a b M : ℕ} (hj : d + 1 ≤ j)
    (hv : ValidSlab S j a b) (hM : S (d + 1) ∣ M) : b ≤ M ∨ M ≤ a := by
  obtain ⟨_, _, _, c, hc1, hc2⟩ := hv
  obtain ⟨q, rfl⟩ := dvd_trans (hS.dvd_of_le hj) hM
  rcases Nat.lt_or_ge c q with h | h
  · left
    have : (c + 1) * S j ≤ q * S j := Nat.mul_le_mul_right _ h
    calc b ≤ (c + 1) * S j := hc2
      _ ≤ q * S j := this
      _ = S j * q := Nat.mul_comm _ _
  · right
    have : q * S j ≤ c * S j := Nat.mul_le_mul_right _ h
    calc S j * q = q * S j := Nat.mul_comm _ _
      _ ≤ c * S j := this
      _ ≤ a := hc1

/-- (a) a slab of level `d` inside `[s, e)` lies inside `[lo, hi)` -/
theorem level_d_in_centre {S : ℕ → ℕ} (hS : Strides S) {d a b s e : ℕ}
    (hv : ValidSlab S d a b) (hs : s ≤ a) (he : b ≤ e) :
    lo (S (d + 1)) s ≤ a ∧ b ≤ hi (S (d + 1)) e :=
  ⟨lo_le_of_dvd (hS.pos _) hv.2.1 hs, le_hi_of_dvd (hS.pos _) hv.2.2.1 he⟩

/-! ### tilings -/

theorem Tiling.le {S : ℕ → ℕ} {n d s e k : ℕ} (h : Tiling S n d s e k) : s ≤ e := by
  induction h with
  | nil s => exact le_refl _
  | cons j _ _ hv _ ih => exact le_trans (le_of_lt hv.1) ih

theorem Tiling.pos {S : ℕ → ℕ} {n d s e k : ℕ} (h : Tiling S n d s e k) (hse : s < e) : 1 ≤ k := by
  cases h with
  | nil => omega
  | cons j _ _ _ _ => omega

/-- cut a tiling at a point that no admissible slab inside `[s, e)` straddles -/
theorem Tiling.split {S : ℕ → ℕ} {n d s e k : ℕ} (h : Tiling S n d s e k) :
    ∀ M, s ≤ M → M ≤ e →
      (∀ j a b, d ≤ j → j < n → ValidSlab S j a b → s ≤ a → b ≤ e → b ≤ M ∨ M ≤ a) →
      ∃ k1 k2, Tiling S n d s M k1 ∧ Tiling S n d M e k2 ∧ k1 + k2 = k := by
  induction h with
  | nil s =>
    intro M h1 h2 _
    have : M = s := by omega
    subst this
    exact ⟨0, 0, Tiling.nil _, Tiling.nil _, rfl⟩
  | @cons s m e k j hdj hjn hv ht ih =>
    intro M h1 h2 H
    have hme := ht.le
    rcases H j s m hdj hjn hv (le_refl _) hme with hm | hm
    · -- the first slab ends before M: cut the rest
      obtain ⟨k1, k2, t1, t2, hk⟩ := ih M hm h2 (fun j' a b h1' h2' hv' ha hb =>
        H j' a b h1' h2' hv' (le_trans (le_of_lt hv.1) ha) hb)
      exact ⟨k1 + 1, k2, Tiling.cons j hdj hjn hv t1, t2, by omega⟩
    · -- M ≤ s, hence M = s
      have : M = s := by omega
      subst this
      exact ⟨0, k + 1, Tiling.nil _, Tiling.cons j hdj hjn hv ht, by omega⟩

/-- a tiling in whose range no level-`d` slab fits only uses deeper levels -/
theorem Tiling.deeper {S : ℕ → ℕ} {n d s e k : ℕ} (h : Tiling S n d s e k) :
    (∀ a b, ValidSlab S d a b → s ≤ a → b ≤ e → False) → Tiling S n (d + 1) s e k := by
  induction h with
  | nil s => intro _; exact Tiling.nil _
  | @cons s m e k j hdj hjn hv ht ih =>
    intro H
    have hme := ht.le
    have hjd : d + 1 ≤ j := by
      rcases Nat.lt_or_ge d j with h | h
      · omega
      · have : j = d := by omega
        subst this
        exact (H s m hv (le_refl _) hme).elim
    exact Tiling.cons j hjd hjn hv (ih (fun a b hv' ha hb => H a b hv' (le_trans (le_of_lt hv.1) ha) hb))

/-! ### the lower bound -/

theorem minimality {S : ℕ → ℕ} (hS : Strides S) :
    ∀ fuel d s e k, Tiling S (d + fuel) d s e k → N S fuel d s e ≤ k := by
  intro fuel
  induction fuel with
  | zero => intro d s e k _; simp [N]
  | succ fuel ih =>
    intro d s e k ht
    have hse := ht.le
    unfold N
    split_ifs with h1 h2 h3 h4
    · exact Nat.zero_le _
    · exact ht.pos (by omega)
    · -- L > R: no level-d slab fits, everything is deeper
      have hn : d + (fuel + 1) = (d + 1) + fuel := by omega
      have ht' := ht.deeper (fun a b hv ha hb => by
        have := level_d_in_centre hS hv ha hb
        have := hv.1
        omega)
      rw [hn] at ht'
      exact ih (d + 1) s e k ht'
    all_goals
      -- L ≤ R: cut at L and at R
      have hT := hS.pos (d + 1)
      have hLR : lo (S (d + 1)) s ≤ hi (S (d + 1)) e := by omega
      have hsL := le_lo hT s
      have hRe := hi_le (S (d + 1)) e
      have hn : d + (fuel + 1) = (d + 1) + fuel := by omega
      -- no admissible slab inside [s, e) straddles a multiple M of S (d+1) with L ≤ M ≤ R
      have key : ∀ M, S (d + 1) ∣ M → (M ≤ lo (S (d + 1)) s ∨ hi (S (d + 1)) e ≤ M) →
          ∀ j a b, d ≤ j → j < d + (fuel + 1) → ValidSlab S j a b → s ≤ a → b ≤ e → b ≤ M ∨ M ≤ a := by
        intro M hM hMedge j a b hdj _ hv ha hb
        rcases Nat.lt_or_ge d j with h | h
        · exact no_straddle hS (by omega) hv hM
        · have : j = d := by omega
          subst this
          have := level_d_in_centre hS hv ha hb
          omega
      obtain ⟨k1, k23, t1, t23, hk⟩ := ht.split (lo (S (d + 1)) s) hsL (by omega)
        (key _ (dvd_lo _ _) (Or.inl (le_refl _)))
      obtain ⟨k2, k3, t2, t3, hk'⟩ := t23.split (hi (S (d + 1)) e) hLR hRe
        (fun j a b h1' h2' hv ha hb => key _ (dvd_hi _ _) (Or.inr (le_refl _)) j a b h1' h2' hv (by omega) hb)
      have t1' := t1.deeper (fun a b hv ha hb => by
        have := level_d_in_centre hS hv ha (le_trans hb (by omega : lo (S (d + 1)) s ≤ e))
        have := hv.1
        omega)
      have t3' := t3.deeper (fun a b hv ha hb => by
        have := level_d_in_centre hS hv (le_trans hsL (le_trans hLR ha)) hb
        have := hv.1
        omega)
      rw [hn] at t1' t3'
      have b1 := ih (d + 1) _ _ _ t1'
      have b3 := ih (d + 1) _ _ _ t3'
      first
        | (have b2 := t2.pos (by assumption); omega)
        | omega

/-- The property's clause: every decomposition of `[s, e)` into valid slabs of ANY level `0 ≤ j < n` has at least
as many pieces as the recurrence started at dimension 0. -/
theorem minimality_top {S : ℕ → ℕ} (hS : Strides S) (n s e k : ℕ) (h : Tiling S n 0 s e k) :
    N S n 0 s e ≤ k := by
  have := minimality hS n 0 s e k (by simpa using h)
  exact this

end C15
