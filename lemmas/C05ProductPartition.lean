/-
C05 — "the product of per-dimension partitions is a partition of the index box" (the one-line textbook fact that lifts the
1-D chunking partition lemma, discharged by z3 for all n and split sizes, to `multi_dim_split`'s blocks).

For every dimension `i` let `P i` be a family of subsets of the index set `α i` such that every index lies in exactly one
member (a partition of dimension `i` into chunks).  Then every multi-index `x` lies in exactly one product box
`∏ i, B i` with `B i ∈ P i`: the boxes cover the index box and are pairwise disjoint.
-/
import Mathlib.Logic.ExistsUnique
import Mathlib.Data.Set.Basic
import Mathlib.Tactic.Choose

namespace C05

theorem product_of_partitions {ι : Type*} {α : ι → Type*} (P : ∀ i, Set (Set (α i)))
    (h : ∀ i (x : α i), ∃! B, B ∈ P i ∧ x ∈ B) (x : ∀ i, α i) :
    ∃! B : ∀ i, Set (α i), (∀ i, B i ∈ P i) ∧ ∀ i, x i ∈ B i := by
  choose B hB huniq using fun i => h i (x i)
  refine ⟨B, ⟨fun i => (hB i).1, fun i => (hB i).2⟩, ?_⟩
  intro B' hB'
  funext i
  exact huniq i (B' i) ⟨hB'.1 i, hB'.2 i⟩

/-- consequence: two different boxes of the product family are disjoint -/
theorem boxes_disjoint {ι : Type*} {α : ι → Type*} (P : ∀ i, Set (Set (α i)))
    (h : ∀ i (x : α i), ∃! B, B ∈ P i ∧ x ∈ B) (B B' : ∀ i, Set (α i))
    (hB : ∀ i, B i ∈ P i) (hB' : ∀ i, B' i ∈ P i) (x : ∀ i, α i)
    (hx : ∀ i, x i ∈ B i) (hx' : ∀ i, x i ∈ B' i) : B = B' := by
  obtain ⟨B0, _, hu⟩ := product_of_partitions P h x
  rw [hu B ⟨hB, hx⟩, hu B' ⟨hB', hx'⟩]

end C05
