"""Shared E2 harness for the group step: the REAL `DistributedShampoo._per_group_step_impl` (with its six helper
methods, the real `Distributor.update_params`, and the real Adagrad/SGD grafting list classes) is executed on
symbolic tensors; the Shampoo preconditioner list is a contract stub [P].

`spec_step` is the documented update rule, written once from the property statement / class docstring.  It is
written over tensor-like values with operators only, so the same text runs on SymTensor (symbolic) and on
torch.Tensor (native replay / bounded tier).
"""
from __future__ import annotations

import z3

from vlib.sym import Explorer, SymBool, SymInt, SymReal, as_real, assume, note, note_append, real_pow
from vlib.tensor import ARR, FakeTorch, SymTensor, lam, rebind

IDX = z3.Int("idx")


# ---------------------------------------------------------------------------------------------------------
# spec (documented algorithm).  `A` supplies ite/powr for the two value domains.


class SymAlg:
    @staticmethod
    def ite(c, a, b):
        if isinstance(c, bool):
            return a if c else b
        c = c.t
        if isinstance(a, SymTensor) or isinstance(b, SymTensor):
            fa = a.fn() if isinstance(a, SymTensor) else (lambda i, r=as_real(a).t: r)
            fb = b.fn() if isinstance(b, SymTensor) else (lambda i, r=as_real(b).t: r)
            sc = (not isinstance(a, SymTensor) or a.scalar) and (not isinstance(b, SymTensor) or b.scalar)
            like = a if isinstance(a, SymTensor) and not a.scalar else b
            if sc:
                return SymTensor(z3.If(c, fa(0), fb(0)), scalar=True)
            return SymTensor(lam(lambda i: z3.If(c, fa(i), fb(i))), dtype=like.dtype, shape=like._shape)
        return SymReal(z3.If(c, as_real(a).t, as_real(b).t))

    @staticmethod
    def powr(base, e):
        e = e.t if isinstance(e, (SymInt, SymReal)) else (z3.IntVal(e) if isinstance(e, int) else as_real(e).t)
        return SymReal(real_pow(as_real(base).t, e))

    @staticmethod
    def b_and(a, b):
        return (a & b) if not (isinstance(a, bool) and isinstance(b, bool)) else (a and b)

    @staticmethod
    def b_not(a):
        return (not a) if isinstance(a, bool) else ~a


class NatAlg:
    @staticmethod
    def ite(c, a, b):
        return a if c else b

    @staticmethod
    def powr(base, e):
        return base ** e

    @staticmethod
    def b_and(a, b):
        return bool(a) and bool(b)

    @staticmethod
    def b_not(a):
        return not a


def spec_step(A, h, s, psh):
    """One block, one step.  h: hyperparameters/flags (t = step number AFTER the increment); s: pre-state
    (w, g, F, M, V, bc2g_prev); psh: the Shampoo direction as a function of the filtered gradient (contract [P]).
    Returns the post-state and the search direction."""
    ite, powr, AND, NOT = A.ite, A.powr, A.b_and, A.b_not
    w, g = s["w"], s["g"]
    coupled = AND(h["wd"] != 0, NOT(h["decoupled"]))
    gt = ite(coupled, g + h["wd"] * w, g)  # L2 / coupled decay:  g~ = g + wd w
    out = {"gt": gt}
    # grafting accumulator  V <- beta2g V + (1-beta2g) g~^2   ( += for beta2g = 1 ), bias correction iff flag and beta2g<1
    if h["graft"] == "ada":
        V1 = ite(h["beta2g"] == 1, s["V"] + gt * gt, h["beta2g"] * s["V"] + (1 - h["beta2g"]) * gt * gt)
        bc2 = ite(AND(h["bias_g"], h["beta2g"] < 1), 1 - powr(h["beta2g"], h["t"]), s["bc2g_prev"])
        out["V"], out["bc2g"] = V1, bc2
    # gradient filtering:  g^ = (beta3 F + (1-beta3) g~) / bc1 ;  F <- beta1 F + (1-beta1) g~   (beta1 != 0)
    has_f = h["beta1"] != 0
    if s.get("F") is not None:
        F1 = ite(has_f, h["beta1"] * s["F"] + (1 - h["beta1"]) * gt, s["F"])
        bc1 = ite(h["bias"], 1 - h["beta3"] * powr(h["beta1"], h["t"] - 1), 1)
        ghat = ite(has_f, (h["beta3"] * s["F"] + (1 - h["beta3"]) * gt) / bc1, gt)
        out["F"] = F1
    else:
        ghat = gt
    out["ghat"] = ghat
    p_sh = psh(ghat)
    if h["graft"] is None:
        P = p_sh
    else:
        p_gr = ghat if h["graft"] == "sgd" else ghat / ((out["V"] / out["bc2g"]).sqrt() + h["eps_g"])
        scaled = p_sh * (p_gr.norm() / (p_sh.norm() + 1e-16))
        P = ite(h["use_graft"], p_gr, scaled)
    dec = AND(h["wd"] != 0, h["decoupled"])
    P = ite(dec, P + h["wd"] * w, P)  # decoupled decay
    has_m = h["mu"] != 0
    if s.get("M") is not None:
        M1 = ite(has_m, h["mu"] * s["M"] + (1 - h["damp"]) * P, s["M"])
        P = ite(has_m, ite(h["nesterov"], (1 - h["damp"]) * P + h["mu"] * M1, M1), P)
        out["M"] = M1
    out["dir"] = P
    out["w"] = w - h["lr"] * P
    return out


# ---------------------------------------------------------------------------------------------------------
# contract stub [P] for the Shampoo preconditioner list

PSH = [z3.Function(f"shampoo_direction_b{b}", ARR, ARR) for b in range(3)]


class ShampooListStub:
    """Contract [P] of ShampooPreconditionerList / EigenvalueCorrectedShampooPreconditionerList as seen by the
    group step: update_preconditioners reads the gradients (does not modify them); precondition returns, per
    block, the direction psh_b(state after the update, input) — fresh tensors, or (alias=True) the input objects
    themselves, which is what the real lists return for blocks without a preconditioned dimension."""

    def __init__(self, alias=False, blocks=(0, 1)):
        self.alias = alias
        self.blocks = blocks
        self.log = []

    def update_preconditioners(self, masked_grad_list, step, perform_amortized_computation):
        self.log.append(("update", [t.v for t in masked_grad_list], step, perform_amortized_computation,
                         [id(t) for t in masked_grad_list]))

    def precondition(self, masked_grad_list):
        self.log.append(("precondition", [t.v for t in masked_grad_list], None, None, None))
        if self.alias:
            return masked_grad_list
        return tuple(SymTensor(PSH[b](t.v), dtype=t.dtype, shape=t._shape) for b, t in zip(self.blocks, masked_grad_list))

    def compress_preconditioner_list(self, local_grad_selector):
        self.log.append(("compress", local_grad_selector, None, None, None))


def psh_spec(b, alias):
    if alias:
        return lambda ghat: ghat
    return lambda ghat: SymTensor(PSH[b](ghat.v), dtype=ghat.dtype, shape=ghat._shape)


# ---------------------------------------------------------------------------------------------------------


def modules():
    import distributed_shampoo.distributed_shampoo as ds
    import distributed_shampoo.utils.shampoo_preconditioner_list as pl
    import distributed_shampoo.utils.shampoo_distributor as dd
    return ds, pl, dd


def make_hyper(graft):
    h = dict(lr=SymReal("lr"), beta1=SymReal("beta1"), beta3=SymReal("beta3"), wd=SymReal("weight_decay"),
             mu=SymReal("momentum"), damp=SymReal("dampening"), decoupled=SymBool(z3.Bool("use_decoupled_weight_decay")),
             bias=SymBool(z3.Bool("use_bias_correction")), nesterov=SymBool(z3.Bool("use_nesterov")),
             use_graft=SymBool(z3.Bool("use_grafting_method")) if graft is not None else False,
             pac=SymBool(z3.Bool("perform_amortized_computation")), t=SymInt("step"), graft=graft)
    if graft == "ada":
        h.update(beta2g=SymReal("graft_beta2"), eps_g=SymReal("graft_epsilon"), bias_g=SymBool(z3.Bool("graft_bias_correction")))
    return h


def hyper_domain(h):
    """Constructor domain D (C17) for the group's hyperparameters + step counter >= 1."""
    c = [h["lr"].t >= 0, h["beta1"].t >= 0, h["beta1"].t < 1, h["beta3"].t >= 0, h["beta3"].t < 1, h["wd"].t >= 0,
         h["mu"].t >= 0, h["mu"].t < 1, h["damp"].t >= 0, h["damp"].t < 1, h["t"].t >= 1]
    if h["graft"] == "ada":
        c += [h["beta2g"].t > 0, h["beta2g"].t <= 1, h["eps_g"].t > 0]
    return c


def make_blocks(nb, with_F=True, with_M=True, graft=None, tag=""):
    import torch
    bl = []
    for b in range(nb):
        d = dict(w=SymTensor.array(f"w{tag}{b}", torch.float32), g=SymTensor.array(f"g{tag}{b}", torch.float32))
        d["F"] = SymTensor.array(f"F{tag}{b}", torch.float32) if with_F else None
        d["M"] = SymTensor.array(f"M{tag}{b}", torch.float32) if with_M else None
        d["V"] = SymTensor.array(f"V{tag}{b}", torch.float32) if graft == "ada" else None
        bl.append(d)
    return bl


def run_group_step(h, blocks, alias=False, graft_obj=None, fake=None, graft_log=None, graft_local=None):
    """Calls the real _per_group_step_impl.  Returns (stub, grafting list object)."""
    ds, pl, dd = modules()
    from distributed_shampoo import shampoo_types as st

    fake = fake or FakeTorch()
    opt = object.__new__(ds.DistributedShampoo)
    dist = object.__new__(dd.Distributor)
    params = tuple(b["w"] for b in blocks)
    dist._local_masked_blocked_params = params
    stub = ShampooListStub(alias=alias, blocks=tuple(range(len(blocks))))
    graft = None
    if h["graft"] == "sgd":
        graft = object.__new__(pl.SGDPreconditionerList)
    elif h["graft"] == "ada":
        graft = object.__new__(pl.AdagradPreconditionerList)
        graft._beta2, graft._epsilon, graft._use_bias_correction = h["beta2g"], h["eps_g"], h["bias_g"]
        graft._bias_correction2 = SymTensor.real_scalar(SymReal("bc2g_prev"))
        graft._masked_preconditioner_list = tuple(b["V"] for b in blocks)
        graft._local_preconditioner_list = tuple(graft_local) if graft_local is not None else graft._masked_preconditioner_list
        # object invariant of AdagradPreconditionerList: the correction stays 1.0 unless (flag and beta2 < 1)
        assume(z3.Implies(z3.Not(z3.And(h["bias_g"].t, h["beta2g"].t < 1)), z3.Real("bc2g_prev") == 1))
        assume(z3.Real("bc2g_prev") > 0)
    if graft is not None and graft_log is not None:
        real_precondition = graft.precondition

        def logged_precondition(masked_grad_list):
            r = real_precondition(masked_grad_list=masked_grad_list)
            graft_log.append([t.v for t in r])
            return r

        graft.precondition = logged_precondition
    state_lists = {
        st.DISTRIBUTOR: dist,
        st.MASKED_BLOCKED_GRADS: tuple(b["g"] for b in blocks),
        st.MASKED_BLOCKED_PARAMS: params,
        st.SHAMPOO_PRECONDITIONER_LIST: stub,
        st.GRAFTING_PRECONDITIONER_LIST: graft,
    }
    if blocks[0]["F"] is not None:
        state_lists[st.MASKED_FILTERED_GRAD_LIST] = tuple(b["F"] for b in blocks)
    if blocks[0]["M"] is not None:
        state_lists[st.MASKED_MOMENTUM_LIST] = tuple(b["M"] for b in blocks)
    step_t = SymTensor.int_scalar(h["t"])
    lr_t = SymTensor.real_scalar(h["lr"])
    with rebind([(ds, "torch", fake), (pl, "torch", fake), (dd, "torch", fake)]):
        opt._per_group_step_impl(
            state_lists, step_t, lr_t, h["beta1"], h["beta3"], h["wd"], h["mu"], h["damp"], h["graft"] is not None,
            h["pac"], h["decoupled"], h["bias"], h["use_graft"], h["nesterov"])
    return stub, graft, step_t


def spec_state(b, graft):
    s = dict(w=SymTensor.array(f"w{b}"), g=SymTensor.array(f"g{b}"), F=SymTensor.array(f"F{b}"), M=SymTensor.array(f"M{b}"))
    if graft == "ada":
        s["V"] = SymTensor.array(f"V{b}")
        s["bc2g_prev"] = SymReal("bc2g_prev")
    return s


# ---------------------------------------------------------------------------------------------------------
# native execution of the same harness (replay of counter-models, bounded tier): real torch, float64


class NativeShampooStub:
    """Concrete instance of contract [P]: the direction is a fixed function of the input (3x+1, per block 3x+1+b)."""

    def __init__(self, alias):
        self.alias = alias
        self.log = []

    @staticmethod
    def psh(b, x):
        return 3.0 * x + 1.0 + b

    def update_preconditioners(self, masked_grad_list, step, perform_amortized_computation):
        self.log.append(("update", [t.clone() for t in masked_grad_list]))

    def precondition(self, masked_grad_list):
        self.log.append(("precondition", [t.clone() for t in masked_grad_list]))
        if self.alias:
            return masked_grad_list
        return tuple(self.psh(b, t) for b, t in enumerate(masked_grad_list))

    def compress_preconditioner_list(self, local_grad_selector):
        pass


def native_group_step(hv, blocks_v, graft, alias):
    """hv: concrete hyperparameters (python floats/bools/ints); blocks_v: list of dicts of python floats
    (w, g, F, M, V).  Runs the real _per_group_step_impl on 1-element float64 tensors and the spec on the same
    values; returns list of (label, block, got, want)."""
    import torch
    ds, pl, dd = modules()
    from distributed_shampoo import shampoo_types as st

    T = lambda x: torch.tensor([float(x)], dtype=torch.float64)
    blocks = [{k: (T(v) if v is not None else None) for k, v in b.items()} for b in blocks_v]
    pre = [{k: (v.clone() if v is not None else None) for k, v in b.items()} for b in blocks]
    opt = object.__new__(ds.DistributedShampoo)
    dist = object.__new__(dd.Distributor)
    dist._local_masked_blocked_params = tuple(b["w"] for b in blocks)
    stub = NativeShampooStub(alias)
    gobj = None
    if graft == "sgd":
        gobj = object.__new__(pl.SGDPreconditionerList)
    elif graft == "ada":
        gobj = object.__new__(pl.AdagradPreconditionerList)
        gobj._beta2, gobj._epsilon, gobj._use_bias_correction = hv["beta2g"], hv["eps_g"], hv["bias_g"]
        gobj._bias_correction2 = torch.tensor(float(hv["bc2g_prev"]), dtype=torch.float64)
        gobj._masked_preconditioner_list = tuple(b["V"] for b in blocks)
    sl = {st.DISTRIBUTOR: dist, st.MASKED_BLOCKED_GRADS: tuple(b["g"] for b in blocks),
          st.MASKED_BLOCKED_PARAMS: tuple(b["w"] for b in blocks), st.SHAMPOO_PRECONDITIONER_LIST: stub,
          st.GRAFTING_PRECONDITIONER_LIST: gobj}
    if blocks[0].get("F") is not None:
        sl[st.MASKED_FILTERED_GRAD_LIST] = tuple(b["F"] for b in blocks)
    if blocks[0].get("M") is not None:
        sl[st.MASKED_MOMENTUM_LIST] = tuple(b["M"] for b in blocks)
    step_t = torch.tensor(int(hv["t"]), dtype=torch.int64)
    lr_t = torch.tensor(float(hv["lr"]), dtype=torch.float64)
    opt._per_group_step_impl(sl, step_t, lr_t, hv["beta1"], hv["beta3"], hv["wd"], hv["mu"], hv["damp"], graft is not None,
                             hv["pac"], hv["decoupled"], hv["bias"], hv["use_graft"], hv["nesterov"])
    out = []
    h = dict(hv, graft=graft)
    for b, (post, p0) in enumerate(zip(blocks, pre)):
        s = dict(p0)
        if graft == "ada":
            s["bc2g_prev"] = float(hv["bc2g_prev"])
        sp = spec_step(NatAlg, h, s, (lambda x: x) if alias else (lambda x, b=b: NativeShampooStub.psh(b, x)))
        for nm in ("w", "F", "M", "V"):
            if post.get(nm) is not None and nm in sp:
                out.append((nm, b, float(post[nm]), float(sp[nm])))
    return out


def native_mismatches(rows, rtol=1e-9):
    bad = []
    for nm, b, got, want in rows:
        if not (abs(got - want) <= rtol * max(1.0, abs(got), abs(want))):
            bad.append(f"{nm}[block {b}]: real code {got!r} vs documented rule {want!r}")
    return bad
