"""C18 — a PT2-compiled step computes the same update as the eager step.   (level: exploration — bounded stand-in ONLY)

The compiled callable is produced by Dynamo/AOT at run time: it is not source text, so no proof obligation can be generated
from /repo for it, and Dynamo's own correctness is an external assumption.  What this check does is evaluate the SAME step
contract as C01 at run time on `self._per_group_step` built with the `eager` and `aot_eager` backends (static and dynamic shape
modes): after every step the compiled optimizer's parameters and checkpointable state must equal (a) the uncompiled
optimizer's, bitwise, and (b) the float64 reference interpreter of the documented algorithm (the C01 contract), across the
warm-up switch, refresh steps and gradient-presence changes that force recompilation.  Nothing here is counted as proved.
"""
from __future__ import annotations

import random

PROP = "C18"
LEVEL = "exploration"
FUNCS = [
    ("distributed_shampoo/distributed_shampoo.py", "DistributedShampoo._instantiate_per_group_step"),
    ("distributed_shampoo/distributed_shampoo.py", "DistributedShampoo._per_group_step_impl"),
    ("distributed_shampoo/distributed_shampoo.py", "DistributedShampoo._precondition_and_grafting"),
    ("distributed_shampoo/utils/shampoo_preconditioner_list.py", "ShampooPreconditionerList._amortized_computation"),
]
TRUSTED = ["Dynamo / AOTAutograd (external); only the eager and aot_eager backends (numerics-preserving) are exercised; inductor is out of scope"]
ASSUMPTIONS = ["bounded: seeded configurations covering every branch of the group step, 6 steps, both backends, static and dynamic shape modes"]
EXPLANATION = "run-time evaluation of the C01 step contract on the compiled callable (bounded stand-in, no obligations)"


def cases(tier):
    return []


def run_case(case, tier, seed):
    return []


def _configs(tier, seed):
    from checks import e2e
    rng = random.Random(seed)
    base = []
    # hand-picked branch cover: weight-decay modes, filtering, grafting kinds, momentum/Nesterov, Shampoo/SOAP
    grid = [
        dict(graft=None, beta1=0.0, momentum=0.0, wd=0.0, decoupled=True, soap=False),
        dict(graft="adam", beta1=0.9, momentum=0.5, wd=0.1, decoupled=True, nesterov=True, soap=False),
        dict(graft="sgd", beta1=0.9, momentum=0.9, wd=0.1, decoupled=False, nesterov=False, bias=False, soap=False),
        dict(graft="rmsprop", beta1=0.5, momentum=0.0, wd=0.0, decoupled=True, soap=True),
        dict(graft="adagrad", beta1=0.0, momentum=0.5, wd=0.1, decoupled=False, nesterov=True, soap=True),
        dict(graft=None, beta1=0.9, momentum=0.0, wd=0.1, decoupled=True, soap=True),
    ]
    for g in grid:
        cfg = e2e.make_config(random.Random(rng.random()))
        cfg.update(g)
        cfg.update(freq=2, start=3, override=0, ignored=[], maxdim=3, merge=True)
        cfg["beta3"] = -1.0 if not cfg["beta1"] else rng.choice([-1.0, cfg["beta1"] * 0.5])
        base.append(cfg)
    if tier != "quick":
        for k in range(18):
            cfg = e2e.make_config(random.Random(f"{seed}/{k}"))
            cfg["soap"] = k % 3 == 0
            if cfg["soap"]:
                cfg["override"] = 0
            base.append(cfg)
    return base


def native_compiled(cfg, backend, dynamic, seed, steps=6):
    import torch
    from checks import e2e
    from distributed_shampoo import shampoo_types as st
    soap = cfg.get("soap", False)
    shapes = [(4, 3), (5,), (2, 2, 2)]
    rng = random.Random(seed)
    hist = [[True, True, True], [True, True, True], [True, False, True], [True, True, True], [False, True, True], [True, True, True]][:steps]
    gp = torch.Generator().manual_seed(seed)
    init = [torch.randn(s, generator=gp, dtype=torch.float64) for s in shapes]
    gg = torch.Generator().manual_seed(seed + 1)
    grads = [[torch.randn(s, generator=gg, dtype=torch.float64) for s in shapes] for _ in range(steps)]
    runs = {}
    for name, pt2 in (("eager", None), ("compiled", st.ShampooPT2CompileConfig(pytorch_compile_backend=backend, enable_shampoo_pt2_dynamic_shape=dynamic))):
        params = [torch.nn.Parameter(x.clone()) for x in init]
        torch._dynamo.reset()
        opt = e2e.build(cfg, params, pt2=pt2, soap=soap)
        traj = []
        for t in range(steps):
            for p, g, pr in zip(params, grads[t], hist[t]):
                p.grad = g.clone() if pr else None
            opt.step()
            from checks.c04 import _state_snapshot
            traj.append(([p.detach().clone() for p in params], [_state_snapshot(opt, p) for p in params]))
        runs[name] = traj
    for t in range(steps):
        for j in range(len(shapes)):
            a, b = runs["eager"][t][0][j], runs["compiled"][t][0][j]
            if not torch.equal(a, b):
                return f"step {t + 1}: parameter {j} of the compiled optimizer differs from the eager optimizer (max {float((a - b).abs().max()):.3e})"
            sa, sb = runs["eager"][t][1][j], runs["compiled"][t][1][j]
            if sa.keys() != sb.keys() or any(not torch.equal(sa[k], sb[k]) for k in sa):
                return f"step {t + 1}: optimizer state of parameter {j} differs between compiled and eager"
    return None


def bounded(tier, seed):
    evals, viol, distinct, samples = 0, [], set(), []
    modes = [("aot_eager", False), ("eager", False)] if tier == "quick" else [("aot_eager", False), ("aot_eager", True), ("eager", False), ("eager", True)]
    cfgs = _configs(tier, seed)
    if tier == "quick":
        cfgs = cfgs[:6]
    for ci, cfg in enumerate(cfgs):
        for backend, dyn in (modes if tier != "quick" else [modes[ci % 2]]):
            try:
                bad = native_compiled(cfg, backend, dyn, seed * 100 + ci)
            except BaseException as e:  # noqa
                bad = f"raised {type(e).__name__}: {str(e)[:300]}"
            evals += 1
            distinct.add((ci, backend, dyn))
            if len(samples) < 2:
                samples.append(dict(config={k: str(v) for k, v in cfg.items()}, backend=backend, dynamic=dyn))
            if bad and len(viol) < 5:
                viol.append(dict(ob=f"bounded/compiled=eager[cfg{ci},{backend},dynamic={dyn}]", func="DistributedShampoo._per_group_step", input=dict(config={k: str(v) for k, v in cfg.items()}, backend=backend, dynamic=dyn),
                                 text=bad, detail=bad, replay=dict(kind="compiled", ci=ci, backend=backend, dyn=dyn, seed=seed, tier=tier)))
    # the eager optimizer itself satisfies the C01 contract on the same configurations (reference interpreter), so compiled == eager
    # implies compiled satisfies the contract
    from checks import e2e
    for ci, cfg in enumerate(cfgs):
        if cfg.get("soap"):
            continue
        shapes = [(4, 3), (5,), (2, 2, 2)]
        hist = [[True, True, True], [True, False, True], [True, True, True], [False, True, True]]
        try:
            bad = e2e.run_history(cfg, shapes, hist, seed * 100 + ci)
        except BaseException as e:  # noqa
            bad = f"raised {type(e).__name__}: {str(e)[:200]}"
        evals += 1
        distinct.add((ci, "reference"))
        if bad and len(viol) < 5:
            viol.append(dict(ob=f"bounded/eager=documented-rule[cfg{ci}]", func="DistributedShampoo.step", input=dict(config={k: str(v) for k, v in cfg.items()}), text=bad, detail=bad, replay=None))
    return dict(evaluations=evals, distinct_nontrivial=len(distinct),
                rule="configurations covering every branch of the group step (decay modes, filtering, grafting kinds, momentum/Nesterov, Shampoo/SOAP) x {eager, aot_eager} x {static, dynamic}; 6 steps across the warm-up switch, refresh steps and gradient-presence changes; compiled vs eager bitwise on parameters and state, eager vs the float64 reference of the documented rule; distinct = distinct (configuration, backend, mode)",
                samples=samples, bound=f"{len(cfgs)} configurations, 6 steps", violations=viol)


def replay(r):
    return replay_file(dict(replay_input=r.get("replay"), verifier_output=dict(model=r.get("model"))))


def replay_file(doc):
    rp = doc.get("replay_input") or {}
    if rp.get("kind") == "compiled":
        cfg = _configs(rp.get("tier", "quick"), rp["seed"])[rp["ci"]]
        bad = native_compiled(cfg, rp["backend"], rp["dyn"], rp["seed"] * 100 + rp["ci"])
        return bool(bad), f"{rp}: {bad}"
    return False, "no native replayer"
