"""C18 — a PT2-compiled step computes the same update as the eager step.   (level: other)

The compiled callable is produced by Dynamo/AOT at run time: it is not source text, so no obligation can be generated from /repo
for the artefact itself, and Dynamo's correctness is an external (trusted) contract:

    [D]  torch.compile(f, backend preserving eager numerics) is extensionally the Python function f, executed with the
         "am I being traced" predicates (torch.compiler.is_compiling & co.) answering True, except inside callees decorated
         with torch.compiler.disable, which run eagerly (predicates answer False); guards and recompilation are correct.

Under [D] the property reduces to obligations on the REAL code, which this check discharges deductively (engine E2):

  * wiring  — `_instantiate_per_group_step` hands exactly the bound `self._per_group_step_impl` to `torch.compile` with the user's
              backend, and installs either that result or the uncompiled bound method;
  * mode-independence — the traced region (`_per_group_step_impl` and everything it calls that is not compiler-disabled:
              the six helpers, `update_preconditioners` of both Shampoo list classes, the grafting lists, `update_params`)
              satisfies the SAME functional contract (C01 / C03 post-state = documented recurrence, observed where a step ends)
              whether the predicates answer True or False: they are answered by ONE symbolic boolean per run, so a path that asks
              forks and every obligation is discharged for both answers.  Code that never asks (the unchanged tree) generates
              exactly the C01/C03 obligations.
  Equality with one mode-independent specification in both modes gives compiled == eager for parameters and state.

Bounded stand-in (labelled, never counted as proved): the real compiled optimizer (`eager`, `aot_eager` backends; static and
dynamic shapes) vs the uncompiled optimizer, bitwise, and vs the float64 reference interpreter, across the warm-up switch, refresh
steps and gradient-presence changes that force recompilation.
"""
from __future__ import annotations

import random

PROP = "C18"
LEVEL = "other"
FUNCS = [
    ("distributed_shampoo/distributed_shampoo.py", "DistributedShampoo._instantiate_per_group_step"),
    ("distributed_shampoo/distributed_shampoo.py", "DistributedShampoo._per_group_step_impl"),
    ("distributed_shampoo/distributed_shampoo.py", "DistributedShampoo._add_l2_regularization"),
    ("distributed_shampoo/distributed_shampoo.py", "DistributedShampoo._update_preconditioners"),
    ("distributed_shampoo/distributed_shampoo.py", "DistributedShampoo._compute_filtered_grad_list"),
    ("distributed_shampoo/distributed_shampoo.py", "DistributedShampoo._precondition_and_grafting"),
    ("distributed_shampoo/distributed_shampoo.py", "DistributedShampoo._apply_decoupled_weight_decay"),
    ("distributed_shampoo/distributed_shampoo.py", "DistributedShampoo._update_momentum"),
    ("distributed_shampoo/utils/shampoo_preconditioner_list.py", "BaseShampooPreconditionerList.update_preconditioners"),
    ("distributed_shampoo/utils/shampoo_preconditioner_list.py", "EigenvalueCorrectedShampooPreconditionerList.update_preconditioners"),
    ("distributed_shampoo/utils/shampoo_preconditioner_list.py", "ShampooPreconditionerList._amortized_computation"),
    ("distributed_shampoo/utils/shampoo_preconditioner_list.py", "EigenvalueCorrectedShampooPreconditionerList._amortized_computation"),
    ("distributed_shampoo/utils/shampoo_preconditioner_list.py", "ShampooPreconditionerList.precondition"),
    ("distributed_shampoo/utils/shampoo_preconditioner_list.py", "EigenvalueCorrectedShampooPreconditionerList.precondition"),
    ("distributed_shampoo/utils/shampoo_distributor.py", "Distributor.update_params"),
    ("distributed_shampoo/utils/shampoo_ddp_distributor.py", "DDPDistributor.update_params"),
]
TRUSTED = [
    "[D] Dynamo / AOTAutograd (external): the compiled callable is the traced Python function with is_compiling() == True outside torch.compiler.disable'd callees; guards / recompilation correct; only numerics-preserving backends (eager, aot_eager) are in the property's premise — inductor is out of scope",
    "the trusted base of C01 / C03 (real arithmetic, torch-op contracts, generic blocks) carries over to the mode-independence obligations",
]
ASSUMPTIONS = ["bounded tier: seeded configurations covering every branch of the group step, 6 steps, both backends, static and dynamic shape modes"]
EXPLANATION = "under the Dynamo contract [D]: wiring of torch.compile + the C01/C03 step contracts discharged with the tracing predicate symbolic (both answers); the compiled artefact itself is compared with eager at run time (bounded)"

_EAGER = {}


def precondition_runs_eagerly():
    """True iff, on the current source, every `.precondition(` call of DistributedShampoo sits inside `_precondition_and_grafting`
    and that method is (still) torch.compiler.disable'd — then the list classes' precondition() never runs under tracing."""
    if "v" in _EAGER:
        return _EAGER["v"]
    import ast
    import distributed_shampoo.distributed_shampoo as ds
    ok = bool(getattr(ds.DistributedShampoo._precondition_and_grafting, "_torchdynamo_disable", False))
    tree = ast.parse(open(ds.__file__).read())
    for cls in tree.body:
        if isinstance(cls, ast.ClassDef) and cls.name == "DistributedShampoo":
            for fn in cls.body:
                if isinstance(fn, ast.FunctionDef) and fn.name != "_precondition_and_grafting":
                    for node in ast.walk(fn):
                        if isinstance(node, ast.Call) and isinstance(node.func, ast.Attribute) and node.func.attr == "precondition":
                            ok = False
    _EAGER["v"] = ok
    return ok


def cases(tier):
    from checks import c01, plist
    cs = ["wiring/compile"]
    cs += ["mode/" + c for c in c01.cases(tier) if c.startswith("group_step/")]
    pl = plist.shampoo_cases(tier) + plist.eig_cases(tier)
    if tier == "quick":
        pl = [c for c in pl if c.split("/")[2] in ("o0", "o1", "o2")]
    cs += ["mode/" + c for c in pl]
    # update_params of the DDP distributor is traced as well (only the all-gather itself is compiler-disabled): its contract, with the tracing
    # predicate symbolic, for every presence pattern and both communicate_params modes
    from checks import dist as D
    cs += ["mode/" + c for c in D.update_params_cases("ddp") if "/f32/" in c]
    return cs


def _wiring_case(case):
    import distributed_shampoo.distributed_shampoo as ds
    from distributed_shampoo import shampoo_types as st
    from vlib.driver import result
    from vlib.tensor import FakeTorch, rebind
    func = "DistributedShampoo._instantiate_per_group_step"
    out = []
    impl = ds.DistributedShampoo._per_group_step_impl
    for label, cfg in (("none", None), ("aot_eager", st.ShampooPT2CompileConfig(pytorch_compile_backend="aot_eager", enable_shampoo_pt2_dynamic_shape=False)),
                       ("eager-dynamic", st.ShampooPT2CompileConfig(pytorch_compile_backend="eager", enable_shampoo_pt2_dynamic_shape=True)),
                       ("opaque-backend", st.ShampooPT2CompileConfig(pytorch_compile_backend="<any backend string>", enable_shampoo_pt2_dynamic_shape=None))):
        calls = []

        class FT(FakeTorch):
            def compile(self, model=None, **kw):
                calls.append((model, kw))
                return ("compiled", len(calls))

        opt = object.__new__(ds.DistributedShampoo)
        ft = FT()
        try:
            with rebind([(ds, "torch", ft)]):
                opt._instantiate_per_group_step(cfg)
        except BaseException as e:  # noqa
            out.append(result(f"{func}/no-exception[{label}]", func, "unknown" if type(e).__name__ == "ShadowAbort" else "violated", text=f"{type(e).__name__}: {e}", case=case))
            continue
        got = getattr(opt, "_per_group_step", None)

        def rp(f):
            return f"bound {getattr(getattr(f, '__func__', None), '__qualname__', '?')}" if hasattr(f, "__self__") else repr(f)

        def is_impl(f):
            return getattr(f, "__self__", None) is opt and getattr(f, "__func__", None) is impl

        if cfg is None:
            ok = is_impl(got) and not calls
            out.append(result(f"{func}/uncompiled-step-is-the-implementation[{label}]", func, "discharged" if ok else "violated", backend="structure", case=case,
                              text="without a PT2 config the per-group step IS the bound _per_group_step_impl and torch.compile is not called",
                              replay=dict(kind="compiled-grid"), model=dict(installed=rp(got), compile_calls=len(calls))))
        else:
            ok = len(calls) == 1 and is_impl(calls[0][0]) and calls[0][1].get("backend") == cfg.pytorch_compile_backend and got == ("compiled", 1)
            out.append(result(f"{func}/compiles-the-implementation-with-the-configured-backend[{label}]", func, "discharged" if ok else "violated", backend="structure", case=case,
                              text="torch.compile is called once, on the bound _per_group_step_impl of this optimizer, with the user's backend; its result is installed as the per-group step",
                              replay=dict(kind="compiled-grid"), model=dict(installed=rp(got), compile_calls=[(rp(f), {k: repr(v) for k, v in kw.items()}) for f, kw in calls])))
    out.append(result(f"{func}/cover:precondition-region[{case}]", func, "violated", kind="cover", case=case,
                      text=f"precondition() runs eagerly (inside the compiler-disabled _precondition_and_grafting): {precondition_runs_eagerly()}"))
    return out


def run_case(case, tier, seed):
    from vlib.tensor import compile_mode
    if case == "wiring/compile":
        return _wiring_case(case)
    sub = case[len("mode/"):]
    if sub.startswith("update/"):
        from checks import dist as D
        with compile_mode("sym"):
            res = D.run_update_params(sub)
    elif sub.startswith("group_step/"):
        from checks import c01
        with compile_mode("sym"):
            res = c01._group_step_case(sub, tier)
    else:
        from checks import plist
        res = plist.run_list_case(sub, tier, PROP)
    for r in res:
        if isinstance(r.get("replay"), dict) or r.get("replay") is None:
            r["replay"] = dict(kind="compiled-grid", soap=sub.startswith("plist/eig"))
    return res


def _configs(tier, seed):
    from checks import e2e
    rng = random.Random(seed)
    base = []
    # hand-picked branch cover: weight-decay modes, filtering, grafting kinds, momentum/Nesterov, Shampoo/SOAP
    grid = [
        dict(graft=None, beta1=0.0, momentum=0.0, wd=0.0, decoupled=True, soap=False),
        dict(graft="adam", beta1=0.9, momentum=0.7, dampening=0.3, wd=0.1, decoupled=True, nesterov=True, soap=False),
        dict(graft="sgd", beta1=0.9, momentum=0.9, wd=0.1, decoupled=False, nesterov=False, bias=False, soap=False),
        dict(graft="rmsprop", beta1=0.5, momentum=0.0, wd=0.0, decoupled=True, soap=True),
        dict(graft="adagrad", beta1=0.0, momentum=0.6, dampening=0.3, wd=0.1, decoupled=False, nesterov=True, soap=True),
        dict(graft=None, beta1=0.9, momentum=0.0, wd=0.1, decoupled=True, soap=True),
    ]
    for g in grid:
        cfg = e2e.make_config(random.Random(rng.random()))
        cfg.update(g)
        # scalars that are NOT powers of two, so that a re-association / fusion of a multiply-add by the compiler changes the rounding
        cfg.update(freq=2, start=3, override=0, ignored=[], maxdim=3, merge=True, lr=0.03)
        cfg["beta3"] = -1.0 if not cfg["beta1"] else rng.choice([-1.0, cfg["beta1"] * 0.5])
        base.append(cfg)
    if tier != "quick":
        for k in range(18):
            cfg = e2e.make_config(random.Random(f"{seed}/{k}"))
            cfg["soap"] = k % 3 == 0
            if cfg["soap"]:
                cfg["override"] = 0
            base.append(cfg)
    return base


def native_compiled(cfg, backend, dynamic, seed, steps=6, ddp=None):
    import torch
    from checks import e2e
    from distributed_shampoo import shampoo_types as st
    soap = cfg.get("soap", False)
    shapes = [(4, 3), (5,), (2, 2, 2)]
    rng = random.Random(seed)
    hist = [[True, True, True], [True, True, True], [True, False, True], [True, True, True], [False, True, True], [True, True, True]][:steps]
    gp = torch.Generator().manual_seed(seed)
    init = [torch.randn(s, generator=gp, dtype=torch.float64) for s in shapes]
    gg = torch.Generator().manual_seed(seed + 1)
    grads = [[torch.randn(s, generator=gg, dtype=torch.float64) for s in shapes] for _ in range(steps)]
    runs = {}
    for name, pt2 in (("eager", None), ("compiled", st.ShampooPT2CompileConfig(pytorch_compile_backend=backend, enable_shampoo_pt2_dynamic_shape=dynamic))):
        params = [torch.nn.Parameter(x.clone()) for x in init]
        torch._dynamo.reset()
        dist_cfg = None
        if ddp is not None:
            # the real DDP distributor on a single-process gloo group of world size 1 (its update_params is traced, only the all-gather is not)
            import torch.distributed as dist
            if not dist.is_initialized():
                dist.init_process_group("gloo", store=dist.HashStore(), rank=0, world_size=1)
            dist_cfg = st.DDPShampooConfig(communicate_params=bool(ddp.get("communicate_params")))
        opt = e2e.build(cfg, params, pt2=pt2, soap=soap, dist_cfg=dist_cfg)
        traj = []
        for t in range(steps):
            for p, g, pr in zip(params, grads[t], hist[t]):
                p.grad = g.clone() if pr else None
            opt.step()
            from checks.c04 import _state_snapshot
            traj.append(([p.detach().clone() for p in params], [_state_snapshot(opt, p) for p in params]))
        runs[name] = traj
    for t in range(steps):
        for j in range(len(shapes)):
            a, b = runs["eager"][t][0][j], runs["compiled"][t][0][j]
            if not torch.equal(a, b):
                return f"step {t + 1}: parameter {j} of the compiled optimizer differs from the eager optimizer (max {float((a - b).abs().max()):.3e})"
            sa, sb = runs["eager"][t][1][j], runs["compiled"][t][1][j]
            if sa.keys() != sb.keys() or any(not torch.equal(sa[k], sb[k]) for k in sa):
                return f"step {t + 1}: optimizer state of parameter {j} differs between compiled and eager"
    return None


def bounded(tier, seed):
    evals, viol, distinct, samples = 0, [], set(), []
    modes = [("aot_eager", False), ("eager", False)] if tier == "quick" else [("aot_eager", False), ("aot_eager", True), ("eager", False), ("eager", True)]
    cfgs = _configs(tier, seed)
    if tier == "quick":
        cfgs = cfgs[:6]
    for ci, cfg in enumerate(cfgs):
        for backend, dyn in (modes if tier != "quick" else [modes[ci % 2]]):
            try:
                bad = native_compiled(cfg, backend, dyn, seed * 100 + ci)
            except BaseException as e:  # noqa
                bad = f"raised {type(e).__name__}: {str(e)[:300]}"
            evals += 1
            distinct.add((ci, backend, dyn))
            if len(samples) < 2:
                samples.append(dict(config={k: str(v) for k, v in cfg.items()}, backend=backend, dynamic=dyn))
            if bad and len(viol) < 5:
                viol.append(dict(ob=f"bounded/compiled=eager[cfg{ci},{backend},dynamic={dyn}]", func="DistributedShampoo._per_group_step", input=dict(config={k: str(v) for k, v in cfg.items()}, backend=backend, dynamic=dyn),
                                 text=bad, detail=bad, replay=dict(kind="compiled", ci=ci, backend=backend, dyn=dyn, seed=seed, tier=tier)))
    for cp in (False, True):
        try:
            bad = native_compiled(cfgs[1], "aot_eager" if cp else "eager", False, seed * 100 + 50 + int(cp), ddp=dict(communicate_params=cp))
        except BaseException as e:  # noqa
            bad = f"raised {type(e).__name__}: {str(e)[:300]}"
        evals += 1
        distinct.add(("ddp", cp))
        if bad and len(viol) < 5:
            viol.append(dict(ob=f"bounded/compiled=eager[ddp,communicate_params={cp}]", func="DDPDistributor.update_params", input=dict(distributor="DDP (world size 1)", communicate_params=cp),
                             text=bad, detail=bad, replay=dict(kind="compiled-ddp", cp=cp, seed=seed)))
    # the eager optimizer itself satisfies the C01 contract on the same configurations (reference interpreter), so compiled == eager
    # implies compiled satisfies the contract
    from checks import e2e
    for ci, cfg in enumerate(cfgs):
        if cfg.get("soap"):
            continue
        shapes = [(4, 3), (5,), (2, 2, 2)]
        hist = [[True, True, True], [True, False, True], [True, True, True], [False, True, True]]
        try:
            bad = e2e.run_history(cfg, shapes, hist, seed * 100 + ci)
        except BaseException as e:  # noqa
            bad = f"raised {type(e).__name__}: {str(e)[:200]}"
        evals += 1
        distinct.add((ci, "reference"))
        if bad and len(viol) < 5:
            viol.append(dict(ob=f"bounded/eager=documented-rule[cfg{ci}]", func="DistributedShampoo.step", input=dict(config={k: str(v) for k, v in cfg.items()}), text=bad, detail=bad, replay=None))
    return dict(evaluations=evals, distinct_nontrivial=len(distinct),
                rule="configurations covering every branch of the group step (decay modes, filtering, grafting kinds, momentum/Nesterov, Shampoo/SOAP) x {eager, aot_eager} x {static, dynamic}; 6 steps across the warm-up switch, refresh steps and gradient-presence changes; compiled vs eager bitwise on parameters and state, eager vs the float64 reference of the documented rule; distinct = distinct (configuration, backend, mode)",
                samples=samples, bound=f"{len(cfgs)} configurations, 6 steps", violations=viol)


def replay(r):
    return replay_file(dict(replay_input=r.get("replay"), verifier_output=dict(model=r.get("model"))))


def replay_file(doc):
    rp = doc.get("replay_input") or {}
    if rp.get("kind") == "compiled-grid":
        # a failed mode-independence / wiring obligation: run the real compiled optimizer against the eager one on the branch-cover grid
        if "grid" in _EAGER:
            return _EAGER["grid"]
        bads = []
        for ci, cfg in enumerate(_configs("quick", 1)[:6]):
            try:
                bad = native_compiled(cfg, "aot_eager", False, 100 + ci)
            except BaseException as e:  # noqa
                bad = f"raised {type(e).__name__}: {str(e)[:300]}"
            if bad:
                bads.append(f"cfg{ci} {dict((k, str(v)) for k, v in cfg.items())}: {bad}")
        _EAGER["grid"] = (bool(bads), "; ".join(bads[:2]) or "compiled (aot_eager) == eager bitwise on the six branch-cover configurations")
        return _EAGER["grid"]
    if rp.get("kind") in ("compiled-ddp", "ddp_native"):
        bads = []
        for cp in (False, True):
            try:
                bad = native_compiled(_configs("quick", rp.get("seed", 1))[1], "aot_eager" if cp else "eager", False, rp.get("seed", 1) * 100 + 50 + int(cp), ddp=dict(communicate_params=cp))
            except BaseException as e:  # noqa
                bad = f"raised {type(e).__name__}: {str(e)[:300]}"
            if bad:
                bads.append(f"communicate_params={cp}: {bad}")
        return bool(bads), "; ".join(bads) or "compiled == eager bitwise through the DDP distributor (world size 1)"
    if rp.get("kind") == "compiled":
        cfg = _configs(rp.get("tier", "quick"), rp["seed"])[rp["ci"]]
        bad = native_compiled(cfg, rp["backend"], rp["dyn"], rp["seed"] * 100 + rp["ci"])
        return bool(bad), f"{rp}: {bad}"
    return False, "no native replayer"
