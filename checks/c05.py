"""C05 — blocks tile each parameter exactly; blocking does not change the math.

Engine E2 (the real functions executed on symbolic extents):
  * `merge_small_dims(shape, threshold)`, orders 0..4 (complete for the property's domain), all extents >= 1 and the
    threshold symbolic: the result is the sequence of products of consecutive runs of the non-1 dims (or (1,)), the
    element count is preserved, a run longer than one dim has product <= threshold.  (Greedy maximality: auxiliary.)
  * `multi_dim_split(t, s)` with the `torch.split` VIEW contract as a stub: symbolic extents and split size, the number
    of chunks per dim enumerated in {1,2,3}: pieces are exactly prod_d [k_d s, min((k_d+1) s, n_d)) for all multi-indices
    in row-major order, each a view of t's storage, every extent in 1..s.  The general 1-D chunking partition lemma
    (every index of [0,n) lies in exactly chunk i div s) is discharged for all n, s in LIA.
  * `DistributorInterface._merge_and_block_parameters` / `_merge_and_block_gradients` + `Distributor.update_params`
    on view proxies: view(merged) legal, blocks are detached views of the parameter's own storage, block counts,
    gradient block k has the index box of parameter block k, selector slices are the parameter's own slice.
"Same computation as optimising the blocks separately" is the non-interference obligation of C01/C04 (each block's
post-state mentions only its own symbols) and is listed there.
"""
from __future__ import annotations

import itertools
import z3

from vlib.driver import prove, result
from vlib.sym import Explorer, SymBool, SymInt, assume, ShadowAbort

PROP = "C05"
LEVEL = "proof"
FUNCS = [
    ("distributed_shampoo/utils/shampoo_utils.py", "merge_small_dims"),
    ("distributed_shampoo/utils/shampoo_utils.py", "multi_dim_split"),
    ("distributed_shampoo/utils/shampoo_utils.py", "generate_pairwise_indices"),
    ("distributed_shampoo/utils/shampoo_distributor.py", "DistributorInterface._merge_and_block_parameters"),
    ("distributed_shampoo/utils/shampoo_distributor.py", "DistributorInterface._merge_and_block_gradients"),
    ("distributed_shampoo/utils/shampoo_distributor.py", "Distributor.update_params"),
]
TRUSTED = [
    "ASSUMED contract of torch.split(t, s, dim): returns ceil(n_dim/s) views of t, chunk k covering [k s, min((k+1) s, n_dim)) along dim, all other dims untouched, in order (validated natively on real tensors, bounded)",
    "ASSUMED contracts of Tensor.view (legal iff contiguous and numel equal; same storage), Tensor.detach (same storage, same box), _foreach_add_ on views writes through to the storage",
    "the product of per-dimension interval partitions is a partition of the index box: machine-checked by Lean 4 on every run (lemmas/C05ProductPartition.lean)",
    "number of chunks per dimension enumerated in {1,2,3} for the fold structure of multi_dim_split (extents and split size symbolic); the partition itself is the LIA lemma for all n, s",
    "parameters are contiguous (otherwise view() raises in the real code) and every extent is >= 1",
]
ASSUMPTIONS = ["max_preconditioner_dim >= 1 (constructor domain)"]
EXPLANATION = "orders 0..4 enumerated (the property's domain), every extent, threshold and split size symbolic; see the module docstring for the obligations"


def cases(tier):
    cs = [f"merge/o{o}" for o in range(0, 5)] + ["lemma/chunking", "lemma/product-of-partitions-lean"]
    for o in range(0, 5):
        maxc = 3 if (tier != "quick" or o <= 3) else 2
        for counts in itertools.product(range(1, maxc + 1), repeat=o):
            cs.append(f"split/o{o}/c{''.join(map(str, counts)) or '-'}")
    cs += [f"blocking/{m}" for m in ("merge", "nomerge")]
    return cs


# ---------------------------------------------------------------------------------------------------------
# merge_small_dims


def _merge_case(case):
    from distributed_shampoo.utils.shampoo_utils import merge_small_dims
    order = int(case.split("/o")[1])
    func = "merge_small_dims"

    def fn():
        dims = [SymInt(f"d{i}") for i in range(order)]
        thr = SymInt("threshold")
        for d in dims:
            assume(d.t >= 1)
        assume(thr.t >= 1)
        return merge_small_dims(tuple(dims), thr), dims

    paths = Explorer().run(fn)
    out = []
    mv = {f"d{i}": z3.Int(f"d{i}") for i in range(order)}
    mv["threshold"] = z3.Int("threshold")
    thr = z3.Int("threshold")
    for pi, p in enumerate(paths):
        tag = f"[{case}]#p{pi}"
        if p.outcome != "return":
            out.append(result(f"{func}/no-exception{tag}", func, "unknown" if p.outcome == "abort" else "violated", text=repr(p.value), case=case,
                              replay=dict(kind="merge")))
            continue
        res, dims = p.value
        hyp = p.cond()
        rt = [r.t if isinstance(r, SymInt) else z3.IntVal(int(r)) for r in res]
        dt = [d.t for d in dims]
        prod = lambda xs: z3.simplify(z3.Product(*xs)) if len(xs) > 1 else (xs[0] if xs else z3.IntVal(1))
        out.append(prove(f"{func}/element-count-preserved{tag}", func, hyp, z3.And(z3.BoolVal(len(rt) >= 1), prod(rt) == prod(dt)), model_vars=mv,
                         text="prod(result) == prod(shape), result non-empty (view(merged) is legal)", case=case, replay=dict(kind="merge")))
        # squeezed dims on this path: those the path condition forces != 1
        from vlib.solve import satisfiable
        sq = [d for d in dt if satisfiable(z3.And(hyp, d == 1), 5) == "unsat"]
        ones = [d for d in dt if satisfiable(z3.And(hyp, d != 1), 5) == "unsat"]
        decided = len(sq) + len(ones) == len(dt)
        ok_runs, pos, runs = decided, 0, []
        if decided and not sq:
            ok_runs = len(rt) == 1
            goal_runs = rt[0] == 1 if ok_runs else z3.BoolVal(False)
        elif decided:
            goals = []
            for r in rt:
                found = None
                for L in range(1, len(sq) - pos + 1):
                    if satisfiable(z3.And(hyp, r != prod(sq[pos:pos + L])), 5) == "unsat":
                        found = L
                        break
                if found is None:
                    ok_runs = False
                    break
                runs.append((pos, found))
                goals.append(r == prod(sq[pos:pos + found]))
                if found > 1:
                    goals.append(r <= thr)
                pos += found
            ok_runs = ok_runs and pos == len(sq)
            goal_runs = z3.And(*goals) if ok_runs else z3.BoolVal(False)
        else:
            goal_runs = z3.BoolVal(False)
        out.append(prove(f"{func}/runs-of-adjacent-non-1-dims-within-limit{tag}", func, hyp, goal_runs, model_vars=mv, case=case, replay=dict(kind="merge"),
                         text="result = products of consecutive runs of the dims != 1 (or (1,)); every fused run has product <= threshold; size-1 dims dropped"))
        if ok_runs and sq:
            # auxiliary (greedy maximality): the next dim would not have fitted
            aux = []
            for (ps, L), r in zip(runs, rt):
                nxt = ps + L
                if nxt < len(sq):
                    aux.append(r * sq[nxt] > thr)
            if aux:
                out.append(prove(f"{func}/greedy-maximal{tag}", func, hyp, z3.And(*aux), kind="auxiliary", model_vars=mv, case=case,
                                 text="auxiliary: a run stops only when the next dim would exceed the threshold"))
    out.append(result(f"{func}/cover:paths[{case}]", func, "violated" if paths else "discharged", kind="cover", case=case, extra=dict(paths=len(paths))))
    if order >= 2:
        ps = [p for p in paths if p.outcome == "return"]
        out.append(prove(f"{func}/canary:never-merges[{case}]", func, z3.And(*[z3.Int(f"d{i}") >= 2 for i in range(order)], thr >= 1),
                         z3.Int("d0") * z3.Int("d1") > thr, kind="canary", case=case))
    return out


# ---------------------------------------------------------------------------------------------------------
# view proxies and the torch.split contract stub


class Storage:
    def __init__(self, name):
        self.name = name


class ViewT:
    """A tensor that is a rectangular view (box) of the `shape0` view of a storage."""

    def __init__(self, storage, shape0, box, is_view_of_param=True):
        self.storage = storage
        self.shape0 = list(shape0)  # the logical shape the box is relative to
        self.box = [(lo, hi) for lo, hi in box]
        self.grad = None

    def size(self):
        return tuple(hi - lo for lo, hi in self.box)

    @property
    def shape(self):
        return self.size()

    def dim(self):
        return len(self.box)

    def numel(self):
        n = 1
        for s in self.size():
            n = n * s
        return n

    contig = True  # parameters get a symbolic flag (see the blocking case); everything derived by view()/split is a plain view

    def contiguous(self):
        """Tensor.contiguous(): the tensor itself when it is contiguous, otherwise a COPY in fresh storage (never a view)."""
        c = self.contig
        if c is True or bool(c):
            return self
        ns = Storage(self.storage.name + ".contiguous-copy")
        ns.counts = getattr(self.storage, "counts", None)
        return ViewT(ns, self.shape0, self.box)

    def is_contiguous(self):
        return self.contig

    def detach(self):
        r = ViewT(self.storage, self.shape0, self.box)
        r.contig = self.contig
        return r

    def view(self, *shape):
        if len(shape) == 1 and isinstance(shape[0], (tuple, list)):
            shape = tuple(shape[0])
        # only whole (un-narrowed) tensors are re-viewed by the code under test
        whole = all(_is_zero(lo) for lo, _ in self.box)
        if not whole:
            raise ShadowAbort("view() of a narrowed tensor")
        VIEWS.append((self, tuple(shape)))
        return ViewT(self.storage, shape, [(0, s) for s in shape])

    def __repr__(self):
        return f"<ViewT of {self.storage.name} box={self.box}>"


VIEWS = []


def _is_zero(x):
    return (isinstance(x, int) and x == 0) or (isinstance(x, SymInt) and z3.is_int_value(z3.simplify(x.t)) and z3.simplify(x.t).as_long() == 0)


def _t(x):
    return x.t if isinstance(x, SymInt) else z3.IntVal(int(x))


class SplitStub:
    """torch.split(t, s, dim) by contract; the number of chunks along dim d is COUNTS[d] (enumerated), the extents and s
    symbolic with the side condition (COUNTS[d]-1) s < n_d <= COUNTS[d] s added as an assumption."""

    def __init__(self, counts_of):
        self.counts_of = counts_of  # function (tensor, dim) -> count
        self.calls = []

    def split(self, t, s, dim=0):
        c = self.counts_of(t, dim)
        lo, hi = t.box[dim]
        n = hi - lo
        assume(z3.And(_t((c - 1) * s) < _t(n), _t(n) <= _t(c * s)))
        self.calls.append((t, s, dim, c))
        pieces = []
        for k in range(c):
            a = lo + k * s
            b = (lo + (k + 1) * s) if k < c - 1 else hi
            box = list(t.box)
            box[dim] = (a, b)
            pieces.append(ViewT(t.storage, t.shape0, box))
        return tuple(pieces)


def _split_case(case):
    import distributed_shampoo.utils.shampoo_utils as su
    from vlib.tensor import rebind
    _, o, cstr = case.split("/")
    order = int(o[1:])
    counts = [int(ch) for ch in cstr[1:]] if cstr != "c-" else []
    func = "multi_dim_split"

    def fn():
        n = [SymInt(f"n{d}") for d in range(order)]
        s = SymInt("split_size")
        for x in n:
            assume(x.t >= 1)
        assume(s.t >= 1)
        st = Storage("param")
        t = ViewT(st, n, [(0, x) for x in n])
        stub = SplitStub(lambda tt, d: counts[d])

        class FT:
            split = staticmethod(stub.split)

        with rebind([(su, "torch", FT)]):
            res = su.multi_dim_split(t, s)
        return res, t, stub, n, s

    paths = Explorer().run(fn)
    out = []
    mv = {f"n{d}": z3.Int(f"n{d}") for d in range(order)}
    mv["split_size"] = z3.Int("split_size")
    for pi, p in enumerate(paths):
        tag = f"[{case}]#p{pi}"
        if p.outcome != "return":
            out.append(result(f"{func}/no-exception{tag}", func, "unknown" if p.outcome == "abort" else "violated", text=repr(p.value), case=case,
                              replay=dict(kind="split")))
            continue
        res, t, stub, n, s = p.value
        hyp = p.cond()
        multi = list(itertools.product(*[range(c) for c in counts]))  # row-major order of the multi-index
        goals = [z3.BoolVal(len(res) == len(multi))]
        same_storage = all(isinstance(r, ViewT) and r.storage is t.storage for r in res)
        goals.append(z3.BoolVal(same_storage))
        if len(res) == len(multi):
            for r, k in zip(res, multi):
                for d in range(order):
                    lo, hi = r.box[d]
                    lo_w = k[d] * s.t
                    hi_w = z3.If((k[d] + 1) * s.t <= n[d].t, (k[d] + 1) * s.t, n[d].t)
                    goals += [_t(lo) == lo_w, _t(hi) == hi_w, _t(hi) - _t(lo) <= s.t, _t(hi) - _t(lo) >= 1]
        out.append(prove(f"{func}/pieces-are-the-chunk-boxes-in-row-major-order{tag}", func, hyp, z3.And(*goals), model_vars=mv, case=case,
                         replay=dict(kind="split"),
                         text="piece for multi-index k is the view prod_d [k_d s, min((k_d+1) s, n_d)) of the tensor's own storage; pieces in row-major order of k; every extent in 1..s"))
        # each dim split exactly once per piece-so-far, with the given split size
        ok = all(c[1] is s for c in stub.calls) and sorted({c[2] for c in stub.calls}) == list(range(order))
        out.append(result(f"{func}/splits-every-dim-with-split-size{tag}", func, "discharged" if ok else "violated", backend="call-log", case=case,
                          text="torch.split is called with split_size along every dim 0..order-1", replay=dict(kind="split")))
    out.append(result(f"{func}/cover:paths[{case}]", func, "violated" if paths else "discharged", kind="cover", case=case, extra=dict(paths=len(paths))))
    return out


def _lemma_case(case):
    func = "multi_dim_split"
    n, s, i, k = z3.Ints("n s i k")
    out = []
    hyp = z3.And(n >= 1, s >= 1, i >= 0, i < n)
    cnt = (n + s - 1) / s
    lo = lambda kk: kk * s
    hi = lambda kk: z3.If((kk + 1) * s <= n, (kk + 1) * s, n)
    kk = i / s
    out.append(prove(f"{func}/lemma:index-lies-in-chunk-i-div-s[{case}]", func, hyp, z3.And(kk >= 0, kk < cnt, lo(kk) <= i, i < hi(kk)),
                     model_vars=dict(n=n, s=s, i=i), text="every index of [0,n) lies in chunk i div s, which exists", case=case))
    out.append(prove(f"{func}/lemma:chunk-containing-index-is-unique[{case}]", func, z3.And(hyp, k >= 0, k < cnt, lo(k) <= i, i < hi(k)), k == kk,
                     model_vars=dict(n=n, s=s, i=i, k=k), text="no other chunk contains it (chunks are pairwise disjoint)", case=case))
    out.append(prove(f"{func}/lemma:chunks-non-empty-within-bounds[{case}]", func, z3.And(n >= 1, s >= 1, k >= 0, k < cnt),
                     z3.And(lo(k) < hi(k), hi(k) - lo(k) <= s, hi(k) <= n, lo(k) >= 0), model_vars=dict(n=n, s=s, k=k),
                     text="every chunk is non-empty, at most s long, inside [0,n)", case=case))
    out.append(prove(f"{func}/canary:chunks-have-length-s[{case}]", func, z3.And(n >= 1, s >= 1, k >= 0, k < cnt), hi(k) - lo(k) == s, kind="canary", case=case))
    return out


# ---------------------------------------------------------------------------------------------------------
# the distributor's blocking of parameters and gradients on view proxies


def _blocking_case(case):
    import distributed_shampoo.utils.shampoo_utils as su
    import distributed_shampoo.utils.shampoo_distributor as dd
    from distributed_shampoo import shampoo_types as st
    from vlib.tensor import rebind
    merge = case.endswith("/merge")
    func = "DistributorInterface._merge_and_block_parameters"
    out = []
    # three parameters of orders 2, 1, 0..; chunk counts chosen per (storage name, dim)
    layouts = [((2, 1), (2,)), ((1, 2), ()), ((2, 2), (1,))] if not merge else [((2,), (1,)), ((1,), (2,))]
    # ownership pattern of the blocks on this rank ("all": single process; "skip0": a distributed rank that owns NO block of parameter 0 —
    # the global gradient selector must still record parameter 0's gradient presence, only the LOCAL gradient blocks shrink)
    for li, layout, own in [(li, layout, own) for li, layout in enumerate(layouts) for own in ("all", "skip0")]:
        for present in itertools.product((True, False), repeat=len(layout)):
            def fn():
                del VIEWS[:]
                s = SymInt("max_preconditioner_dim")
                assume(s.t >= 1)
                params = []
                for j, counts in enumerate(layout):
                    n = [SymInt(f"p{j}n{d}") for d in range(len(counts))]
                    for x in n:
                        assume(x.t >= 2)
                    if merge and len(n) >= 2:
                        assume(z3.Product(*[x.t for x in n]) > s.t)
                    P = ViewT(Storage(f"param{j}"), n, [(0, x) for x in n])
                    P.counts = counts
                    P.storage.counts = counts
                    # the parameter may be a non-contiguous leaf whose layout still admits view(merged_dims) (assumed: the real view succeeds)
                    P.contig = SymBool(z3.Bool(f"param{j}_is_contiguous"))
                    if present[j]:
                        P.grad = ViewT(Storage(f"grad{j}"), n, [(0, x) for x in n])
                        P.grad.counts = counts
                    params.append(P)
                cmap = {}
                for P in params:
                    cmap[P.storage] = P.counts
                    if P.grad is not None:
                        cmap[P.grad.storage] = P.counts
                stub = SplitStub(lambda tt, d: (cmap.get(tt.storage) or tt.storage.counts)[d])

                class FT:
                    split = staticmethod(stub.split)

                D = object.__new__(dd.Distributor)
                D._param_group = {st.PARAMS: params, st.MAX_PRECONDITIONER_DIM: s, st.USE_MERGE_DIMS: merge}
                with rebind([(su, "torch", FT)]):
                    D._merge_and_block_parameters()
                    nb0 = list(D._global_num_blocks_per_param)[0] if own == "skip0" else 0
                    D._distributor_selector = (False,) * nb0 + (True,) * (len(D._global_blocked_params) - nb0)
                    views_params = list(VIEWS)
                    grads = D._merge_and_block_gradients()
                return D, params, grads, views_params, list(VIEWS), s

            paths = Explorer().run(fn)
            for pi, p in enumerate(paths):
                tag = f"[{case}/L{li}{'' if own == 'all' else '-' + own}/{''.join(str(int(x)) for x in present)}]#p{pi}"
                if p.outcome != "return":
                    # in merge mode a path on which merged dims differ between chunk-count assumptions may be infeasible; report others
                    out.append(result(f"{func}/no-exception{tag}", func, "unknown" if p.outcome == "abort" else "violated", text=repr(p.value)[:200], case=case,
                                      replay=dict(kind="blocking")))
                    continue
                D, params, grads, vparams, vall, s = p.value
                hyp = p.cond()
                goals = []
                # view(merged_dims) legal: numel equal
                for (t, shape) in vall:
                    goals.append(z3.Product(*[_t(x) for x in shape]) == z3.Product(*[_t(x) for x in t.size()]) if shape and t.size() else z3.BoolVal(True))
                nb = list(D._global_num_blocks_per_param)
                blocks = list(D._global_blocked_params)
                ok = len(nb) == len(params) and sum(nb) == len(blocks)
                pos = 0
                sel = []
                for j, P in enumerate(params):
                    mine = blocks[pos:pos + nb[j]] if ok else []
                    ok = ok and all(b.storage is P.storage for b in mine) and nb[j] >= 1
                    for b in mine:
                        for lo, hi in b.box:
                            goals.append(_t(hi) - _t(lo) <= s.t)
                    sel += [present[j]] * (nb[j] if ok else 0)
                    pos += nb[j] if ok else 0
                ok = ok and tuple(D._global_grad_selector) == tuple(sel)
                # gradient block k has the box of parameter block k (of the parameters that have a gradient), in order
                dsel = tuple(D._distributor_selector)
                pblocks = [b for b, keep, mine_ in zip(blocks, sel, dsel) if keep and mine_] if ok else []
                ok = ok and len(grads) == len(pblocks)
                if ok:
                    for gb, pb in zip(grads, pblocks):
                        owner = [P for P in params if P.storage is pb.storage][0]
                        ok = ok and owner.grad is not None and gb.storage is owner.grad.storage and len(gb.box) == len(pb.box)
                        if ok:
                            for (a, b_), (c, d_) in zip(gb.box, pb.box):
                                goals += [_t(a) == _t(c), _t(b_) == _t(d_)]
                out.append(prove(f"{func}/blocks-are-views-of-own-parameter;gradient-blocks-cover-the-same-boxes{tag}", func, hyp,
                                 z3.And(z3.BoolVal(bool(ok)), *goals), case=case, replay=dict(kind="blocking"),
                                 text="view(merged) legal; blocks are detached views of the parameter's own storage with extents <= max dim; block counts per parameter; global_grad_selector repeats presence per block; gradient block k has parameter block k's index box"))
    return out


def run_case(case, tier, seed):
    if case.startswith("merge/"):
        return _merge_case(case)
    if case.startswith("split/"):
        return _split_case(case)
    if case == "lemma/product-of-partitions-lean":
        from vlib.lean import lean_obligation
        return [lean_obligation(f"lemma:product-partition/per-dimension-partitions-give-a-partition-of-the-index-box[{case}]", "lemma:product-partition",
                                "C05ProductPartition.lean", ["C05.product_of_partitions", "C05.boxes_disjoint"], case=case,
                                text="Lean 4: if every index of every dimension lies in exactly one chunk of that dimension, every multi-index lies in exactly one product box "
                                     "(lifts the 1-D chunking lemma to multi_dim_split's blocks; specification-side mathematics)")]
    if case.startswith("lemma/"):
        return _lemma_case(case)
    return _blocking_case(case)


# ---- native tier -----------------------------------------------------------------------------------------


def native_blocking(shape, maxdim, merge, ignored=None):
    """Real Distributor on a real parameter: tiling, view-ness, row-major order, extents, gradient alignment, update_params."""
    import torch
    from distributed_shampoo.utils.shampoo_distributor import Distributor
    from distributed_shampoo import shampoo_types as st
    n = 1
    for s in shape:
        n *= s
    p = torch.nn.Parameter(torch.arange(n, dtype=torch.float64).reshape(shape))
    if ignored is None:
        D = Distributor({st.PARAMS: [p], st.MAX_PRECONDITIONER_DIM: maxdim, st.USE_MERGE_DIMS: merge})
    else:
        # the distributor as the REAL optimizer builds it (full param group, preconditioner config with ignored dimensions): ignoring a dimension
        # for preconditioning must not change the blocking — every extent stays within max_preconditioner_dim
        from distributed_shampoo.distributed_shampoo import DistributedShampoo
        opt = DistributedShampoo([p], lr=0.01, max_preconditioner_dim=maxdim, use_merge_dims=merge, precondition_frequency=1, start_preconditioning_step=1,
                                 preconditioner_config=st.ShampooPreconditionerConfig(ignored_dims=list(ignored)))
        D = opt._per_group_state_lists[0][st.DISTRIBUTOR]
    blocks = D.local_blocked_params
    seen = torch.zeros(n, dtype=torch.int64)
    last_first = -1
    for b in blocks:
        if b.untyped_storage().data_ptr() != p.untyped_storage().data_ptr():
            return "a block is not a view of the parameter's storage"
        if any(e > maxdim for e in b.shape) and not (b.dim() == 0):
            return f"block extent {tuple(b.shape)} exceeds max_preconditioner_dim {maxdim}"
        idx = b.detach().reshape(-1).to(torch.int64)  # element values are their flat indices
        seen[idx] += 1
        if idx.numel() and not torch.all(idx[1:] > idx[:-1]):
            return "row-major element order not kept inside a block"
    if not torch.all(seen == 1):
        return "blocks do not cover every element exactly once"
    p.grad = torch.arange(n, dtype=torch.float64).reshape(shape) * 10
    g = D.merge_and_block_gradients()
    if len(g) != len(blocks) or any(not torch.equal(gb, pb.detach() * 10) for gb, pb in zip(g, blocks)):
        return "gradient blocks do not cover the same index sets as the parameter blocks"
    # the gradient blocks are those of the CURRENT gradient memory: the same grad tensor object re-pointed at new memory (`.data = `, `set_`), or
    # overwritten in place, must be re-read (blocking is a function of the tensors' current contents, nothing is remembered between steps)
    for k_, install in enumerate((lambda t: setattr(p.grad, "data", t), lambda t: p.grad.set_(t), lambda t: p.grad.copy_(t))):
        new_g = torch.arange(n, dtype=torch.float64).reshape(shape) * (3.0 + k_)
        install(new_g)
        g = D.merge_and_block_gradients()
        if len(g) != len(blocks) or any(not torch.equal(gb, pb.detach() * (3.0 + k_)) for gb, pb in zip(g, blocks)):
            return "gradient blocks are stale after the gradient tensor was re-pointed / overwritten (" + ("grad.data = t", "grad.set_(t)", "grad.copy_(t)")[k_] + ")"
    before = p.detach().clone()
    D.update_params(tuple(torch.ones_like(b) for b in blocks))
    if not torch.equal(p.detach(), before + 1):
        return "update_params on the blocks did not update every parameter element exactly once"
    return None


def native_noncontiguous():
    """Non-contiguous leaf parameters whose layout still admits the (un-merged) view: blocks must be views of the parameter's OWN storage
    and update_params must change the parameter itself."""
    import torch
    from distributed_shampoo.utils.shampoo_distributor import Distributor
    from distributed_shampoo import shampoo_types as st
    for mk, label in ((lambda: torch.randn(3, 4, dtype=torch.float64).t(), "transposed (4,3)"),
                      (lambda: torch.randn(6, 4, dtype=torch.float64)[::2], "strided rows (3,4)"),
                      (lambda: torch.randn(2, 3, 4, dtype=torch.float64).permute(2, 0, 1), "permuted (4,2,3)")):
        p = torch.nn.Parameter(mk())
        if p.is_contiguous():
            continue
        try:
            D = Distributor({st.PARAMS: [p], st.MAX_PRECONDITIONER_DIM: 2, st.USE_MERGE_DIMS: False})
        except RuntimeError:
            continue  # the real view() refuses this layout: outside the domain
        blocks = D.local_blocked_params
        if any(b.untyped_storage().data_ptr() != p.untyped_storage().data_ptr() for b in blocks):
            return f"{label}: a block of a non-contiguous parameter is not a view of the parameter's own storage"
        before = p.detach().clone()
        D.update_params(tuple(torch.ones_like(b) for b in blocks))
        if not torch.equal(p.detach(), before + 1):
            return f"{label}: update_params on the blocks did not update the (non-contiguous) parameter"
    return None


def native_ownership():
    """a rank that owns no block of a parameter (distributed configurations) must still record that parameter's gradient presence in the
    GLOBAL gradient selector; only the local gradient blocks shrink"""
    import torch
    from distributed_shampoo.utils.shampoo_distributor import Distributor
    from distributed_shampoo import shampoo_types as st
    a, b = torch.nn.Parameter(torch.randn(3, 4)), torch.nn.Parameter(torch.randn(5))
    D = Distributor({st.PARAMS: [a, b], st.MAX_PRECONDITIONER_DIM: 2, st.USE_MERGE_DIMS: False})
    nb = list(D._global_num_blocks_per_param)
    for pres in ((True, True), (True, False), (False, True)):
        a.grad = torch.randn_like(a) if pres[0] else None
        b.grad = torch.randn_like(b) if pres[1] else None
        D._distributor_selector = (False,) * nb[0] + (True,) * nb[1]
        g = D._merge_and_block_gradients()
        want = tuple([pres[0]] * nb[0] + [pres[1]] * nb[1])
        if tuple(D._global_grad_selector) != want:
            return f"presence {pres}, rank owning no block of parameter 0: global gradient selector {tuple(D._global_grad_selector)} != presence per block {want}"
        if len(g) != (nb[1] if pres[1] else 0):
            return f"presence {pres}: {len(g)} local gradient blocks, expected {nb[1] if pres[1] else 0}"
    return None


def native_presplit(shape, maxdim, merge, cfgname, seed, steps=4):
    """optimising a tensor under a blocking == optimising its blocks as separate parameters (same gradients)"""
    import torch
    from distributed_shampoo.distributed_shampoo import DistributedShampoo
    from distributed_shampoo import shampoo_types as st
    from distributed_shampoo.utils.shampoo_distributor import Distributor
    g = torch.Generator().manual_seed(seed)
    p = torch.nn.Parameter(torch.randn(shape, generator=g, dtype=torch.float64))
    cfgs = dict(shampoo=dict(), adam=dict(grafting_config=st.AdamGraftingConfig(beta2=0.9, epsilon=1e-8), betas=(0.9, 0.99), momentum=0.5),
                soap=dict(preconditioner_config=st.DefaultEigenvalueCorrectedShampooConfig, betas=(0.0, 0.9)))
    kw = dict(lr=0.05, epsilon=1e-6, weight_decay=0.01, precondition_frequency=2, start_preconditioning_step=2, preconditioner_dtype=torch.float64)
    kw.update(cfgs[cfgname])
    opt = DistributedShampoo([p], max_preconditioner_dim=maxdim, use_merge_dims=merge, **kw)
    blocks = opt._per_group_state_lists[0][st.DISTRIBUTOR].local_blocked_params
    seps = [torch.nn.Parameter(b.detach().clone().contiguous()) for b in blocks]
    ref = DistributedShampoo(seps, max_preconditioner_dim=10 ** 6, use_merge_dims=False, **kw)
    Dg = Distributor({st.PARAMS: [p], st.MAX_PRECONDITIONER_DIM: maxdim, st.USE_MERGE_DIMS: merge})
    for t in range(steps):
        gr = torch.randn(shape, generator=g, dtype=torch.float64)
        p.grad = gr
        gblocks = Dg.merge_and_block_gradients()
        for q, gb in zip(seps, gblocks):
            q.grad = gb.detach().clone().contiguous()
        opt.step()
        ref.step()
        for b, q in zip(blocks, seps):
            if not torch.allclose(b, q.detach(), rtol=1e-9, atol=1e-11):
                return f"step {t + 1}: a block of the blocked tensor differs from the same block optimised as a separate parameter (max {float((b - q.detach()).abs().max()):.3e})"
    return None


def bounded(tier, seed):
    import itertools as it
    ext = (1, 2, 3, 4) if tier == "quick" else (1, 2, 3, 4, 5, 6)
    evals, viol, distinct, samples = 0, [], set(), []
    for order in range(0, 5):
        shapes = list(it.product(ext, repeat=order))
        if tier == "quick" and len(shapes) > 120:
            import random
            random.Random(seed).shuffle(shapes)
            shapes = shapes[:120]
        for shape in shapes:
            for maxdim in ((1, 2, 3, 5) if tier == "quick" else range(1, 9)):
                for merge in (True, False):
                    bad = native_blocking(shape, maxdim, merge)
                    if not bad and len(shape) >= 1:
                        for ign in ([0], [1], [0, 1]):
                            bad = native_blocking(shape, maxdim, merge, ignored=ign)
                            evals += 1
                            if bad:
                                bad = f"ignored_dims={ign}: {bad}"
                                break
                    evals += 1
                    distinct.add((shape, maxdim, merge))
                    if bad:
                        viol.append(dict(ob=f"bounded/blocking[{shape},{maxdim},{merge}]", func="Distributor", input=dict(shape=shape, maxdim=maxdim, merge=merge),
                                         text=bad, detail=bad, replay=dict(kind="native_blocking", shape=list(shape), maxdim=maxdim, merge=merge)))
    for shape, maxdim, merge, cfgname in it.product(((5, 4), (3, 2, 4), (7,), (2, 1, 3, 2)), (2, 3), (True, False), ("shampoo", "adam", "soap")):
        try:
            bad = native_presplit(shape, maxdim, merge, cfgname, seed)
        except BaseException as e:  # noqa
            bad = f"raised {type(e).__name__}: {str(e)[:200]}"
        evals += 1
        distinct.add(("presplit", shape, maxdim, merge, cfgname))
        if bad:
            viol.append(dict(ob=f"bounded/blocked=pre-split[{shape},{maxdim},{merge},{cfgname}]", func="DistributedShampoo.step", input=dict(shape=shape, maxdim=maxdim, merge=merge, config=cfgname),
                             text=bad, detail=bad, replay=dict(kind="presplit", shape=list(shape), maxdim=maxdim, merge=merge, cfg=cfgname, seed=seed)))
    bad = native_ownership()
    evals += 1
    distinct.add(("ownership",))
    if bad:
        viol.append(dict(ob="bounded/global-selector-independent-of-ownership", func="DistributorInterface._merge_and_block_gradients", input=dict(selector="no block of parameter 0 owned"), text=bad, detail=bad, replay=dict(kind="ownership")))
    bad = native_noncontiguous()
    evals += 1
    distinct.add(("non-contiguous",))
    if bad:
        viol.append(dict(ob="bounded/non-contiguous-parameter", func="Distributor", input=dict(layouts=["transposed", "strided", "permuted"]), text=bad, detail=bad, replay=dict(kind="noncontig")))
    samples = [dict(shape=(3, 4), max_preconditioner_dim=2, merge=True)]
    return dict(evaluations=evals, distinct_nontrivial=len(distinct), exhaustive=(tier != "quick"),
                rule="real Distributor on real tensors: shapes of order 0..4 with small extents x max_preconditioner_dim x merge on/off; storage pointer, exact tiling, row-major order, extents, gradient alignment, in-place update; distinct = distinct (shape, max dim, merge)",
                samples=samples, bound=f"extents in {ext}", violations=viol[:5])


def replay(r):
    return replay_file(dict(replay_input=r.get("replay"), verifier_output=dict(model=r.get("model"))))


def replay_file(doc):
    rp = doc.get("replay_input") or {}
    m = (doc.get("verifier_output") or {}).get("model") or {}
    if rp.get("kind") == "presplit":
        bad = native_presplit(tuple(rp["shape"]), rp["maxdim"], rp["merge"], rp["cfg"], rp["seed"])
        return bool(bad), f"{rp}: {bad}"
    if rp.get("kind") == "native_blocking":
        bad = native_blocking(tuple(rp["shape"]), rp["maxdim"], rp["merge"])
        for ign in ([0], [1], [0, 1]):
            bad = bad or native_blocking(tuple(rp["shape"]), rp["maxdim"], rp["merge"], ignored=ign)
        return bool(bad), f"shape {rp['shape']} max dim {rp['maxdim']} merge {rp['merge']}: {bad}"
    if rp.get("kind") == "merge" and m:
        from distributed_shampoo.utils.shampoo_utils import merge_small_dims
        shape = [m[k] for k in sorted(k for k in m if k.startswith("d"))]
        thr = m.get("threshold", 1)
        try:
            res = merge_small_dims(tuple(shape), thr)
        except BaseException as e:  # noqa
            return True, f"merge_small_dims({shape}, {thr}) raised {type(e).__name__}: {e}"
        bad = _check_merge_native(shape, thr, res)
        return bool(bad), f"merge_small_dims({shape}, {thr}) = {res}: {bad}"
    if rp.get("kind") == "ownership":
        bad = native_ownership()
        return bool(bad), bad or "global gradient selector is independent of block ownership"
    if rp.get("kind") == "noncontig":
        bad = native_noncontiguous()
        return bool(bad), bad or "non-contiguous parameters are blocked into views of their own storage"
    if rp.get("kind") in ("split", "blocking", "merge"):
        import itertools as it
        bad = native_noncontiguous() or native_ownership()
        if bad:
            return True, bad
        for order in range(0, 5):
            for shape in it.product((1, 2, 3, 5), repeat=order):
                for maxdim in (1, 2, 3, 4):
                    for merge in (True, False):
                        bad = native_blocking(shape, maxdim, merge)
                    if not bad and len(shape) >= 1:
                        for ign in ([0], [1], [0, 1]):
                            bad = native_blocking(shape, maxdim, merge, ignored=ign)
                            evals += 1
                            if bad:
                                bad = f"ignored_dims={ign}: {bad}"
                                break
                        if bad:
                            return True, f"shape {shape} max dim {maxdim} merge {merge}: {bad}"
        return False, "native blocking checks pass on all small shapes"
    return False, "no native replayer"


def _check_merge_native(shape, thr, res):
    import math
    if math.prod(res) != math.prod(shape):
        return "element count changed"
    sq = [d for d in shape if d != 1] or [1]
    pos = 0
    for r in res:
        acc, L = 1, 0
        while pos + L < len(sq) and acc < r:
            acc *= sq[pos + L]
            L += 1
        if acc != r or L == 0:
            if not (sq == [1] and r == 1):
                return "result is not a sequence of products of adjacent non-1 dims"
            L = 1
        if L > 1 and r > thr:
            return f"fused dims {sq[pos:pos + L]} exceed the limit {thr}"
        pos += L
    if pos != len(sq):
        return "result does not cover all non-1 dims"
    return None
