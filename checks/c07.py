"""C07 — FSDP/HSDP Shampoo equals serial Shampoo on the shard's recovered tensor blocks.

E2 obligations: (a) the real `_merge_and_block_parameters` / `_merge_and_block_gradients` of FSDPDistributor and HSDPDistributor
executed on view proxies with `_split_tensor_block_recovery` replaced by its contract (C15) and torch.split by its view contract
(C05): the blocks are the default distributor's blocks of the recovered pieces, in order; the bookkeeping tuples
(_global_num_splits_per_param, _global_num_blocks_per_split_param, _global_num_blocks_per_param, _global_merged_dims_list) are
the per-piece counts; gradients are recovered with the SAME (shape, start, end) and blocked with the same merged dims, so
gradient block k has parameter block k's box; every strict zip holds; an empty local shard yields no blocks.
(b) `compile_fsdp_parameter_metadata`: start = intra_param_start_idx or 0, end = inclusive end + 1 (0 if None), for all ints.
(c) HSDP `update_params` under the all-gather contract (shared with C06).  The rank-starvation skip of finding F5 applies to
HSDP through the same step() call site (reported under C06).
"""
from __future__ import annotations

import itertools
import z3

from vlib.driver import prove, result
from vlib.sym import Explorer, SymInt, assume
from vlib.tensor import rebind
from checks import c05, dist as D

PROP = "C07"
LEVEL = "proof"
FUNCS = [
    ("distributed_shampoo/utils/shampoo_fsdp_distributor.py", "FSDPDistributor._merge_and_block_parameters"),
    ("distributed_shampoo/utils/shampoo_fsdp_distributor.py", "FSDPDistributor._merge_and_block_gradients"),
    ("distributed_shampoo/utils/shampoo_hsdp_distributor.py", "HSDPDistributor._merge_and_block_parameters"),
    ("distributed_shampoo/utils/shampoo_hsdp_distributor.py", "HSDPDistributor._merge_and_block_gradients"),
    ("distributed_shampoo/utils/shampoo_hsdp_distributor.py", "HSDPDistributor.update_params"),
    ("distributed_shampoo/utils/shampoo_hsdp_distributor.py", "HSDPDistributor.merge_and_block_gradients"),
    ("distributed_shampoo/utils/shampoo_hsdp_distributor.py", "HSDPDistributor.__init__"),
    ("distributed_shampoo/utils/shampoo_fsdp_utils.py", "compile_fsdp_parameter_metadata"),
]
TRUSTED = [
    "_split_tensor_block_recovery by contract (C15): a function of (shape, start, end) returning ordered views of the given flat tensor; pieces per parameter enumerated 0..2 with symbolic shapes",
    "torch.split / view / detach view contracts (C05); chunk counts per dim enumerated",
    "FSDP's flat-parameter shard metadata partitions [0, numel) across the shard ranks (external); with C15 this gives 'every element updated exactly once across shard ranks'",
    "all-gather contract and per-block buffer cells as in C06; HSDP process-group creation loops over all replicate groups independently of the rank (trace equality expected, checked natively on simulated ranks in the bounded tier)",
]
ASSUMPTIONS = ["max_preconditioner_dim >= 1; extents >= 1"]
EXPLANATION = "FSDP/HSDP blocking = default blocking of the recovered pieces with aligned gradients (all extents symbolic); metadata arithmetic for all ints; HSDP update under the all-gather contract"


def cases(tier):
    cs = [f"blocking/{c}/{lay}" for c in ("fsdp", "hsdp") for lay in ("L0", "L1", "L2")]
    cs += ["metadata", "ribare/hsdp", "ctor/hsdp", "commdtype/hsdp"] + D.update_params_cases("hsdp")
    # "blocks = default blocks of the RECOVERED pieces" uses the recovery contract of C15; its per-level obligations (orders <= 3, both copies)
    # are re-discharged here so that a change of the recovery itself fails a named obligation of this check as well
    cs += [f"c15:level/{w}/o{o}/d{d}" for w in ("fsdp", "hsdp") for o in range(0, 4) for d in range(0, max(o, 1))]
    return cs


LAYOUTS = {
    # per parameter: list of pieces, each piece = tuple of chunk counts per dim (its order = len)
    "L0": [[(2, 1)], [(1,), (2,)]],
    "L1": [[], [(1, 2)], [(1,)]],          # first parameter has an empty local shard
    "L2": [[(2,), (1, 1), (1,)]],
}


def _blocking_case(case):
    import importlib
    _, cname, lay = case.split("/")
    modname = "distributed_shampoo.utils.shampoo_fsdp_distributor" if cname == "fsdp" else "distributed_shampoo.utils.shampoo_hsdp_distributor"
    mod = importlib.import_module(modname)
    C = getattr(mod, "FSDPDistributor" if cname == "fsdp" else "HSDPDistributor")
    import distributed_shampoo.utils.shampoo_utils as su
    from distributed_shampoo import shampoo_types as st
    func = f"{C.__name__}._merge_and_block_parameters"
    layout = LAYOUTS[lay]
    out = []
    for present in itertools.product((True, False), repeat=len(layout)):
        def fn():
            del c05.VIEWS[:]
            s = SymInt("max_preconditioner_dim")
            assume(s.t >= 1)
            params, meta, calls = [], {}, []
            cmap = {}

            class P:
                """flattened parameter shard proxy"""
                def __init__(self, j):
                    self.j = j
                    self.grad = None
                    self.storage = c05.Storage(f"param{j}")

            class G:
                def __init__(self, j):
                    self.j = j
                    self.storage = c05.Storage(f"grad{j}")

            class Meta:
                def __init__(self, j):
                    self.shape, self.start_idx, self.end_idx = ("shape", j), SymInt(f"start{j}"), SymInt(f"end{j}")

            for j, pieces in enumerate(layout):
                p = P(j)
                if present[j]:
                    p.grad = G(j)
                params.append(p)
                meta[p] = Meta(j)

            def recovery(tensor_shard, original_shape, start_idx, end_idx):
                # contract of C15: a function of (shape, start, end) only; pieces are views of the given shard
                j = tensor_shard.j
                calls.append((tensor_shard, original_shape, start_idx, end_idx))
                outp = []
                for k, counts in enumerate(layout[j]):
                    n = [SymInt(f"p{j}k{k}n{d}") for d in range(len(counts))]
                    for x in n:
                        assume(x.t >= 2)
                    v = c05.ViewT(tensor_shard.storage, n, [(0, x) for x in n])
                    v.piece = (j, k)
                    cmap[(tensor_shard.storage, k)] = counts
                    v.storage_piece = k
                    outp.append(v)
                return outp

            def counts_of(tt, d):
                return cmap[(tt.storage, getattr(tt, "storage_piece", None) if hasattr(tt, "storage_piece") else None)][d]

            # chunk counts are looked up through the piece the view descends from
            class Stub(c05.SplitStub):
                def split(self_, t, s_, dim=0):
                    r = c05.SplitStub.split(self_, t, s_, dim)
                    for x in r:
                        x.storage_piece = t.storage_piece
                    return r

            stub = Stub(lambda tt, d: cmap[(tt.storage, tt.storage_piece)][d])
            orig_view = c05.ViewT.view
            orig_detach = c05.ViewT.detach

            def view(self_, *shape):
                r = orig_view(self_, *shape)
                r.storage_piece = self_.storage_piece
                return r

            def detach(self_):
                r = orig_detach(self_)
                r.storage_piece = self_.storage_piece
                return r

            c05.ViewT.view, c05.ViewT.detach = view, detach

            class FT:
                split = staticmethod(stub.split)

            obj = object.__new__(C)
            obj._param_group = {st.PARAMS: params, st.MAX_PRECONDITIONER_DIM: s, st.USE_MERGE_DIMS: False}
            obj._param_to_metadata = meta
            try:
                with rebind([(su, "torch", FT)]):
                    saved = C._split_tensor_block_recovery
                    C._split_tensor_block_recovery = staticmethod(recovery)
                    try:
                        obj._merge_and_block_parameters()
                        obj._distributor_selector = (True,) * len(obj._global_blocked_params)
                        ncalls_params = len(calls)
                        grads = obj._merge_and_block_gradients()
                    finally:
                        C._split_tensor_block_recovery = saved
            finally:
                c05.ViewT.view, c05.ViewT.detach = orig_view, orig_detach
            return obj, params, grads, calls, ncalls_params, meta, s

        paths = Explorer().run(fn)
        for pi, p in enumerate(paths):
            tag = f"[{case}/{''.join(str(int(x)) for x in present)}]#p{pi}"
            if p.outcome != "return":
                out.append(result(f"{func}/no-exception{tag}", func, "unknown" if p.outcome == "abort" else "violated", text=repr(p.value)[:300], case=case,
                                  replay=dict(kind="fsdp_native")))
                continue
            obj, params, grads, calls, ncp, meta, s = p.value
            hyp = p.cond()
            _t = c05._t
            blocks = list(obj._global_blocked_params)
            nsplits = [len(x) for x in layout]
            nblocks_piece = []
            for j, pieces in enumerate(layout):
                for counts in pieces:
                    k = 1
                    for c in counts:
                        k *= c
                    nblocks_piece.append(k)
            per_param = []
            pos = 0
            for j, pieces in enumerate(layout):
                per_param.append(sum(nblocks_piece[pos:pos + len(pieces)]))
                pos += len(pieces)
            ok = (tuple(obj._global_num_splits_per_param) == tuple(nsplits) and tuple(obj._global_num_blocks_per_split_param) == tuple(nblocks_piece)
                  and tuple(obj._global_num_blocks_per_param) == tuple(per_param) and len(blocks) == sum(nblocks_piece)
                  and len(obj._global_merged_dims_list) == len(nblocks_piece))
            # recovery called once per parameter with that parameter's own metadata; for gradients with the SAME metadata
            pc = calls[:ncp]
            ok = ok and len(pc) == len(params) and all(c[0] is params[j] and c[1] is meta[params[j]].shape and c[2] is meta[params[j]].start_idx and c[3] is meta[params[j]].end_idx
                                                       for j, c in enumerate(pc))
            gc = calls[ncp:]
            pres_idx = [j for j in range(len(params)) if present[j] and per_param[j] > 0]
            ok = ok and len(gc) == len(pres_idx) and all(c[0] is params[j].grad and c[1] is meta[params[j]].shape and c[2] is meta[params[j]].start_idx and c[3] is meta[params[j]].end_idx
                                                         for j, c in zip(pres_idx, gc))
            goals = []
            # blocks in order of (parameter, piece, row-major chunk); each a view of its parameter's storage with extents <= max dim
            pos = 0
            sel = []
            for j in range(len(params)):
                mine = blocks[pos:pos + per_param[j]]
                ok = ok and all(b.storage is params[j].storage for b in mine)
                for b in mine:
                    for lo, hi in b.box:
                        goals.append(_t(hi) - _t(lo) <= s.t)
                sel += [present[j]] * per_param[j]
                pos += per_param[j]
            ok = ok and tuple(obj._global_grad_selector) == tuple(sel)
            pb = [b for b, keep in zip(blocks, sel) if keep]
            ok = ok and len(grads) == len(pb)
            if ok:
                for gb, b in zip(grads, pb):
                    owner = [q for q in params if q.storage is b.storage][0]
                    ok = ok and gb.storage is owner.grad.storage and gb.storage_piece == b.storage_piece and len(gb.box) == len(b.box)
                    if ok:
                        for (a1, b1), (a2, b2) in zip(gb.box, b.box):
                            goals += [_t(a1) == _t(a2), _t(b1) == _t(b2)]
            out.append(prove(f"{func}/blocks=default-blocks-of-recovered-pieces;gradients-aligned{tag}", func, hyp, z3.And(z3.BoolVal(bool(ok)), *goals), case=case,
                             replay=dict(kind="fsdp_native"),
                             text="blocks are, in order, the chunk views of every recovered piece of every parameter (extents <= max dim); per-piece / per-parameter counts recorded; "
                                  "gradients recovered with the same (shape, start, end) and blocked identically: gradient block k has parameter block k's box; empty shard => no blocks"))
    return out


def _metadata_case(case):
    import distributed_shampoo.utils.shampoo_fsdp_utils as fu
    func = "compile_fsdp_parameter_metadata"
    out = []
    for start_none, end_none in ((False, False), (True, True), (False, True)):
        def fn():
            s, e = SymInt("intra_param_start_idx"), SymInt("intra_param_end_idx")
            assume(z3.And(s.t >= 0, e.t >= s.t))

            class Info:
                intra_param_start_idx = None if start_none else s
                intra_param_end_idx = None if end_none else e

            class FlatParam:
                _fqns, _shapes, _numels, _shard_param_infos, _params = ["w"], [("shape",)], [12], [Info()], ["PARAM"]

            class Mod:
                _flat_param = FlatParam()
                sharding_strategy = "FULL_SHARD"

            class FSDPStub:
                @staticmethod
                def fsdp_modules(m):
                    return [Mod()]

            with rebind([(fu, "FSDP", FSDPStub)]):
                return fu.compile_fsdp_parameter_metadata(object())["PARAM"]

        for pi, p in enumerate(Explorer().run(fn)):
            tag = f"[{case}/sn{int(start_none)}en{int(end_none)}]#p{pi}"
            if p.outcome != "return":
                out.append(result(f"{func}/no-exception{tag}", func, "unknown" if p.outcome == "abort" else "violated", text=repr(p.value)[:200], case=case))
                continue
            m = p.value
            s, e = z3.Int("intra_param_start_idx"), z3.Int("intra_param_end_idx")
            T = lambda x: x.t if isinstance(x, SymInt) else z3.IntVal(int(x))
            goal = z3.And(T(m.start_idx) == (z3.IntVal(0) if start_none else s), T(m.end_idx) == (z3.IntVal(0) if end_none else e + 1))
            out.append(prove(f"{func}/start=start-or-0;end=inclusive-end+1-or-0{tag}", func, p.cond(), goal, model_vars=dict(start=s, end_inclusive=e), case=case,
                             replay=dict(kind="metadata"), text="local shard is [start, inclusive_end + 1) of the flattened parameter; None means an empty shard [0, 0)"))
    return out


def run_case(case, tier, seed):
    if case.startswith("c15:"):
        from checks import c15 as _c15
        return _c15.run_case(case[4:], tier, seed)
    if case.startswith("commdtype/"):
        from checks import dist as _D
        return _D.run_comm_dtype(case)
    if case.startswith("blocking/"):
        return _blocking_case(case)
    if case == "metadata":
        return _metadata_case(case)
    if case.startswith("ribare/"):
        return D.run_ri_bare(case, "hsdp")
    if case.startswith("ctor/"):
        return _hsdp_ctor_case(case)
    return D.run_update_params(case)


# ---- native: simulated shards (flat tensors + metadata) against the serial optimizer on the recovered pieces ---


def native_fsdp(shapes, nranks, seed, steps=3, maxdim=3):
    """For every shard rank: FSDP Shampoo on the flat shards must equal serial Shampoo on the recovered sub-tensors taken as
    independent parameters; across ranks every element of every parameter is updated exactly once per step."""
    import random
    import torch
    import torch.distributed as dist
    from distributed_shampoo.distributed_shampoo import DistributedShampoo
    from distributed_shampoo import shampoo_types as st
    from distributed_shampoo.utils.shampoo_fsdp_distributor import FSDPDistributor
    from torch.distributed.fsdp import ShardingStrategy
    if not dist.is_initialized():
        dist.init_process_group("gloo", rank=0, world_size=1, store=dist.HashStore())
    rng = random.Random(seed)
    g = torch.Generator().manual_seed(seed)
    fulls = [torch.randn(s, generator=g) for s in shapes]
    numels = [f.numel() for f in fulls]
    total = sum(numels)
    # flat-parameter sharding: concatenate, split into nranks equal chunks (last padded), per-parameter intra ranges
    per = -(-total // nranks)
    offs = [0]
    for n in numels:
        offs.append(offs[-1] + n)
    grads_full = [[torch.randn(s, generator=g) if rng.random() < 0.8 else None for s in shapes] for _ in range(steps)]
    updated = [torch.zeros(n, dtype=torch.int32) for n in numels]
    after = [f.clone().reshape(-1) for f in fulls]
    for r in range(nranks):
        lo, hi = r * per, min((r + 1) * per, total)
        flat_params, meta, pieces_ref, pieces_idx = [], {}, [], []
        for j, f in enumerate(fulls):
            a, b = max(lo, offs[j]) - offs[j], min(hi, offs[j + 1]) - offs[j]
            if b <= a:
                a = b = 0
            shard = torch.nn.Parameter(f.reshape(-1)[a:b].clone())
            flat_params.append(shard)
            meta[shard] = st.FSDPParameterMetadata(fqn=f"p{j}", shape=torch.Size(shapes[j]), numel=numels[j], start_idx=a, end_idx=b, sharding_strategy=ShardingStrategy.FULL_SHARD)
        if all(sh.numel() == 0 for sh in flat_params):
            continue  # a rank without any local element cannot construct the optimizer (constructor assertion): outside the domain
        kw = dict(lr=0.05, betas=(0.9, 0.99), epsilon=1e-6, momentum=0.5, max_preconditioner_dim=maxdim, precondition_frequency=1, start_preconditioning_step=1,
                  grafting_config=st.AdaGradGraftingConfig(epsilon=1e-8))
        opt = DistributedShampoo(flat_params, distributed_config=st.FSDPShampooConfig(param_to_metadata=meta), **kw)
        # reference: the recovered pieces as independent serial parameters
        ref_params, ref_map = [], []
        for j, shard in enumerate(flat_params):
            m = meta[shard]
            # the reference must not inherit a defect of the recovery it is built with: the recovered pieces are validated against the
            # specification of C15 first (ordered gap-free views, every piece of shape (m,) + shape[j+1:] inside one cell, fewest pieces)
            from checks import c15 as _c15
            for which_ in ("fsdp", "hsdp"):
                bad_rec = _c15.native_recovery_check(which_, tuple(m.shape), int(m.start_idx), int(m.end_idx))
                if bad_rec:
                    return f"rank {r}: the sub-tensors recovered ({which_} copy) from the shard [{m.start_idx},{m.end_idx}) of a parameter of shape {tuple(m.shape)} are not the specified tensor blocks: {bad_rec}"
            for piece in FSDPDistributor._split_tensor_block_recovery(shard.detach().clone(), m.shape, m.start_idx, m.end_idx):
                q = torch.nn.Parameter(piece.clone())
                ref_params.append(q)
                ref_map.append((j, piece.storage_offset(), piece.numel(), tuple(piece.shape)))
        ref = DistributedShampoo(ref_params, **kw) if ref_params else None
        for t in range(steps):
            for j, shard in enumerate(flat_params):
                gf = grads_full[t][j]
                m = meta[shard]
                shard.grad = None if (gf is None or m.end_idx == m.start_idx) else gf.reshape(-1)[m.start_idx:m.end_idx].clone()
            for q, (j, off, n, shp) in zip(ref_params, ref_map):
                gf = grads_full[t][j]
                m = meta[flat_params[j]]
                q.grad = None if gf is None else gf.reshape(-1)[m.start_idx + off:m.start_idx + off + n].reshape(shp).clone()
            before = [p.detach().clone() for p in flat_params]
            opt.step()
            if ref is not None:
                ref.step()
            for j, shard in enumerate(flat_params):
                if shard.numel() == 0 and not torch.equal(shard.detach(), before[j]):
                    return f"rank {r}: parameter {j} has an empty local shard but was touched"
            for q, (j, off, n, shp) in zip(ref_params, ref_map):
                got = flat_params[j].detach()[off:off + n].reshape(shp)
                if not torch.allclose(got, q.detach(), rtol=1e-5, atol=1e-6):
                    return f"rank {r} step {t + 1}: shard of parameter {j} differs from serial Shampoo on the recovered block of shape {shp} (max {float((got - q.detach()).abs().max()):.3e})"
        for j, shard in enumerate(flat_params):
            m = meta[shard]
            updated[j][m.start_idx:m.end_idx] += 1
    for j in range(len(fulls)):
        if not torch.all(updated[j] == 1):
            return f"parameter {j}: some element is covered by {updated[j].unique().tolist()} shard ranks instead of exactly one"
    return None


_TLS = None


def native_hsdp(R, S, ntpg, comm, cp, seed, steps=4):
    """The real HSDPDistributor / DistributedShampoo on every rank of a (replicate R x shard S) mesh of simulated ranks (threads).
    (1) all replicas of a shard hold bit-identical parameters after every step, for every communication setting;
    (2) with FP32 communication every shard equals serial Shampoo on the pieces recovered from that shard (taken as independent parameters)."""
    import threading
    import torch
    import torch.distributed as dist
    from torch.distributed.device_mesh import DeviceMesh, init_device_mesh
    from torch.distributed.fsdp import ShardingStrategy
    from distributed_shampoo import shampoo_types as st
    from distributed_shampoo.distributed_shampoo import DistributedShampoo
    from distributed_shampoo.utils import shampoo_hsdp_distributor as hmod
    from distributed_shampoo.utils.shampoo_fsdp_distributor import FSDPDistributor
    from checks import dist as Dm
    global _TLS
    if _TLS is None:
        _TLS = threading.local()

    def per_thread_mesh(device_type, mesh, mesh_dim_names=None):
        # threads emulate processes: the library's process-global device-mesh cache has to be per simulated rank
        cache = _TLS.__dict__.setdefault("cache", {})
        key = (device_type, mesh, mesh_dim_names)
        if key not in cache:
            cache[key] = DeviceMesh(device_type=device_type, mesh=mesh, mesh_dim_names=mesh_dim_names)
        return cache[key]

    shapes = [(5, 3), (7,), (2, 3, 4), (6, 2), (2, 2, 2, 3), (3,)] if seed % 2 == 0 else [(4, 5), (3,), (2, 3, 3), (7, 2), (5,), (2, 2, 2, 2)]
    numels = [int(torch.Size(sh).numel()) for sh in shapes]
    total = sum(numels)
    per = -(-total // S)
    offs = [0]
    for n in numels:
        offs.append(offs[-1] + n)

    def ranges(sr):
        lo, hi = sr * per, min((sr + 1) * per, total)
        out = []
        for j in range(len(shapes)):
            a, b = max(lo, offs[j]) - offs[j], min(hi, offs[j + 1]) - offs[j]
            out.append((a, b) if a < b else (0, 0))
        return out

    # presence histories that never leave a rank without any gradient-carrying block (that pattern is known finding F5 of C06)
    hist = [[True] * len(shapes) for _ in range(steps)]
    if steps >= 3:
        hist[1][1] = False
        hist[2][2 if seed % 2 == 0 else 4] = False
    gp = torch.Generator().manual_seed(seed)
    fulls = [torch.randn(sh, generator=gp) for sh in shapes]
    gg = torch.Generator().manual_seed(seed + 1)
    grads = [[torch.randn(sh, generator=gg) for sh in shapes] for _ in range(steps)]
    kw = dict(lr=0.01, betas=(0.9, 1.0), epsilon=1e-8, momentum=0.5, weight_decay=0.01, max_preconditioner_dim=3, precondition_frequency=1,
              start_preconditioning_step=1, use_merge_dims=True)
    cdt = dict(f32=st.CommunicationDType.DEFAULT, bf16=st.CommunicationDType.BF16, f16=st.CommunicationDType.FP16)[comm]

    def run(rank):
        mesh = init_device_mesh("cpu", (R, S), mesh_dim_names=("replicate", "shard"))
        sr = mesh.get_local_rank(1)
        rg = ranges(sr)
        params = [torch.nn.Parameter(fulls[j].flatten()[a:b].clone()) for j, (a, b) in enumerate(rg)]
        meta = {p: st.FSDPParameterMetadata(fqn=f"p{j}", shape=torch.Size(shapes[j]), numel=numels[j], start_idx=a, end_idx=b, sharding_strategy=ShardingStrategy.HYBRID_SHARD)
                for j, (p, (a, b)) in enumerate(zip(params, rg))}
        opt = DistributedShampoo(params, distributed_config=st.HSDPShampooConfig(param_to_metadata=meta, device_mesh=mesh, communication_dtype=cdt,
                                                                                num_trainers_per_group=ntpg, communicate_params=cp), **kw)
        traj = []
        for t in range(steps):
            for j, (p, (a, b)) in enumerate(zip(params, rg)):
                p.grad = None if (not hist[t][j] or a == b) else grads[t][j].flatten()[a:b].clone()
            opt.step()
            traj.append([p.detach().clone() for p in params])
        return sr, traj

    saved = hmod.get_device_mesh
    hmod.get_device_mesh = per_thread_mesh
    try:
        try:
            res = Dm.threaded(R * S, run, timeout=120)
        except TimeoutError:
            # persistent hang of the thread simulator (after repeated attempts): collective-trace equality is C06's property (known findings
            # F5 / F6); for this property the sample is inconclusive and is not counted as a violation.  Further simulated runs of this
            # check invocation are skipped (each persistent hang costs minutes).
            _HUNG["n"] += 1
            return None
        except BaseException as e:  # noqa
            return f"raised {type(e).__name__}: {str(e)[:300]}"
    finally:
        hmod.get_device_mesh = saved
    # (1) replica agreement
    by_shard = {}
    for rank, (sr, traj) in res.items():
        by_shard.setdefault(sr, []).append((rank, traj))
    for sr, lst in by_shard.items():
        r0, t0 = lst[0]
        for rank, traj in lst[1:]:
            for t in range(steps):
                for j in range(len(shapes)):
                    if not torch.equal(traj[t][j], t0[t][j]):
                        return (f"step {t + 1}: replicas disagree on shard {sr} of parameter {j} (rank {rank} vs rank {r0}, max diff "
                                f"{float((traj[t][j] - t0[t][j]).abs().max()):.3e}); comm={comm} communicate_params={cp}")
    # (2) FP32 communication: equal to serial Shampoo on the recovered pieces of each shard
    if comm == "f32":
        for sr, lst in by_shard.items():
            rg = ranges(sr)
            pieces, pmap = [], []
            for j, (a, b) in enumerate(rg):
                if a == b:
                    continue
                flat = fulls[j].flatten()[a:b].clone()
                for piece in FSDPDistributor._split_tensor_block_recovery(flat, torch.Size(shapes[j]), a, b):
                    pieces.append(torch.nn.Parameter(piece.clone()))
                    pmap.append((j, a + piece.storage_offset(), piece.numel(), tuple(piece.shape)))
            ref = DistributedShampoo(pieces, **kw)
            for t in range(steps):
                for q, (j, off, n, shp) in zip(pieces, pmap):
                    q.grad = grads[t][j].flatten()[off:off + n].reshape(shp).clone() if hist[t][j] else None
                ref.step()
                got = lst[0][1][t]
                for q, (j, off, n, shp) in zip(pieces, pmap):
                    a = rg[j][0]
                    mine = got[j][off - a:off - a + n].reshape(shp)
                    if not torch.allclose(mine, q.detach(), rtol=1e-5, atol=1e-6):
                        return (f"step {t + 1}: shard {sr} of parameter {j} differs from serial Shampoo on its recovered piece of shape {shp} "
                                f"(max diff {float((mine - q.detach()).abs().max()):.3e})")
    return None


_HUNG = {"n": 0}


def bounded(tier, seed):
    import random
    rng = random.Random(seed)
    pool = [(7, 3), (5,), (2, 3, 2), (4, 4), (1, 7), (3, 1, 2, 2), (6,), (5, 1), (2, 3, 1, 1), (3, 2, 1)]  # incl. trailing singleton dimensions
    n = 8 if tier == "quick" else 60
    evals, viol, distinct = 0, [], set()
    for k in range(n):
        shapes = [rng.choice(pool) for _ in range(rng.choice([1, 2, 3]))]
        nr = rng.choice([1, 2, 3, 4, 5, 8])
        try:
            bad = native_fsdp(shapes, nr, seed * 100 + k)
        except BaseException as e:  # noqa
            bad = f"raised {type(e).__name__}: {str(e)[:300]}"
        evals += 1
        distinct.add((tuple(shapes), nr, k))
        if bad and len(viol) < 5:
            viol.append(dict(ob=f"bounded/fsdp-vs-serial[{shapes},ranks={nr},seed={seed * 100 + k}]", func="FSDPDistributor", input=dict(shapes=shapes, ranks=nr), text=bad, detail=bad,
                             replay=dict(kind="fsdp_case", shapes=[list(s) for s in shapes], ranks=nr, seed=seed * 100 + k)))
    # HSDP on a 2-D mesh of simulated ranks: replica agreement for every communication setting, equality with serial for FP32
    combos = [(2, 2, -1), (4, 1, 2)] if tier == "quick" else [(2, 2, -1), (3, 2, -1), (4, 1, 2), (4, 2, 2)]
    for (R, S, ntpg), comm, cp in itertools.product(combos, ("f32", "bf16") if tier == "quick" else ("f32", "bf16", "f16"), (False, True)):
        for k in range(1 if tier == "quick" else 2):
            if _HUNG["n"]:
                continue
            try:
                bad = native_hsdp(R, S, ntpg, comm, cp, seed * 10 + k)
            except BaseException as e:  # noqa
                bad = f"raised {type(e).__name__}: {str(e)[:300]}"
            evals += 1
            distinct.add(("hsdp", R, S, ntpg, comm, cp, k))
            if bad and len(viol) < 5:
                viol.append(dict(ob=f"bounded/hsdp[{R}x{S},group={ntpg},{comm},params={cp},seed={seed * 10 + k}]", func="HSDPDistributor", input=dict(mesh=[R, S], num_trainers_per_group=ntpg, comm=comm, communicate_params=cp),
                                 text=bad, detail=bad, replay=dict(kind="hsdp_case", R=R, S=S, ntpg=ntpg, comm=comm, cp=cp, seed=seed * 10 + k)))
    return dict(evaluations=evals, distinct_nontrivial=len(distinct),
                rule="(HSDP: real HSDPDistributor on every rank of replicate x shard meshes of simulated ranks (threads): replicas bit-identical for FP32/BF16 communication x communicate_params on/off, FP32 equal to serial Shampoo on the recovered pieces) + simulated flat-parameter shards (no FSDP wrapper: flat tensors + metadata) for 1..3 parameters of order 1..4 over 1..8 shard ranks incl. mid-row and empty shards, absent gradients: per rank FSDP Shampoo == serial Shampoo on the recovered pieces; across ranks every element updated exactly once; distinct = distinct (shapes, ranks, seed)",
                samples=[dict(shapes=[(7, 3), (5,)], ranks=4)], bound=f"{n} seeded layouts, 3 steps", violations=viol)


def replay(r):
    return replay_file(dict(replay_input=r.get("replay"), verifier_output=dict(model=r.get("model"))))


def replay_file(doc):
    rp = doc.get("replay_input") or {}
    if rp.get("kind") == "commdtype":
        from checks import dist as _D
        bad = _D.native_comm_dtype(rp["copy"])
        return bool(bad), bad or "communication dtype mapping holds on the real constructor"
    if rp.get("kind") == "hsdp_case":
        bad = native_hsdp(rp["R"], rp["S"], rp["ntpg"], rp["comm"], rp["cp"], rp["seed"])
        return bool(bad), f"{rp}: {bad}"
    if rp.get("kind") == "fsdp_case":
        bad = native_fsdp([tuple(s) for s in rp["shapes"]], rp["ranks"], rp["seed"])
        return bool(bad), f"{rp}: {bad}"
    if rp.get("kind") in ("fsdp_native", "metadata"):
        for k, (shapes, nr) in enumerate((([(7, 3), (5,)], 4), ([(2, 3, 2), (4, 4), (1, 7)], 3), ([(6,), (3, 1, 2, 2)], 5), ([(1, 7), (3, 3)], 2))):
            try:
                bad = native_fsdp(shapes, nr, k)
            except BaseException as e:  # noqa
                bad = f"raised {type(e).__name__}: {str(e)[:300]}"
            if bad:
                return True, f"shapes {shapes} over {nr} shard ranks: {bad}"
        return False, "simulated FSDP shards agree with serial Shampoo on the recovered pieces"
    if rp.get("kind") in ("ddp_native", "ctor"):
        # HSDP update / constructor obligations: the real distributor on 2-D meshes of simulated ranks
        for (R, S, ntpg), comm, cp, k in itertools.product(((2, 2, -1), (4, 1, 2), (4, 2, 2)), ("bf16", "f16", "f32"), (True, False), (0, 1)):
            try:
                bad = native_hsdp(R, S, ntpg, comm, cp, k)
            except BaseException as e:  # noqa
                bad = f"raised {type(e).__name__}: {str(e)[:300]}"
            if bad:
                return True, f"mesh {R}x{S} trainers_per_group={ntpg} {comm} communicate_params={cp} seed {k}: {bad}"
        return False, "real HSDP on simulated 2-D meshes: replicas agree and FP32 equals serial on the recovered pieces"
    return False, "no native replayer"


# ---------------------------------------------------------------------------------------------------------
# real HSDP constructor without a process group: torch.distributed and the device mesh are stubs


def _hsdp_ctor_case(case):
    """The real HSDPDistributor.__init__ for every rank of a (replicate x shard) device mesh: the sequence of device-mesh
    (process-group) creations is the same on every rank; the communication group of a rank is its row of the 2-D sub-mesh of its
    replicate column; a rank selects / allocates state for exactly the blocks whose owner equals its rank within that group."""
    import torch
    from distributed_shampoo import shampoo_types as st
    from distributed_shampoo.utils import shampoo_hsdp_distributor as mod
    from torch.distributed.fsdp import ShardingStrategy
    C = mod.HSDPDistributor
    func = "HSDPDistributor.__init__"
    out = []
    for nrep, nshard, ntr in ((2, 2, -1), (4, 2, 2), (4, 1, 2), (6, 2, 3), (3, 2, 1), (4, 2, 4)):
        mesh_t = torch.arange(nrep * nshard).view(nrep, nshard)
        traces, info = {}, {}
        for rank in range(nrep * nshard):
            log = []
            col = rank % nshard

            class MeshObj:
                def __init__(self, mesh, names):
                    self.mesh_tuple = mesh

                def get_group(self, name):
                    # "shard" dim of the 2-D sub-mesh: the row containing this rank
                    rows = [r for r in self.mesh_tuple if rank in r]
                    return ("group", tuple(rows[0]) if rows else None)

            class HMesh:
                device_type = "cpu"
                mesh = mesh_t

                @staticmethod
                def size(d):
                    return mesh_t.shape[d]

                @staticmethod
                def get_local_rank(d):
                    return (rank // nshard) if d == 0 else (rank % nshard)

            def gdm(device_type, mesh, mesh_dim_names=None):
                log.append(tuple(tuple(r) for r in mesh))
                return MeshObj(tuple(tuple(r) for r in mesh), mesh_dim_names)

            class Dist:
                ProcessGroup = object

                @staticmethod
                def is_initialized():
                    return True

                @staticmethod
                def get_rank(group=None):
                    if group is None:
                        return rank
                    return list(group[1]).index(rank)

            shapes = [(4, 2), (6,), (3, 2)]
            params, meta = [], {}
            for j, s in enumerate(shapes):
                n = 1
                for x in s:
                    n *= x
                p = torch.nn.Parameter(torch.zeros(n))
                params.append(p)
                meta[p] = st.FSDPParameterMetadata(fqn=f"p{j}", shape=torch.Size(s), numel=n, start_idx=0, end_idx=n, sharding_strategy=ShardingStrategy.HYBRID_SHARD)
            cfg = st.HSDPShampooConfig(param_to_metadata=meta, device_mesh=HMesh(), num_trainers_per_group=ntr, communication_dtype=st.CommunicationDType.FP32)
            try:
                with rebind([(mod, "dist", Dist), (mod, "get_device_mesh", gdm)]):
                    D = C({st.PARAMS: params, st.MAX_PRECONDITIONER_DIM: 2, st.USE_MERGE_DIMS: False}, cfg)
            except BaseException as e:  # noqa
                info[rank] = f"{type(e).__name__}: {e}"
                traces[rank] = tuple(log)
                continue
            traces[rank] = tuple(log)
            gsize = D._dist_group_size
            col_ranks = [int(x) for x in mesh_t[:, col]]
            pos = col_ranks.index(rank) % gsize
            seg = D._global_dist_buffer.numel() // gsize
            own = [b.storage_offset() * b.element_size() // max(seg, 1) for b in D._global_dist_blocked_buffers]
            ok = tuple(D._distributor_selector) == tuple(o == pos for o in own) and all(bi.group_source_rank == pos for bi in D._local_block_info_list) \
                and len(D._local_block_info_list) == sum(o == pos for o in own) and D._comms_dist_group[1] is not None and rank in D._comms_dist_group[1] \
                and len(D._comms_dist_group[1]) == gsize and set(D._comms_dist_group[1]) <= set(col_ranks)
            info[rank] = (ok, own)
        errs = [v for v in info.values() if isinstance(v, str)]
        same_trace = len(set(traces.values())) == 1
        same_own = len({tuple(v[1]) for v in info.values() if not isinstance(v, str)}) <= 1
        ok = not errs and same_trace and same_own and all(v[0] for v in info.values() if not isinstance(v, str))
        txt = errs[0][:200] if errs else (f"mesh {nrep}x{nshard}, num_trainers_per_group {ntr}: mesh creations equal on all ranks: {same_trace}; assignment equal: {same_own}; "
                                           f"selection/state exactly for the blocks owned by the rank's position in its communication group: {all(v[0] for v in info.values() if not isinstance(v, str))}")
        out.append(result(f"{func}/collective-trace-rank-independent;selection-for-owned-blocks[{case}/{nrep}x{nshard}/t{ntr}]", func, "discharged" if ok else "violated",
                          backend="concrete-execution of the real constructor (torch.distributed / DeviceMesh stubbed), all ranks", case=case, text=txt, replay=dict(kind="fsdp_native")))
    return out
