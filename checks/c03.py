"""C03 — eigenvalue-corrected Shampoo (SOAP) is Adam run in a valid factor eigenbasis.

Engine E2 on the real `EigenvalueCorrectedShampooPreconditionerList` (checks/plist.py): order of effects
factor update -> (refresh) basis -> corrected eigenvalues in the NEW basis; rotate / divide / rotate-back pairing;
bases change only on the schedule; ignored dims never multiplied; orders 1..4 x every ignored-dims subset.
The dtype discipline of the QR path (stored basis in parameter precision, factor in preconditioner precision) is an
obligation on the real `_compute_orthogonal_iterations`.  Orthonormality / diagonalisation rest on the assumed
LAPACK contracts (C12) and are sampled natively (bounded).
"""
from __future__ import annotations

import z3

from vlib.driver import prove, result
from vlib.sym import Explorer, SymBool, SymInt, SymReal, assume
from vlib.tensor import ARR, FakeTorch, SymTensor, rebind
from checks import plist

PROP = "C03"
LEVEL = "proof"
FUNCS = [
    ("distributed_shampoo/utils/shampoo_preconditioner_list.py", "EigenvalueCorrectedShampooPreconditionerList.update_preconditioners"),
    ("distributed_shampoo/utils/shampoo_preconditioner_list.py", "EigenvalueCorrectedShampooPreconditionerList._update_eigenvalue_corrections"),
    ("distributed_shampoo/utils/shampoo_preconditioner_list.py", "EigenvalueCorrectedShampooPreconditionerList.precondition"),
    ("distributed_shampoo/utils/shampoo_preconditioner_list.py", "EigenvalueCorrectedShampooPreconditionerList._amortized_computation"),
    ("distributed_shampoo/utils/shampoo_preconditioner_list.py", "EigenvalueCorrectedShampooPreconditionerList._create_kronecker_factors_state_for_block"),
    ("distributed_shampoo/utils/shampoo_preconditioner_list.py", "BaseShampooPreconditionerList._update_factor_matrices"),
    ("distributed_shampoo/utils/shampoo_preconditioner_list.py", "BaseShampooPreconditionerList._precondition_grad"),
    ("matrix_functions.py", "_compute_orthogonal_iterations"),
    ("matrix_functions.py", "check_diagonal"),
    ("matrix_functions.py", "matrix_eigenvectors"),
]
TRUSTED = [
    "matrix_eigenvectors by contract [M] (C12): returns an orthonormal basis that diagonalises A (eigh) / is the orthogonal-iteration update of the estimate (QR) — orthonormality itself rests on the assumed LAPACK eigh/qr contracts and is only sampled natively",
    "tensordot / permute uninterpreted per structural signature; that rotate-back (contracting the second index of the same Q_k) inverts rotate for orthonormal Q_k is the textbook identity Q Q^T = I (cited), validated natively",
    "machine arithmetic treated as mathematical; x**(1/root) uninterpreted",
    "scope: basis validity under tolerated *failed* computations is C13's subject",
]
ASSUMPTIONS = ["beta2 in (0,1], epsilon > 0, inverse-root override entries >= 1"]
EXPLANATION = "post-state of factor matrices, eigenbases and corrected eigenvalues and the returned direction of the real SOAP list equal the documented recurrences on every feasible path, orders 1..4, every ignored-dims subset, all values"


def cases(tier):
    import itertools
    cs = plist.eig_cases(tier)
    for pd, fd in itertools.product(("bf16", "f32", "f64"), repeat=2):
        cs.append(f"qr/dtype/{pd}-{fd}")
    cs.append("contract/check_diagonal")
    cs.append("contract/qr-loop")  # the QR method's loop contract (C12), re-discharged: the stored basis is the orthogonal-iteration update for ANY budget / tolerance
    return cs


_DT = None


def _dt(name):
    import torch
    return dict(bf16=torch.bfloat16, f32=torch.float32, f64=torch.float64)[name]


def _qr_dtype_case(case):
    """The real matrix_eigenvectors/_compute_orthogonal_iterations with a QRConfig must accept a factor matrix in the
    preconditioner dtype together with a previous basis stored in the parameter dtype (C03's dtype quantifier)."""
    import matrix_functions as mf
    from matrix_functions_types import QRConfig

    pd, fd = case.split("/")[2].split("-")
    pdt, fdt = _dt(pd), _dt(fd)
    func = "_compute_orthogonal_iterations"
    out = []
    for iters in (1, 2):
        def fn():
            n = SymInt("n")
            A = SymTensor.array("A", dtype=fdt, shape=(n, n))
            Q0 = SymTensor.array("Q0", dtype=pdt, shape=(n, n))
            tol = SymReal("qr_tolerance")
            assume(tol.t >= 0)
            fake = FakeTorch()
            with rebind([(mf, "torch", fake)]):
                return mf.matrix_eigenvectors(A, eigenvectors_estimate=Q0, eigenvector_computation_config=QRConfig(max_iterations=iters, tolerance=tol),
                                              is_diagonal=False), fake.linalg_log

        paths = Explorer().run(fn)
        bad = [p for p in paths if p.outcome != "return"]
        aborts = [p for p in paths if p.outcome == "abort"]
        st = "unknown" if aborts else ("violated" if bad else "discharged")
        msg = "; ".join(sorted({f"{type(p.value).__name__}: {p.value}" for p in bad}))[:300]
        out.append(result(f"{func}/accepts-basis-in-parameter-dtype[{case}/it{iters}]", func, st, backend="path-enumeration + dtype theory",
                          text=f"factor dtype {fd}, stored basis dtype {pd}: no path raises" + (f" — got {msg}" if msg else ""), case=case,
                          model=dict(param_dtype=pd, factor_dtype=fd, max_iterations=iters),
                          replay=dict(kind="qr_dtype", pd=pd, fd=fd, iters=iters), extra=dict(known_candidate="F2" if bad and not aborts else None)))
        for pi, p in enumerate(paths):
            if p.outcome == "return":
                Q, log = p.value
                nqr = len([e for e in log if e[0] == "qr"])
                neigh = len([e for e in log if e[0] == "eigh"])
                if neigh == 0 and nqr == 0:  # only the 1x1 fast path may skip both
                    out.append(prove(f"{func}/no-decomposition-only-for-1x1[{case}/it{iters}]#p{pi}", "matrix_eigenvectors", p.cond(),
                                     z3.Int("n") * z3.Int("n") == 1, model_vars=dict(n=z3.Int("n")), case=case,
                                     text="neither eigh nor qr is called only when the matrix has a single element"))
                    continue
                ok = (neigh == 1 and nqr == 0) or (neigh == 0 and 1 <= nqr <= iters)
                out.append(result(f"{func}/zero-estimate=>eigh-else-1..max-qr-updates[{case}/it{iters}]#p{pi}", func, "discharged" if ok else "violated",
                                  backend="call-log", case=case, text=f"{neigh} eigh, {nqr} qr updates", model=dict(eigh=neigh, qr=nqr)))
    return out


def run_case(case, tier, seed):
    if case == "contract/check_diagonal":
        from checks import mf
        return mf.run_checkdiag(case)
    if case == "contract/qr-loop":
        from checks import mf
        return mf.run_qr_loop(case)
    if case.startswith("plist/"):
        return plist.run_list_case(case, tier, PROP)
    return _qr_dtype_case(case)


def _native_qr_dtype(pd, fd, iters=1):
    import torch
    import matrix_functions as mf
    from matrix_functions_types import QRConfig
    torch.manual_seed(0)
    B = torch.randn(4, 4, dtype=torch.float64)
    A = (B @ B.T).to(_dt(fd))
    Q0 = torch.linalg.eigh((B @ B.T))[1].to(_dt(pd))
    try:
        Q = mf.matrix_eigenvectors(A, eigenvectors_estimate=Q0, eigenvector_computation_config=QRConfig(max_iterations=iters))
    except BaseException as e:  # noqa
        return True, f"matrix_eigenvectors(A:{fd}, estimate:{pd}, QRConfig) raised {type(e).__name__}: {e}"
    return False, f"accepted; result dtype {Q.dtype}"


def replay(r):
    return replay_file(dict(replay_input=r.get("replay"), verifier_output=dict(model=r.get("model"))))


def replay_file(doc):
    rp = doc.get("replay_input") or {}
    if rp.get("kind") == "qr_frame":
        from checks import mf as _mf
        bad = _mf.native_qr_frame()
        return bool(bad), bad or "the QR method does not write its inputs"
    if rp.get("kind") == "eigvec":
        from checks import mf
        bad = mf.native_qr_rule()
        return bool(bad), bad or "QR method follows the documented relative-change stopping rule"
    if rp.get("kind") == "checkdiag":
        from checks import mf
        bad = mf.native_checkdiag()
        return bool(bad), bad or "check_diagonal is exact on tiny off-diagonal entries"
    if rp.get("kind") == "qr_dtype":
        return _native_qr_dtype(rp["pd"], rp["fd"], rp.get("iters", 1))
    if rp.get("kind") == "plist":
        return plist.replay_plist(rp, (doc.get("verifier_output") or {}).get("model") or {})
    if rp.get("kind") == "native_case":
        cfgd, bad = plist.native_case(rp["case"], rp["seed"])
        return bool(bad), f"{cfgd}: {bad}"
    return False, "no native replayer"


def bounded(tier, seed):
    n = 2 if tier == "quick" else 12
    evals, viol, samples, distinct = 0, [], [], set()
    for c in plist.eig_cases("quick"):
        for k in range(n):
            cfgd, bad = plist.native_case(c, seed * 100 + k, steps=4)
            evals += 1
            distinct.add(repr(cfgd))
            if len(samples) < 3:
                samples.append(cfgd)
            if bad:
                viol.append(dict(ob=f"bounded/soap-list[{c},seed={seed * 100 + k}]", func="EigenvalueCorrectedShampooPreconditionerList", input=cfgd,
                                 text="real SOAP list deviates from the documented recurrences / basis not orthonormal-diagonalising", detail="; ".join(bad[:2]),
                                 replay=dict(kind="native_case", case=c, seed=seed * 100 + k)))
    # "the orthogonal-iteration update of the previous basis (QR with ANY iteration count / tolerance)": the public entry point must hand the
    # configured budget and tolerance on to the iteration (float64 re-implementation of the documented stopping rule)
    from checks import mf as _mf
    bad = _mf.native_qr_rule()
    evals += 1
    distinct.add(("qr-stopping-rule",))
    if bad:
        viol.append(dict(ob="bounded/qr-stopping-rule", func="matrix_eigenvectors", input=dict(budgets=[2, 3, 5]), text=bad, detail=bad, replay=dict(kind="eigvec")))
    return dict(evaluations=evals, distinct_nontrivial=len(distinct),
                rule="real SOAP list on random float64 tensors (orders 1..4, extents 1..3, every ignored-dims subset, beta2 in {1,.9,.5}) for 4 steps with 2 refreshes against einsum/eigh definitions incl. orthonormality and diagonalisation of stored bases; distinct = distinct configurations",
                samples=samples, bound=f"{n} seeds per (order, ignored dims, override kind)", violations=viol[:5])
