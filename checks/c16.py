"""C16 — state-dict flatten/unflatten and module state round-trip losslessly.

Structural induction by contract (engine E2 with code-object extraction, as in C15): the nested recursive functions
`flatten_with_parent_keys` (in flatten), `save_to_state_dict` (in OptimizerModule.state_dict) and
`load_from_new_state_to_old_state` (in load_state_dict) are rebuilt from the REAL code objects, their closure cell for
themselves is bound to a contract stub, and one level is executed for every combination of child kinds (up to three children)
with OPAQUE keys and tensors — so the obligations hold for any string/integer keys, under the assumed json contract
(dumps injective on key lists, loads(dumps(x)) == x), which is validated against CPython's json natively.
  flatten level:   result = { dumps(parent ++ [k]) -> leaf_k } + the recursive results of the sub-dictionaries called with
                   parent ++ [k]; nothing overwritten; leaves are the same tensor objects.
  unflatten:       executed on flat dictionaries with opaque paths (entry count <= 4, shared prefixes): result is the trie of
                   the paths with the same leaf objects.
  state_dict level / load level: tensor -> detached alias / in-place copy_ returning the SAME object; module -> its own
                   state_dict/load_state_dict; dict/list/tuple -> recursion on every element; containers rebuilt with the same tensors.
Sub-dictionaries without leaves are dropped by flatten (unflatten∘flatten = prune): checked on the level obligation (an empty
recursive result contributes nothing).  Whole-structure round trips are sampled exhaustively on small trees (bounded).
"""
from __future__ import annotations

import itertools
import types

from vlib.driver import result
from vlib.sym import ShadowAbort
from vlib.tensor import rebind

PROP = "C16"
LEVEL = "proof"
FUNCS = [
    ("distributed_shampoo/utils/shampoo_checkpoint_utils.py", "flatten"),
    ("distributed_shampoo/utils/shampoo_checkpoint_utils.py", "unflatten"),
    ("optimizer_modules.py", "OptimizerModule.state_dict"),
    ("optimizer_modules.py", "OptimizerModule.load_state_dict"),
]
TRUSTED = [
    "ASSUMED json contract: json.dumps is injective on lists of str/int keys and json.loads(json.dumps(x)) == x with key types preserved (validated natively against CPython's json on adversarial keys: separators, quotes, brackets, '1' vs 1)",
    "structural induction: the contract of the nested function is assumed at its recursive calls; one level is executed for every combination of child kinds with at most three children (the code iterates children uniformly)",
    "keys and tensors are opaque tokens (the code only hashes / compares keys and calls detach/copy_ on tensors)",
    "whole-structure round trips (unflatten(flatten(d)) == prune(d), load reproduces every tensor in place) are BOUNDED: exhaustive trees to depth 3 / width 2 over adversarial keys plus seeded random module graphs",
]
ASSUMPTIONS = ["keys are strings or integers; leaves are tensors"]
EXPLANATION = "one recursion level of each real nested function against its contract for every child-kind combination (opaque keys/tensors), unflatten on opaque paths; json contract assumed and validated natively"


class K:
    """opaque key"""
    _n = itertools.count()

    def __init__(self):
        self.i = next(K._n)

    def __repr__(self):
        return f"k{self.i}"


class Enc:
    """json.dumps by contract: an injective encoding of the key list"""

    def __init__(self, keys):
        self.keys = tuple(keys)

    def __hash__(self):
        return hash(tuple(id(k) for k in self.keys))

    def __eq__(self, o):
        return isinstance(o, Enc) and len(o.keys) == len(self.keys) and all(a is b for a, b in zip(self.keys, o.keys))

    def __repr__(self):
        return f"Enc{self.keys}"


class JsonStub:
    calls = 0

    @staticmethod
    def dumps(x):
        if not isinstance(x, list):
            raise ShadowAbort("json.dumps of a non-list")
        return Enc(x)

    @staticmethod
    def loads(s):
        if not isinstance(s, Enc):
            raise ShadowAbort("json.loads of a key that was not produced by json.dumps")
        return list(s.keys)


class Leaf:
    """opaque tensor"""

    def __repr__(self):
        return f"leaf{id(self) % 1000}"


class SubDict(dict):
    """abstract sub-dictionary (contents irrelevant: handled by the recursive contract)"""
    __hash__ = object.__hash__


class Marker:
    def __init__(self, sub, prefix):
        self.sub, self.prefix = sub, tuple(prefix)

    def __hash__(self):
        return id(self)


def _nested(outer, name):
    code = [c for c in outer.__code__.co_consts if isinstance(c, types.CodeType) and c.co_name == name]
    if len(code) != 1:
        raise ShadowAbort(f"nested function {name} not found")
    return code[0]


def cases(tier):
    return ["flatten/level", "unflatten/paths", "state_dict/level", "load/level", "json/contract"]


def _flatten_case(case):
    import distributed_shampoo.utils.shampoo_checkpoint_utils as cu
    func = "flatten.flatten_with_parent_keys"
    code = _nested(cu.flatten, "flatten_with_parent_keys")
    out = []
    for plen in (0, 2):
        for k in range(0, 4):
            for kinds in itertools.product(("leaf", "dict", "emptydict"), repeat=k):
                parent = [K() for _ in range(plen)]
                keys = [K() for _ in range(k)]
                vals = [Leaf() if kd == "leaf" else SubDict() for kd in kinds]
                calls = []

                def stub(input_dict, parent_keys):
                    calls.append((input_dict, list(parent_keys)))
                    idx = [i for i, v in enumerate(vals) if v is input_dict][0]
                    if kinds[idx] == "emptydict":
                        return {}  # contract: a sub-dictionary without leaves flattens to nothing
                    return {Marker(input_dict, parent_keys): "SUB"}

                cells = []
                for nm in code.co_freevars:
                    if nm != "flatten_with_parent_keys":
                        raise ShadowAbort(f"unexpected free variable {nm}")
                    cells.append(types.CellType(stub))
                fn = types.FunctionType(code, cu.flatten.__globals__, "flatten_with_parent_keys", None, tuple(cells))
                d = dict(zip(keys, vals))
                tag = f"[{case}/p{plen}/{'-'.join(kinds) or 'empty'}]"
                try:
                    with rebind([(cu, "json", JsonStub)]):
                        res = fn(input_dict=d, parent_keys=list(parent))
                except ShadowAbort as e:
                    out.append(result(f"{func}/level{tag}", func, "violated", backend="concrete-execution on opaque keys", case=case,
                                      text=f"a flat key was not produced by json.dumps(parent_keys + [key]): {e}", replay=dict(kind="tree")))
                    continue
                except BaseException as e:  # noqa
                    out.append(result(f"{func}/level{tag}", func, "violated", backend="concrete-execution on opaque keys", case=case,
                                      text=f"{type(e).__name__}: {e}", replay=dict(kind="tree")))
                    continue
                exp_leaf = {Enc(parent + [keys[i]]): vals[i] for i in range(k) if kinds[i] == "leaf"}
                got_leaf = {kk: v for kk, v in res.items() if isinstance(kk, Enc)}
                got_mark = [kk for kk in res if isinstance(kk, Marker)]
                ok = isinstance(res, dict) and len(res) == len(exp_leaf) + sum(1 for kd in kinds if kd == "dict")
                ok = ok and got_leaf.keys() == exp_leaf.keys() and all(got_leaf[a] is exp_leaf[a] for a in exp_leaf)
                want_calls = [(vals[i], parent + [keys[i]]) for i in range(k) if kinds[i] != "leaf"]
                ok = ok and len(calls) == len(want_calls) and all(c[0] is w[0] and len(c[1]) == len(w[1]) and all(x is y for x, y in zip(c[1], w[1])) for c, w in zip(calls, want_calls))
                ok = ok and len(got_mark) == sum(1 for kd in kinds if kd == "dict")
                ok = ok and len(parent) == plen  # parent_keys not mutated
                out.append(result(f"{func}/level{tag}", func, "discharged" if ok else "violated", backend="concrete-execution on opaque keys", case=case,
                                  text="leaves keyed by dumps(parent ++ [key]) (same objects), sub-dictionaries flattened recursively under parent ++ [key], leaf-less ones contribute nothing, no entry overwritten",
                                  replay=dict(kind="tree")))
    return out


def _unflatten_case(case):
    import distributed_shampoo.utils.shampoo_checkpoint_utils as cu
    func = "unflatten"
    out = []
    a, b, c, d, e, f, g = (K() for _ in range(7))
    families = [
        [],
        [(a,)],
        [(a,), (b,)],
        [(a, b), (a, c)],
        [(a, b, c), (a, b, d), (a, e), (f,)],
        [(a, b), (c, b), (c, d, e)],
        [(g, a, b, c)],
    ]
    for fi, paths in enumerate(families):
        leaves = [Leaf() for _ in paths]
        flat = {Enc(list(p)): l for p, l in zip(paths, leaves)}
        try:
            with rebind([(cu, "json", JsonStub)]):
                res = cu.unflatten(flat)
        except BaseException as ex:  # noqa
            out.append(result(f"{func}/trie-of-paths[{case}/F{fi}]", func, "violated", backend="concrete-execution on opaque keys", case=case, text=f"{type(ex).__name__}: {ex}",
                              replay=dict(kind="tree")))
            continue
        ok = True
        for p, l in zip(paths, leaves):
            cur = res
            for key in p[:-1]:
                cur = cur.get(key) if isinstance(cur, dict) else None
                if cur is None:
                    break
            ok = ok and isinstance(cur, dict) and cur.get(p[-1]) is l

        def count(dd):
            return sum(count(v) if isinstance(v, dict) else 1 for v in dd.values())

        ok = ok and count(res) == len(paths) and len(flat) == len(paths)
        out.append(result(f"{func}/trie-of-paths[{case}/F{fi}]", func, "discharged" if ok else "violated", backend="concrete-execution on opaque keys", case=case,
                          text="result nests every leaf object under its decoded key path; no other entries; input not modified", replay=dict(kind="tree")))
    return out


class TProxy:
    """opaque tensor for the module functions: must be a real torch.Tensor instance for isinstance checks"""


def _module_level_cases(case):
    import torch
    import optimizer_modules as om
    out = []
    which = case.split("/")[0]
    if which == "state_dict":
        func = "OptimizerModule.state_dict.save_to_state_dict"
        code = _nested(om.OptimizerModule.state_dict, "save_to_state_dict")
        kinds_all = ("tensor", "module", "dict", "list", "tuple", "int")
        for keep_vars, store in itertools.product((False, True), repeat=2):
            for kinds in itertools.chain(itertools.product(kinds_all, repeat=1), itertools.product(kinds_all, repeat=2)):
                keys = [K() for _ in kinds]
                calls, mcalls = [], []

                class Mod(om.OptimizerModule):
                    def state_dict(self_, destination=None, keep_vars=False, store_non_tensors=False):
                        mcalls.append((self_, destination, keep_vars, store_non_tensors))
                        return destination

                vals = []
                for kd in kinds:
                    vals.append(dict(tensor=lambda: torch.zeros(2, requires_grad=True), module=lambda: Mod(), dict=lambda: {K(): 1}, list=lambda: [1, 2], tuple=lambda: (1, 2),
                                     int=lambda: 7)[kd]())

                def stub(states, destination):
                    calls.append((list(states), destination))

                cells = []
                for nm in code.co_freevars:
                    known = dict(keep_vars=keep_vars, store_non_tensors=store, save_to_state_dict=stub)
                    if nm not in known:
                        raise ShadowAbort(f"unexpected free variable {nm} of the nested function save_to_state_dict")
                    cells.append(types.CellType(known[nm]))
                fn = types.FunctionType(code, om.OptimizerModule.state_dict.__globals__, "save_to_state_dict", None, tuple(cells))
                dest = {}
                tag = f"[{case}/kv{int(keep_vars)}s{int(store)}/{'-'.join(kinds)}]"
                try:
                    fn(states=list(zip(keys, vals)), destination=dest)
                except BaseException as ex:  # noqa
                    out.append(result(f"{func}/level{tag}", func, "violated", backend="concrete-execution", case=case, text=f"{type(ex).__name__}: {ex}", replay=dict(kind="module")))
                    continue
                ok = True
                ci = mi = 0
                for key, kd, v in zip(keys, kinds, vals):
                    if kd == "tensor":
                        got = dest.get(key)
                        ok = ok and isinstance(got, torch.Tensor) and got.data_ptr() == v.data_ptr() and (got is v if keep_vars else not got.requires_grad)
                    elif kd == "module":
                        ok = ok and isinstance(dest.get(key), dict) and mi < len(mcalls) and mcalls[mi][0] is v and mcalls[mi][1] is dest[key] and mcalls[mi][2] == keep_vars and mcalls[mi][3] == store
                        mi += 1
                    elif kd in ("dict", "list", "tuple"):
                        want = list(v.items()) if kd == "dict" else list(enumerate(v))
                        ok = ok and isinstance(dest.get(key), dict) and ci < len(calls) and calls[ci][0] == want and calls[ci][1] is dest[key]
                        ci += 1
                    else:
                        ok = ok and ((dest.get(key) == 7) if store else key not in dest)
                ok = ok and ci == len(calls) and mi == len(mcalls)
                out.append(result(f"{func}/level{tag}", func, "discharged" if ok else "violated", backend="concrete-execution", case=case,
                                  text="tensor -> (detached) alias under its key; nested module -> its own state_dict into a fresh sub-dict; dict/list/tuple -> recursion over items / enumerate; non-tensors only with store_non_tensors",
                                  replay=dict(kind="module")))
        return out
    func = "OptimizerModule.load_state_dict.load_from_new_state_to_old_state"
    code = _nested(om.OptimizerModule.load_state_dict, "load_from_new_state_to_old_state")
    for store in (False, True):
        calls, mcalls = [], []

        class Mod(om.OptimizerModule):
            def load_state_dict(self_, state_dict, store_non_tensors=False):
                mcalls.append((self_, state_dict, store_non_tensors))

        def mk(kd):
            return dict(tensor=lambda: torch.zeros(2), module=lambda: Mod(), dict=lambda: {"a": torch.zeros(1)}, list=lambda: [torch.zeros(1)], tuple=lambda: (torch.zeros(1),), int=lambda: 7)[kd]()

        def stub(old_state, new_state):
            calls.append((old_state, new_state))
            return old_state

        def build():
            known = dict(store_non_tensors=store, load_from_new_state_to_old_state=stub)
            for nm in code.co_freevars:
                if nm not in known:
                    raise ShadowAbort(f"unexpected free variable {nm} of the nested function load_from_new_state_to_old_state")
            cells = [types.CellType(known[nm]) for nm in code.co_freevars]
            return types.FunctionType(code, om.OptimizerModule.load_state_dict.__globals__, "load_from_new_state_to_old_state", None, tuple(cells))

        # tensor: in-place copy, same object returned
        old, new = torch.zeros(3), torch.arange(3.0)
        r = build()(old_state=old, new_state=new)
        ok = r is old and torch.equal(old, new)
        out.append(result(f"{func}/tensor-copied-in-place[{case}/s{int(store)}]", func, "discharged" if ok else "violated", backend="concrete-execution", case=case,
                          text="old tensor object receives copy_ of the new value and is returned (identity preserved)", replay=dict(kind="module")))
        # tensor with a memory layout that cannot be flattened without copying (transposed / column slice): the values must still land IN the old tensor
        for mk_old in (lambda: torch.zeros(3, 2).t(), lambda: torch.zeros(3, 4)[:, 1:3], lambda: torch.zeros(2, 3, 2).permute(2, 0, 1), lambda: torch.zeros(6)[::2]):
            old = mk_old()
            new = torch.arange(float(old.numel())).reshape(old.shape) + 1.0
            try:
                r = build()(old_state=old, new_state=new)
                ok = r is old and torch.equal(old, new)
            except BaseException:  # noqa
                ok = False
            out.append(result(f"{func}/non-contiguous-tensor-copied-in-place[{case}/s{int(store)}/{tuple(old.shape)}-{tuple(old.stride())}]", func, "discharged" if ok else "violated",
                              backend="concrete-execution", case=case, text="a transposed / permuted / sliced old tensor receives the new values in place (identity preserved, values reproduced)",
                              replay=dict(kind="noncontig")))
        # module
        m, sd = Mod(), {"x": 1}
        del mcalls[:]
        r = build()(old_state=m, new_state=sd)
        ok = r is m and mcalls == [(m, sd, store)]
        out.append(result(f"{func}/module-delegates-to-its-load_state_dict[{case}/s{int(store)}]", func, "discharged" if ok else "violated", backend="concrete-execution", case=case,
                          text="nested module loads its own sub-dictionary with the same store_non_tensors flag", replay=dict(kind="module")))
        # dict: every key of old present in new is recursed with (old[key], new[key]) and re-bound to the returned (same) object
        for kinds in itertools.product(("tensor", "module", "dict", "list", "tuple", "int"), repeat=2):
            del calls[:]
            oldd = {f"k{i}": mk(kd) for i, kd in enumerate(kinds)}
            vals = dict(oldd)
            newd = {f"k{i}": object() for i in range(len(kinds))}
            r = build()(old_state=oldd, new_state=newd)
            ok = r is oldd and len(calls) == len(kinds) and all(c[0] is vals[f"k{i}"] and c[1] is newd[f"k{i}"] for i, c in enumerate(calls)) and all(oldd[k] is vals[k] for k in vals)
            out.append(result(f"{func}/dict-recurses-into-every-entry[{case}/s{int(store)}/{'-'.join(kinds)}]", func, "discharged" if ok else "violated", backend="concrete-execution",
                              case=case, text="every entry of the old dictionary is loaded from the entry with the same key; the dictionary object and its values' identities are kept",
                              replay=dict(kind="module")))
        # list / tuple: every element that can hold state is recursed with (old[i], new[i]); container rebuilt with the returned objects
        for cont in (list, tuple):
            for kinds in itertools.product(("tensor", "module", "dict", "list", "tuple", "int"), repeat=2):
                del calls[:]
                elems = [mk(kd) for kd in kinds]
                oldc = cont(elems)
                newc = {i: object() for i in range(len(kinds))}
                r = build()(old_state=oldc, new_state=newc)
                want = [i for i, kd in enumerate(kinds) if store or kd != "int"]
                ok = isinstance(r, cont) and len(r) == len(elems) and all(x is y for x, y in zip(r, elems))
                ok = ok and len(calls) == len(want) and all(c[0] is elems[i] and c[1] is newc[i] for c, i in zip(calls, want))
                out.append(result(f"{func}/sequence-recurses-into-every-stateful-element[{case}/s{int(store)}/{cont.__name__}/{'-'.join(kinds)}]", func,
                                  "discharged" if ok else "violated", backend="concrete-execution", case=case,
                                  text="tensors, dicts, lists, tuples, sets and modules inside a list/tuple are loaded from the entry with the same index; the rebuilt container holds the same objects",
                                  replay=dict(kind="module")))
        # an entry that the state to load does not hold (flatten() drops leaf-less sub-dictionaries, so a round-tripped state dict lacks them):
        # "restoring state never depends on them" — the element is left as it is, nothing raises, the other elements are still loaded
        for cont in (dict, list, tuple):
            for kd in ("module", "dict", "list", "tuple"):
                del calls[:]
                leafless = dict(module=lambda: Mod(), dict=lambda: {}, list=lambda: [], tuple=lambda: ())[kd]()
                t = torch.zeros(1)
                elems = [leafless, t]
                oldc = {0: leafless, 1: t} if cont is dict else cont(elems)
                newc = {1: object()}
                try:
                    r = build()(old_state=oldc, new_state=newc)
                    got = [r[0], r[1]]
                    ok = isinstance(r, cont) and got[0] is leafless and got[1] is t and len(calls) == 1 and calls[0][0] is t and calls[0][1] is newc[1]
                    why = ""
                except BaseException as ex:  # noqa
                    ok, why = False, f" — raised {type(ex).__name__}: {ex}"
                out.append(result(f"{func}/absent-leaf-less-entry-is-not-needed[{case}/s{int(store)}/{cont.__name__}/{kd}]", func,
                                  "discharged" if ok else "violated", backend="concrete-execution", case=case,
                                  text="an element without any tensor whose entry is absent from the state to load (dropped by flatten) is kept as is, nothing raises, the remaining elements are loaded" + why,
                                  replay=dict(kind="pruned")))
    return out


ADVERSARIAL = ["a", "a.b", 'q"uote', "[1]", "1", 1, 0, '["x"]', "a,b", "\\", "", "ü", " ", "a\nb", '"', "null", "true"]


def _json_case(case):
    import json
    func = "flatten"
    n, bad = 0, None
    seen = {}
    for L in range(0, 4):
        for keys in itertools.product(ADVERSARIAL[:9] if L == 3 else ADVERSARIAL, repeat=L):
            lst = list(keys)
            s = json.dumps(lst)
            n += 1
            back = json.loads(s)
            if back != lst or [type(x) for x in back] != [type(x) for x in lst]:
                bad = f"loads(dumps({lst!r})) = {back!r}"
            tkey = tuple((type(x).__name__, x) for x in lst)
            if s in seen and seen[s] != tkey:
                bad = f"dumps not injective: {seen[s]} and {tkey} -> {s}"
            seen[s] = tkey
    return [result(f"{func}/assumed-json-contract-validated-natively[{case}]", func, "discharged" if not bad else "violated", kind="auxiliary", backend=f"CPython json, {n} key lists", case=case,
                   text=bad or "dumps injective and loads(dumps(x)) == x with key types preserved on adversarial key lists up to length 3")]


def run_case(case, tier, seed):
    if case.startswith("flatten/"):
        return _flatten_case(case)
    if case.startswith("unflatten/"):
        return _unflatten_case(case)
    if case.startswith("json/"):
        return _json_case(case)
    return _module_level_cases(case)


# ---- bounded: whole-structure round trips ----------------------------------------------------------------


def _trees(depth, width, keys):
    """all nested dicts to `depth` with 0..width children per node; leaves are marked 'T'"""
    if depth == 0:
        return ["T"]
    subs = _trees(depth - 1, width, keys)
    out = ["T", {}]
    for w in range(1, width + 1):
        for ks in itertools.combinations(keys, w):
            for vs in itertools.product(subs, repeat=w):
                out.append(dict(zip(ks, vs)))
    return out


def _prune(d):
    if not isinstance(d, dict):
        return d
    r = {}
    for k, v in d.items():
        pv = _prune(v)
        if not (isinstance(pv, dict) and not pv):
            r[k] = pv
    return r


def _same(a, b):
    if isinstance(a, dict) != isinstance(b, dict):
        return False
    if not isinstance(a, dict):
        return a is b
    return list(map(lambda k: (type(k), k), a.keys())) == list(map(lambda k: (type(k), k), b.keys())) and all(_same(a[k], b[k]) for k in a)


def native_tree_roundtrip(tier):
    import torch
    from distributed_shampoo.utils.shampoo_checkpoint_utils import flatten, unflatten
    keysets = [["a", "b"], ['q"uote', "[1]"], ["1", 1], ["a.b", '["a", "b"]'], ["", " "], [0, "0"]]
    n = 0
    for keys in keysets:
        for t in _trees(2 if tier == "quick" else 3, 2, keys):
            if not isinstance(t, dict):
                continue

            def mat(x):
                return torch.zeros(1) if x == "T" else {k: mat(v) for k, v in x.items()}

            d = mat(t)
            n += 1
            if n % 7 == 3:
                # the functions must have no memory: a call that fails on an out-of-domain input (a key json cannot encode, at depth >= 1)
                # must not change what later calls on valid inputs return
                try:
                    flatten({"outer": {"inner": {torch.float32: torch.zeros(1)}}})
                except BaseException:  # noqa
                    pass
                try:
                    unflatten({"not json": torch.zeros(1)})
                except BaseException:  # noqa
                    pass
            try:
                f = flatten(d)
                u = unflatten(f)
            except BaseException as e:  # noqa
                return n, f"keys {keys} tree {t}: {type(e).__name__}: {e}"

            def leaves(x, path=()):
                if not isinstance(x, dict):
                    return [(path, x)]
                return [l for k, v in x.items() for l in leaves(v, path + ((type(k).__name__, k),))]

            lv = leaves(d)
            if len(f) != len(lv):
                return n, f"keys {keys} tree {t}: {len(lv)} leaves but {len(f)} flat keys (distinct paths collided)"
            if not _same(u, _prune(d)):
                return n, f"keys {keys} tree {t}: unflatten(flatten(d)) != d without its leaf-less sub-dictionaries"
    return n, None


def native_shared_and_reordered():
    """(a) a container object referenced from two places of one module: state_dict holds the tensors along BOTH paths and loading reproduces
    them; (b) loading does not depend on the insertion order of an index-keyed sub-dictionary (flat entries handed back sorted / reversed)."""
    import torch
    from optimizer_modules import OptimizerModule
    from distributed_shampoo.utils.shampoo_checkpoint_utils import flatten, unflatten

    class M(OptimizerModule):
        pass

    def build(off):
        m = M()
        shared_d = {"u": torch.arange(3.0) + off, "v": [torch.ones(2) * (off + 1)]}
        shared_l = [torch.zeros(2) + off, torch.ones(2) + off]
        shared_t = (torch.full((2,), 5.0 + off),)
        m.a, m.b = shared_d, shared_d
        m.c, m.d = shared_l, {"inner": shared_l, "again": shared_t}
        m.e = shared_t
        m.seq = [torch.full((2,), float(i) + off) for i in range(12)]
        return m

    src, dst = build(10.0), build(0.0)
    sd = src.state_dict()

    def count(d):
        return sum(count(v) if isinstance(v, dict) else (1 if isinstance(v, torch.Tensor) else 0) for v in d.values())

    want = 2 * 3 + 2 + 2 + 1 + 1 + 12  # a,b: (u, v[0]) each -> counted per path: a:2? see below
    # per path: a -> {u, v:{0}} = 2 tensors, b -> 2, c -> 2, d.inner -> 2, d.again -> 1, e -> 1, seq -> 12
    want = 2 + 2 + 2 + 2 + 1 + 1 + 12
    if count(sd) != want:
        return f"a container referenced from two places: state_dict holds {count(sd)} tensors, {want} are reachable through the attributes (both paths must be saved)"
    for order in ("sorted", "reversed", "asis"):
        flat = flatten(sd)
        items = list(flat.items())
        items = sorted(items, key=lambda kv: kv[0]) if order == "sorted" else (items[::-1] if order == "reversed" else items)
        dst = build(0.0)
        dst.load_state_dict(unflatten(dict(items)))
        for i in range(12):
            if not torch.equal(dst.seq[i], src.seq[i]):
                return f"load after handing the flat entries back {order}: element {i} of a 12-element list received {dst.seq[i].tolist()} instead of {src.seq[i].tolist()}"
        if not (torch.equal(dst.a["u"], src.a["u"]) and torch.equal(dst.d["inner"][1], src.c[1]) and torch.equal(dst.e[0], src.e[0])):
            return f"load ({order}): tensors reachable through a shared container were not reproduced"
    return None


def native_noncontiguous_load():
    import torch
    from optimizer_modules import OptimizerModule

    class M(OptimizerModule):
        def __init__(self, off):
            self.buf = torch.zeros(3, 4) + off
            self.t = (torch.arange(6.0).reshape(2, 3) + off).t()
            self.col = self.buf[:, 1:3]
            self.d = {"p": (torch.arange(8.0).reshape(2, 2, 2) + off).permute(2, 0, 1)}

    a, b = M(10.0), M(0.0)
    ids = [id(b.t), id(b.col), id(b.d["p"])]
    b.load_state_dict(a.state_dict())
    if [id(b.t), id(b.col), id(b.d["p"])] != ids:
        return "load_state_dict replaced non-contiguous tensor objects"
    for nm, x, y in (("transposed", b.t, a.t), ("column block", b.col, a.col), ("permuted", b.d["p"], a.d["p"])):
        if not torch.equal(x, y):
            return f"a {nm} (non-contiguous) tensor held by a module was not reproduced by load_state_dict"
    return None


def native_nested_leafless_update():
    """restoring through update_param_state_dict_object never depends on leaf-less entries, however deeply the tensor-less structure is nested"""
    import torch
    from optimizer_modules import OptimizerModule
    from distributed_shampoo.utils.shampoo_checkpoint_utils import extract_state_dict_content, flatten, unflatten, update_param_state_dict_object

    class E(OptimizerModule):
        def __init__(self, depth):
            self.tup = ()
            self.inner = {} if depth == 0 else {"x": E(depth - 1)}

    shapes = [{"e": {}}, {"a": {"b": {}}}, {"a": {"b": {"c": {}}}}, {"a": {"b": {"c": {"d": {}}}}, "z": {}}, {"m": E(0)}, {"blk": {"shampoo": E(0)}}, {"blk": {"shampoo": E(2)}},
              {"a": {"m": E(1), "b": {"c": {}}}}]
    for sh in shapes:
        cur = dict(sh, w=torch.zeros(2))
        src = dict(sh, w=torch.ones(2))
        try:
            to_load = unflatten(flatten(extract_state_dict_content(src)))
            update_param_state_dict_object(cur, to_load, enable_missing_key_check=True)
        except BaseException as e:  # noqa
            return f"state {sh}: loading the flattened-and-unflattened state raised {type(e).__name__}: {e} (restoring depends on a leaf-less entry)"
        if not torch.equal(cur["w"], torch.ones(2)):
            return f"state {sh}: the tensor next to the leaf-less entry was not restored"
    # and a genuinely missing tensor entry still raises
    try:
        update_param_state_dict_object({"w": torch.zeros(2), "v": {"t": torch.zeros(1)}}, {"w": torch.ones(2)}, enable_missing_key_check=True)
        return "a missing entry that DOES hold a tensor was accepted silently"
    except KeyError:
        pass
    return None


def native_pruned_load():
    """restoring never depends on leaf-less sub-dictionaries: a module graph with tensor-less elements (empty module / dict / list / tuple) at dictionary
    keys and at sequence positions loads its own state dict after the flatten / unflatten round trip, which drops those entries"""
    import torch
    from optimizer_modules import OptimizerModule
    from distributed_shampoo.utils.shampoo_checkpoint_utils import flatten, unflatten

    class M(OptimizerModule):
        def __init__(self, v, empty):
            self.d = {"e": empty(), "t": torch.tensor(v)}
            self.l = [empty(), torch.tensor(v + 1)]
            self.t = (torch.tensor(v + 2), empty())

    for nm, empty in (("module", OptimizerModule), ("dict", dict), ("list", list), ("tuple", tuple)):
        a, b = M(1.0, empty), M(10.0, empty)
        try:
            b.load_state_dict(unflatten(flatten(a.state_dict())))
        except BaseException as e:  # noqa
            return f"tensor-less {nm} inside dict / list / tuple of a module: loading unflatten(flatten(state_dict)) raised {type(e).__name__}: {e}"
        if not (float(b.d["t"]) == 1.0 and float(b.l[1]) == 2.0 and float(b.t[0]) == 3.0):
            return f"tensor-less {nm}: tensors next to the leaf-less element were not restored"
    return None


def native_module_roundtrip(seed, tier):
    import random
    import torch
    from optimizer_modules import OptimizerModule
    rng = random.Random(seed)
    leafless = seed % 2 == 1

    class M(OptimizerModule):
        pass

    tensors = []

    def gen(depth):
        r = rng.random()
        if depth == 0 or r < 0.35:
            t = torch.randn(rng.choice([1, 2, 3]))
            tensors.append(t)
            return t
        lo = 0 if leafless else 1  # odd seeds: containers / modules may be empty (leaf-less sub-dictionaries of the state dict)
        if r < 0.5:
            m = M()
            for i in range(rng.randint(lo, 2)):
                setattr(m, f"attr{i}", gen(depth - 1))
            return m
        if r < 0.65:
            return {f"k{i}": gen(depth - 1) for i in range(rng.randint(lo, 2))}
        if r < 0.8:
            return [gen(depth - 1) for _ in range(rng.randint(lo, 2))]
        if r < 0.95:
            return tuple(gen(depth - 1) for _ in range(rng.randint(lo, 2)))
        return rng.choice([3, "s", None])

    rng2state = rng.getstate()
    root = M()
    for i in range(3):
        setattr(root, f"f{i}", gen(3))
    mine = list(tensors)
    del tensors[:]
    rng.setstate(rng2state)
    other = M()
    for i in range(3):
        setattr(other, f"f{i}", gen(3))
    theirs = list(tensors)
    if len(mine) != len(theirs):
        return "generator not structural"
    for t in theirs:
        t.add_(1.0)
    sd = other.state_dict()

    def count(d):
        return sum(count(v) if isinstance(v, dict) else (1 if isinstance(v, torch.Tensor) else 0) for v in d.values())

    if count(sd) != len(theirs):
        return f"state_dict holds {count(sd)} tensors but {len(theirs)} are reachable through attributes, nested modules, dicts and sequences"
    ids_before = [id(t) for t in mine]
    root.load_state_dict(sd)
    reach = []

    def walk(x):
        if isinstance(x, torch.Tensor):
            reach.append(x)
        elif isinstance(x, OptimizerModule):
            for v in vars(x).values():
                walk(v)
        elif isinstance(x, dict):
            for v in x.values():
                walk(v)
        elif isinstance(x, (list, tuple)):
            for v in x:
                walk(v)

    walk(root)
    if [id(t) for t in reach] != ids_before:
        return "load_state_dict replaced tensor objects instead of copying in place"
    for a, b in zip(mine, theirs):
        if not torch.equal(a, b):
            return "a tensor reachable through the module graph was not reproduced by load_state_dict"
    # the same through the checkpoint format: flatten drops leaf-less sub-dictionaries, restoring must not depend on them
    from distributed_shampoo.utils.shampoo_checkpoint_utils import flatten, unflatten
    for t in theirs:
        t.mul_(2.0)
    try:
        root.load_state_dict(unflatten(flatten(other.state_dict())))
    except BaseException as e:  # noqa
        return f"loading unflatten(flatten(state_dict)) (leaf-less sub-dictionaries dropped) raised {type(e).__name__}: {e}"
    for a, b in zip(mine, theirs):
        if not torch.equal(a, b):
            return "a tensor was not reproduced when loading unflatten(flatten(state_dict))"
    return None


def bounded(tier, seed):
    evals, viol = 0, []
    n, bad = native_tree_roundtrip(tier)
    evals += n
    if bad:
        viol.append(dict(ob="bounded/flatten-unflatten-roundtrip", func="flatten/unflatten", input={}, text=bad, detail=bad, replay=dict(kind="tree")))
    for fn_, ob_, kd_ in ((native_noncontiguous_load, "non-contiguous-tensors-load-in-place", "noncontig"), (native_nested_leafless_update, "nested-leaf-less-entries-not-needed", "nested_leafless")):
        bad = fn_()
        evals += 1
        if bad:
            viol.append(dict(ob=f"bounded/{ob_}", func="OptimizerModule.load_state_dict / update_param_state_dict_object", input={}, text=bad, detail=bad, replay=dict(kind=kd_)))
    bad = native_pruned_load()
    evals += 1
    if bad:
        viol.append(dict(ob="bounded/pruned-state-dict-loads", func="OptimizerModule.load_state_dict", input={}, text=bad, detail=bad, replay=dict(kind="pruned")))
    bad = native_shared_and_reordered()
    evals += 1
    if bad:
        viol.append(dict(ob="bounded/shared-containers-and-key-order", func="OptimizerModule.state_dict/load_state_dict", input={}, text=bad, detail=bad, replay=dict(kind="shared")))
    m = 60 if tier == "quick" else 600
    for k in range(m):
        bad = native_module_roundtrip(seed * 1000 + k, tier)
        evals += 1
        if bad and len(viol) < 5:
            viol.append(dict(ob=f"bounded/module-roundtrip[seed={seed * 1000 + k}]", func="OptimizerModule", input=dict(seed=seed * 1000 + k), text=bad, detail=bad,
                             replay=dict(kind="module_seed", seed=seed * 1000 + k)))
    return dict(evaluations=evals, distinct_nontrivial=evals,
                rule="exhaustive nested dictionaries (depth <= 2 quick / 3 thorough, width <= 2) over six adversarial key pairs (quotes, brackets, '1' vs 1, separators, empty): flat keys distinct, unflatten(flatten(d)) == prune(d) with key types and leaf objects; seeded random OptimizerModule graphs (tensors, dicts, lists, tuples, nested modules, non-tensors): state_dict complete, load in place; every case distinct by construction",
                samples=[dict(tree={"1": {"a": "T"}, 1: "T"})], exhaustive=False, bound=f"{n} trees, {m} module graphs", violations=viol)


def replay(r):
    return replay_file(dict(replay_input=r.get("replay"), verifier_output=dict(model=r.get("model"))))


def replay_file(doc):
    rp = doc.get("replay_input") or {}
    if rp.get("kind") == "noncontig":
        bad = native_noncontiguous_load()
        return bool(bad), bad or "non-contiguous module tensors are loaded in place"
    if rp.get("kind") == "nested_leafless":
        bad = native_nested_leafless_update()
        return bool(bad), bad or "update_param_state_dict_object does not depend on nested leaf-less entries"
    if rp.get("kind") == "pruned":
        bad = native_pruned_load()
        return bool(bad), bad or "a round-tripped (pruned) state dict loads into modules with leaf-less elements at dict keys and sequence positions"
    if rp.get("kind") == "module_seed":
        bad = native_module_roundtrip(rp["seed"], "quick")
        return bool(bad), str(bad)
    if rp.get("kind") == "tree":
        n, bad = native_tree_roundtrip("thorough")
        return bool(bad), bad or f"{n} trees round-trip"
    if rp.get("kind") == "shared":
        bad = native_shared_and_reordered()
        return bool(bad), bad or "shared containers and reordered flat entries round-trip"
    if rp.get("kind") == "module":
        bad = native_shared_and_reordered()
        if bad:
            return True, bad
        for k in range(400):
            bad = native_module_roundtrip(k, "quick")
            if bad:
                return True, f"seed {k}: {bad}"
        return False, "400 random module graphs round-trip"
    return False, "no native replayer"
