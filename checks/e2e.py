"""Bounded stand-in tier shared by C01 / C09 / C18: the real optimizer, end to end, against an independent float64
reference interpreter of the documented algorithm (`stepmodel.spec_step` per block + the mathematical factor /
inverse-root recurrences), over seeded configurations and gradient-presence histories.  Never counted as proved.
"""
from __future__ import annotations

import random


def make_config(rng):
    import torch
    from distributed_shampoo import shampoo_types as st
    graft = rng.choice([None, "sgd", "adagrad", "rmsprop", "adam"])
    cfg = dict(
        lr=rng.choice([0.1, 0.01]), beta1=rng.choice([0.0, 0.9, 0.5]), beta2=rng.choice([1.0, 0.99, 0.9]), eps=rng.choice([1e-3, 1e-6]),
        momentum=rng.choice([0.0, 0.5, 0.9]), dampening=rng.choice([0.0, 0.3]), wd=rng.choice([0.0, 0.1]), decoupled=rng.choice([True, False]),
        nesterov=rng.choice([True, False]), bias=rng.choice([True, False]), graft=graft, gbeta2=rng.choice([0.999, 0.9]), geps=rng.choice([1e-8, 1e-3]),
        freq=rng.choice([1, 2, 3]), maxdim=rng.choice([2, 3, 1024]), merge=rng.choice([True, False]), override=rng.choice([0, 0, 2, [2, 2, 2, 2, 2], [1, 4]]),
        ignored=rng.choice([[], [], [0], [1]]),
    )
    cfg["beta3"] = rng.choice([-1.0, cfg["beta1"] * 0.5]) if cfg["beta1"] else -1.0
    cfg["start"] = rng.choice([-1, cfg["freq"], cfg["freq"] + 2])
    if cfg["ignored"]:
        cfg["override"] = 0
    return cfg


def build(cfg, params, pt2=None, soap=False, dist_cfg=None):
    import torch
    from distributed_shampoo.distributed_shampoo import DistributedShampoo
    from distributed_shampoo import shampoo_types as st
    g = cfg["graft"]
    gc = {None: None, "sgd": st.SGDGraftingConfig(), "adagrad": st.AdaGradGraftingConfig(epsilon=cfg["geps"]),
          "rmsprop": st.RMSpropGraftingConfig(beta2=cfg["gbeta2"], epsilon=cfg["geps"]), "adam": st.AdamGraftingConfig(beta2=cfg["gbeta2"], epsilon=cfg["geps"])}[g]
    pc = (st.EigenvalueCorrectedShampooPreconditionerConfig if soap else st.ShampooPreconditionerConfig)(ignored_dims=list(cfg["ignored"]))
    return DistributedShampoo(params, lr=cfg["lr"], betas=(cfg["beta1"], cfg["beta2"]), beta3=cfg["beta3"], epsilon=cfg["eps"], momentum=cfg["momentum"],
                              dampening=cfg["dampening"], weight_decay=cfg["wd"], max_preconditioner_dim=cfg["maxdim"], precondition_frequency=cfg["freq"],
                              start_preconditioning_step=cfg["start"], inv_root_override=cfg["override"], use_nesterov=cfg["nesterov"],
                              use_bias_correction=cfg["bias"], use_decoupled_weight_decay=cfg["decoupled"], grafting_config=gc, use_merge_dims=cfg["merge"],
                              preconditioner_dtype=torch.float64, preconditioner_config=pc, shampoo_pt2_compile_config=pt2, distributed_config=dist_cfg)


class RefBlock:
    def __init__(self, view, cfg):
        import torch
        self.w = view  # view into the reference parameter
        shape = tuple(view.shape)
        self.order = len(shape)
        self.pd = [d for d in range(self.order) if d not in cfg["ignored"]]
        self.L = [torch.zeros(shape[d], shape[d], dtype=torch.float64) for d in self.pd]
        self.X = [torch.zeros(shape[d], shape[d], dtype=torch.float64) for d in self.pd]
        self.F = torch.zeros(shape, dtype=torch.float64) if cfg["beta1"] != 0 else None
        self.M = torch.zeros(shape, dtype=torch.float64) if cfg["momentum"] != 0 else None
        self.V = torch.zeros(shape, dtype=torch.float64) if cfg["graft"] in ("adagrad", "rmsprop", "adam") else None
        ov = cfg["override"]
        if isinstance(ov, list):
            self.root = ov[self.order] if self.order < len(ov) else 2 * self.order
        else:
            self.root = 2 * self.order if ov == 0 else ov


def _blocks_of(t, cfg):
    """documented blocking: merge adjacent dims (dropping 1s) within the limit, then chunk every dim by max dim, row-major"""
    import torch
    from functools import reduce
    shape = list(t.shape)
    if cfg["merge"]:
        sq = [d for d in shape if d != 1] or [1]
        merged = [sq[0]]
        for d in sq[1:]:
            if merged[-1] * d <= cfg["maxdim"]:
                merged[-1] *= d
            else:
                merged.append(d)
    else:
        merged = shape
    v = t.view(merged)
    pieces = [v]
    for dim in range(v.dim()):
        pieces = [s for p in pieces for s in torch.split(p, cfg["maxdim"], dim=dim)]
    return pieces


def _mode(g, M, k):
    import torch
    return torch.movedim(torch.tensordot(g, M, dims=([k], [0])), -1, k)


def run_history(cfg, shapes, hist, seed, check_state=True, opt_factory=None, soap=False, tol=3e-5):
    """returns None or a mismatch description; `hist[t][j]` = parameter j has a gradient at step t"""
    import torch
    from checks.stepmodel import NatAlg, spec_step
    from distributed_shampoo import shampoo_types as st
    torch.manual_seed(seed)
    params = [torch.nn.Parameter(torch.randn(s, dtype=torch.float64)) for s in shapes]
    ref = [p.detach().clone() for p in params]
    opt = (opt_factory or build)(cfg, params)
    rb = [[RefBlock(v, cfg) for v in _blocks_of(r, cfg)] for r in ref]
    start = cfg["freq"] if cfg["start"] == -1 else cfg["start"]
    beta3 = cfg["beta1"] if cfg["beta3"] == -1.0 else cfg["beta3"]
    gkind = {None: None, "sgd": "sgd"}.get(cfg["graft"], "ada")
    gb2 = 1.0 if cfg["graft"] == "adagrad" else cfg["gbeta2"]
    gbias = cfg["graft"] == "adam"
    t = 0
    bc2, bc2g = 1.0, 1.0
    for ti, pat in enumerate(hist):
        grads = [torch.randn(s, dtype=torch.float64) if pat[j] else None for j, s in enumerate(shapes)]
        for p, g in zip(params, grads):
            p.grad = None if g is None else g.clone()
        opt.step()
        if any(pat):
            t += 1
            refresh = (t == start) or (t > start and t % cfg["freq"] == 0)
            use_graft = t < start and cfg["graft"] is not None
            if cfg["bias"] and cfg["beta2"] < 1.0:
                bc2 = 1.0 - cfg["beta2"] ** t
            for j, g in enumerate(grads):
                if g is None:
                    continue
                for blk, gb in zip(rb[j], _blocks_of(g, cfg)):
                    gt = gb + cfg["wd"] * blk.w if (cfg["wd"] != 0 and not cfg["decoupled"]) else gb
                    for i, d in enumerate(blk.pd):
                        A = torch.movedim(gt, d, 0).reshape(gt.shape[d], -1)
                        gram = A @ A.T
                        blk.L[i] = blk.L[i] + gram if cfg["beta2"] == 1.0 else cfg["beta2"] * blk.L[i] + (1 - cfg["beta2"]) * gram
                    if refresh:
                        for i in range(len(blk.pd)):
                            lam, Q = torch.linalg.eigh(blk.L[i] / bc2)
                            lam = lam - min(float(lam.min()), 0.0) + cfg["eps"]
                            blk.X[i] = Q @ torch.diag(lam ** (-1.0 / blk.root)) @ Q.T

                    def psh(x, blk=blk):
                        for i, d in enumerate(blk.pd):
                            x = _mode(x, blk.X[i], d)
                        return x

                    h = dict(lr=cfg["lr"], beta1=cfg["beta1"], beta3=beta3, wd=cfg["wd"], mu=cfg["momentum"], damp=cfg["dampening"], decoupled=cfg["decoupled"],
                             bias=cfg["bias"], nesterov=cfg["nesterov"], use_graft=use_graft, t=t, graft=gkind, beta2g=gb2, eps_g=cfg["geps"], bias_g=gbias)
                    s = dict(w=blk.w.clone(), g=gb, F=blk.F, M=blk.M, V=blk.V, bc2g_prev=bc2g)
                    sp = spec_step(NatAlg, h, s, psh)
                    blk.w.copy_(sp["w"])
                    if blk.F is not None:
                        blk.F = sp["F"]
                    if blk.M is not None:
                        blk.M = sp["M"]
                    if blk.V is not None:
                        blk.V = sp["V"]
                        blk._bc2g = sp["bc2g"]
            if gkind == "ada" and gbias and gb2 < 1.0:
                bc2g = 1.0 - gb2 ** t
        # compare
        for j, (p, r) in enumerate(zip(params, ref)):
            if not torch.allclose(p.detach(), r, rtol=tol, atol=tol):
                return f"step {ti + 1} (group step {t}): parameter {j} differs from the documented update by {float((p.detach() - r).abs().max()):.3e}"
        if check_state:
            sl = opt._per_group_state_lists[0]
            if int(sl[st.STEP]) != t:
                return f"step {ti + 1}: step counter {int(sl[st.STEP])} != {t}"
            D = sl[st.DISTRIBUTOR]
            infos = D.local_block_info_list
            k = 0
            for j in range(len(shapes)):
                for blk in rb[j]:
                    bi = infos[k]
                    k += 1
                    bs = opt.state[bi.param][bi.composable_block_ids[1]]
                    kf = bs["shampoo"]
                    for i in range(len(blk.pd)):
                        if not torch.allclose(kf.factor_matrices[i].double(), blk.L[i], rtol=tol, atol=tol):
                            return f"step {ti + 1}: factor matrix {i} of parameter {j} differs from the documented accumulation"
                        if not soap and not torch.allclose(kf.inv_factor_matrices[i].double(), blk.X[i], rtol=1e-4, atol=1e-4):
                            return f"step {ti + 1}: inverse root {i} of parameter {j} differs (refresh schedule / root / epsilon / bias correction)"
                    for key, val in (("filtered_grad", blk.F), ("momentum", blk.M), ("adagrad", blk.V)):
                        if val is not None and not torch.allclose(bs[key].double(), val, rtol=tol, atol=tol):
                            return f"step {ti + 1}: state '{key}' of parameter {j} differs from the documented recurrence"
    return None


def random_case(seed):
    rng = random.Random(seed)
    cfg = make_config(rng)
    shapes = [rng.choice([(3,), (2, 3), (4, 2), (2, 2, 2), (1, 3), (), (5,), (2, 1, 2, 2)]) for _ in range(rng.choice([1, 2, 3]))]
    if cfg["ignored"] and any(len(s) == 0 for s in shapes):
        shapes = [s for s in shapes if len(s) > 0] or [(2, 2)]
    steps = rng.choice([4, 6, 8])
    hist = [[rng.random() < 0.75 for _ in shapes] for _ in range(steps)]
    return cfg, shapes, hist
