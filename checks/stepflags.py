"""E2 harness for the real `DistributedShampoo.step`: schedule flags, argument wiring, skip rule, group frame.

Two parameter groups with fully symbolic hyperparameters and step counters; the distributor and the compiled /
eager `_per_group_step` callable are stubs that record what they receive.
"""
from __future__ import annotations

import z3

from vlib.driver import prove, result
from vlib.sym import Explorer, SymBool, SymInt, SymReal, assume
from vlib.tensor import FakeTorch, SymTensor, rebind

FUNC = "DistributedShampoo.step"


class _Dist:
    def __init__(self, nonempty, tag):
        self.nonempty = nonempty
        self.local_grad_selector = ("sel", tag)
        self.local_masked_blocked_params = ("params", tag)
        self.calls = 0

    def merge_and_block_gradients(self):
        self.calls += 1
        return (SymTensor.array("grad"),) if self.nonempty else ()


def _real_step(ds):
    """the real `DistributedShampoo.step` function body: torch.optim.Optimizer.__init__ patches the CLASS attribute `step` with a
    profiling/hook wrapper the first time any optimizer is constructed in the process; the harness object is a bare instance
    without hook tables, so the wrapper (functools.wraps) is peeled off and the original function is called."""
    import inspect
    return inspect.unwrap(ds.DistributedShampoo.step)


def _mk(gi, graft):
    from distributed_shampoo import shampoo_types as st
    g = {
        st.LR: SymReal(f"lr_{gi}"), st.BETAS: (SymReal(f"beta1_{gi}"), SymReal(f"beta2_{gi}")), st.BETA3: SymReal(f"beta3_{gi}"),
        st.WEIGHT_DECAY: SymReal(f"wd_{gi}"), st.MOMENTUM: SymReal(f"mu_{gi}"), st.DAMPENING: SymReal(f"damp_{gi}"),
        st.GRAFTING_CONFIG: (object() if graft else None), st.PRECONDITION_FREQUENCY: SymInt(f"freq_{gi}"),
        st.START_PRECONDITIONING_STEP: SymInt(f"start_{gi}"), st.USE_DECOUPLED_WEIGHT_DECAY: SymBool(z3.Bool(f"dec_{gi}")),
        st.USE_BIAS_CORRECTION: SymBool(z3.Bool(f"bias_{gi}")), st.USE_NESTEROV: SymBool(z3.Bool(f"nest_{gi}")),
        st.PARAMS: [],
    }
    return g


def run(case, tier):
    import distributed_shampoo.distributed_shampoo as ds
    from distributed_shampoo import shampoo_types as st

    out = []
    want_sub = case.split("/")[2] if case.count("/") >= 2 else None
    for graft0 in (False, True):
        for graft1 in (False, True):
            for ne0 in (False, True):
                for ne1 in (False, True):
                    sub = f"g{int(graft0)}{int(graft1)}n{int(ne0)}{int(ne1)}"
                    if want_sub is not None and sub != want_sub:
                        continue

                    def fn():
                        groups = [_mk(0, graft0), _mk(1, graft1)]
                        sls = []
                        for gi, ne in enumerate((ne0, ne1)):
                            assume(z3.Int(f"freq_{gi}") >= 1)
                            assume(z3.Int(f"start_{gi}") >= z3.Int(f"freq_{gi}"))
                            assume(z3.Int(f"t0_{gi}") >= 0)
                            d = _Dist(ne, gi)
                            sls.append({st.DISTRIBUTOR: d, st.PREVIOUS_GRAD_SELECTOR: d.local_grad_selector,
                                        st.STEP: SymTensor.int_scalar(SymInt(f"t0_{gi}"))})
                        calls = []
                        opt = object.__new__(ds.DistributedShampoo)
                        opt._per_group_state_lists = sls
                        opt.param_groups = groups
                        opt._device = "cpu"
                        opt._per_group_step = lambda *a: calls.append(a)
                        with rebind([(ds, "torch", FakeTorch())]):
                            _real_step(ds)(opt)
                        return groups, sls, calls

                    paths = Explorer().run(fn)
                    mv = {}
                    for gi in (0, 1):
                        mv.update({f"t0_{gi}": z3.Int(f"t0_{gi}"), f"freq_{gi}": z3.Int(f"freq_{gi}"), f"start_{gi}": z3.Int(f"start_{gi}")})
                    for pi, p in enumerate(paths):
                        tag = f"[step/{sub}]#p{pi}"
                        if p.outcome != "return":
                            out.append(result(f"{FUNC}/no-exception{tag}", FUNC, "unknown" if p.outcome == "abort" else "violated",
                                              text=f"{p.outcome}: {p.value!r}", case=case))
                            continue
                        groups, sls, calls = p.value
                        hyp = p.cond()
                        ne = (ne0, ne1)
                        exp_calls = [gi for gi in (0, 1) if ne[gi]]
                        ok_struct = len(calls) == len(exp_calls) and all(c[0] is sls[gi] for c, gi in zip(calls, exp_calls))
                        out.append(result(f"{FUNC}/one-group-step-per-group-with-gradients{tag}", FUNC,
                                          "discharged" if ok_struct else "violated", backend="call-log", case=case,
                                          text="a group is stepped exactly once iff its masked gradient list is non-empty, with its own state lists",
                                          model=dict(calls=len(calls), expected=len(exp_calls))))
                        for gi in (0, 1):
                            t0, f, s = z3.Int(f"t0_{gi}"), z3.Int(f"freq_{gi}"), z3.Int(f"start_{gi}")
                            tpost = sls[gi][st.STEP].v
                            if not ne[gi]:
                                out.append(prove(f"{FUNC}/empty-group-counter-unchanged{tag}/g{gi}", FUNC, hyp, tpost == t0, model_vars=mv,
                                                 text="no gradient in the group => step counter does not advance", case=case))
                                continue
                            out.append(prove(f"{FUNC}/counter-advances-by-one{tag}/g{gi}", FUNC, hyp, tpost == t0 + 1, model_vars=mv,
                                             text="group with gradients: step counter += 1", case=case))
                            if not ok_struct:
                                continue
                            c = calls[exp_calls.index(gi)]
                            g = groups[gi]
                            (sl, step_t, lr_t, beta1, beta3, wd, mu, damp, gnn, pac, dec, bias, ugm, nest) = c
                            t = t0 + 1
                            ident = (step_t is sls[gi][st.STEP] and beta1 is g[st.BETAS][0] and beta3 is g[st.BETA3]
                                     and wd is g[st.WEIGHT_DECAY] and mu is g[st.MOMENTUM] and damp is g[st.DAMPENING]
                                     and dec is g[st.USE_DECOUPLED_WEIGHT_DECAY] and bias is g[st.USE_BIAS_CORRECTION]
                                     and nest is g[st.USE_NESTEROV] and gnn is (g[st.GRAFTING_CONFIG] is not None))
                            out.append(result(f"{FUNC}/args-are-current-param-group-values{tag}/g{gi}", FUNC,
                                              "discharged" if ident else "violated", backend="identity-check", case=case,
                                              text="beta1, beta3, weight decay, momentum, dampening and flags passed to the group step are the group's current entries"))
                            lr_ok = isinstance(lr_t, SymTensor) and lr_t.scalar
                            out.append(prove(f"{FUNC}/lr-is-current-group-lr{tag}/g{gi}", FUNC, hyp,
                                             (lr_t.v == z3.Real(f"lr_{gi}")) if lr_ok else z3.BoolVal(False), model_vars=mv,
                                             text="lr tensor value == param_groups[i]['lr']", case=case))
                            refresh = z3.Or(t == s, z3.And(t > s, t % f == 0))
                            pac_t = pac.t if isinstance(pac, SymBool) else z3.BoolVal(bool(pac))
                            out.append(prove(f"{FUNC}/refresh-flag=schedule{tag}/g{gi}", FUNC, hyp, pac_t == refresh, model_vars=mv,
                                             text="perform_amortized_computation <=> t == start or (t > start and t % freq == 0)", case=case,
                                             replay=dict(kind="stepflags", g=gi, graft=bool(g[st.GRAFTING_CONFIG] is not None))))
                            ugm_t = ugm.t if isinstance(ugm, SymBool) else z3.BoolVal(bool(ugm))
                            want = z3.And(t < s, z3.BoolVal(g[st.GRAFTING_CONFIG] is not None))
                            out.append(prove(f"{FUNC}/grafting-flag=warmup{tag}/g{gi}", FUNC, hyp, ugm_t == want, model_vars=mv,
                                             text="use_grafting_method <=> t < start and grafting configured", case=case,
                                             replay=dict(kind="stepflags", g=gi, graft=bool(g[st.GRAFTING_CONFIG] is not None))))
                    out.append(result(f"{FUNC}/cover:paths[step/{sub}]", FUNC, "violated" if paths else "discharged", kind="cover", case=case,
                                      extra=dict(paths=len(paths))))
    # canary
    if want_sub in (None, "g00n00"):
      out.append(prove(f"{FUNC}/canary:refresh-every-step", FUNC, z3.And(z3.Int("f") >= 1, z3.Int("s") >= z3.Int("f"), z3.Int("t") >= 1),
                     z3.Or(z3.Int("t") == z3.Int("s"), z3.And(z3.Int("t") > z3.Int("s"), z3.Int("t") % z3.Int("f") == 0)),
                     kind="canary", text="deliberately false: every step is a refresh step", case=case))
    return out


def native_flags(freq, start, t, graft):
    """Real optimizer: flags handed to the group step at step t (1-based) with the given schedule."""
    import torch
    from distributed_shampoo.distributed_shampoo import DistributedShampoo
    from distributed_shampoo import shampoo_types as st
    p = torch.nn.Parameter(torch.ones(2, 2))
    opt = DistributedShampoo([p], lr=0.0, precondition_frequency=freq, start_preconditioning_step=start, epsilon=1.0,
                             grafting_config=st.SGDGraftingConfig() if graft else None)
    rec = []
    real = opt._per_group_step

    def spy(*a):
        rec.append((int(a[1]), bool(a[9]), bool(a[12])))
        return real(*a)

    opt._per_group_step = spy
    for _ in range(t):
        p.grad = torch.ones(2, 2)
        opt.step()
    return rec[-1]


def replay_flags(rp, m):
    g = rp["g"]
    freq, start, t0 = m.get(f"freq_{g}"), m.get(f"start_{g}"), m.get(f"t0_{g}")
    if None in (freq, start, t0) or t0 + 1 > 400 or freq < 1 or start < freq:
        return False, "model outside the natively replayable range"
    t = t0 + 1
    step, pac, ugm = native_flags(freq, start, t, rp.get("graft", False))
    want_pac = (t == start) or (t > start and t % freq == 0)
    want_ugm = t < start and rp.get("graft", False)
    bad = step != t or pac != want_pac or ugm != want_ugm
    return bad, f"precondition_frequency={freq} start={start} step {t}: real step() passed refresh={pac} grafting={ugm}; schedule says refresh={want_pac} grafting={want_ugm}"
