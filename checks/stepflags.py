def run(case, tier):
    return []
