"""E2 harness for the Kronecker-factor preconditioner lists (contract [P]):
`ShampooPreconditionerList` and `EigenvalueCorrectedShampooPreconditionerList` — real `__init__` chain,
`update_preconditioners`, `_update_factor_matrices`, `_amortized_computation`, `precondition`, `_precondition_grad`,
`_update_eigenvalue_corrections`, `_raise_exception_if_failure_tolerance_exceeded`, `compress_preconditioner_list`,
`_get_inverse_roots_from_override*` executed on symbolic tensors; `matrix_inverse_root`, `matrix_eigenvectors`,
`check_diagonal` are contract stubs [M] (with fault injection), tensordot / permute uninterpreted per structural
signature.  Obligation families are shared by C01 (Shampoo recurrences), C03 (SOAP), C13 (fault tolerance).
"""
from __future__ import annotations

import itertools
import z3

from vlib.driver import prove, result
from vlib.sym import Explorer, SymBool, SymInt, SymReal, as_real, assume, note_append, real_pow
from vlib.tensor import ARR, FakeTorch, SymTensor, lam, rebind, uf, _tensordot, _permute

IDX = z3.Int("idx")
INVROOT = z3.Function("matrix_inverse_root", ARR, z3.RealSort(), z3.RealSort(), z3.BoolSort(), ARR)
EIGVEC = z3.Function("matrix_eigenvectors", ARR, ARR, z3.BoolSort(), ARR)
CHKDIAG = z3.Function("check_diagonal", ARR, z3.BoolSort())


def _mods():
    import distributed_shampoo.utils.shampoo_preconditioner_list as pl
    return pl


class Stubs:
    """Contract stubs [M] with fault injection: call k of the matrix routine throws iff Bool fail_k."""

    def __init__(self, faults):
        self.faults = faults
        self.calls = []

    def _maybe_fail(self):
        k = len(self.calls)
        if self.faults:
            f = SymBool(z3.Bool(f"fail_{k}"))
            if f:
                self.calls.append(dict(failed=True))
                raise RuntimeError(f"injected failure of matrix routine call {k}")

    def matrix_inverse_root(self, A, root, root_inv_config=None, epsilon=0.0, is_diagonal=False):
        self._maybe_fail()
        r, e = as_real(root).t, as_real(epsilon).t
        d = is_diagonal.t if isinstance(is_diagonal, SymBool) else z3.BoolVal(bool(is_diagonal))
        out = SymTensor(INVROOT(A.v, r, e, d), dtype=A.dtype, shape=A.size())
        self.calls.append(dict(failed=False, A=A.v, root=r, eps=e, diag=d, cfg=root_inv_config, out=out.v, A_dtype=A.dtype,
                               diag_is_bool=isinstance(is_diagonal, bool)))
        return out

    def matrix_eigenvectors(self, A, eigenvectors_estimate=None, eigenvector_computation_config=None, is_diagonal=False):
        self._maybe_fail()
        d = z3.BoolVal(bool(is_diagonal))
        out = SymTensor(EIGVEC(A.v, eigenvectors_estimate.v, d), dtype=A.dtype, shape=A.size())
        self.calls.append(dict(failed=False, A=A.v, est=eigenvectors_estimate.v, diag=d, cfg=eigenvector_computation_config,
                               out=out.v, A_dtype=A.dtype, est_dtype=eigenvectors_estimate.dtype,
                               diag_is_bool=isinstance(is_diagonal, bool)))
        return out

    def check_diagonal(self, A):
        return SymBool(CHKDIAG(A.v))


def build(kind, orders, ignored, override, faults=False, diag="false", param_dtype=None, factor_dtype=None, cfg_obj=None):
    """Constructs the REAL list object through its real __init__ on symbolic blocks; returns a context dict.
    Must be called inside an Explorer run."""
    import torch
    pl = _mods()
    from distributed_shampoo.utils.shampoo_block_info import BlockInfo
    from distributed_shampoo import shampoo_types as st

    param_dtype = param_dtype or torch.float32
    factor_dtype = factor_dtype or torch.float32
    fake = FakeTorch()
    stubs = Stubs(faults)
    allocs = []

    def alloc(size, dtype, device):
        t = SymTensor(z3.K(z3.IntSort(), z3.RealVal(0)), dtype=dtype, shape=tuple(size))
        allocs.append(t)
        return t

    blocks, infos, state = [], [], {}
    for b, order in enumerate(orders):
        blk = SymTensor.array(f"blk{b}", dtype=param_dtype, shape=[SymInt(f"n{b}_{d}") for d in range(order)])
        blocks.append(blk)
        state[blk] = {}
        infos.append(BlockInfo(param=blk, composable_block_ids=(b, f"block_{b}"), allocate_zeros_tensor=alloc,
                               get_tensor=lambda t: t))
    tol = SymInt("tolerance")
    assume(tol.t >= 0)
    if kind == "shampoo":
        cfg = st.ShampooPreconditionerConfig(ignored_dims=list(ignored), num_tolerated_failed_amortized_computations=tol,
                                             **({"amortized_computation_config": cfg_obj} if cfg_obj is not None else {}))
        cls = pl.ShampooPreconditionerList
    else:
        cfg = st.EigenvalueCorrectedShampooPreconditionerConfig(ignored_dims=list(ignored), num_tolerated_failed_amortized_computations=tol,
                                                                **({"amortized_computation_config": cfg_obj} if cfg_obj is not None else {}))
        cls = pl.EigenvalueCorrectedShampooPreconditionerList
    beta2, eps, bias = SymReal("beta2"), SymReal("epsilon"), SymBool(z3.Bool("use_bias_correction"))
    assume(z3.And(beta2.t > 0, beta2.t <= 1, eps.t > 0))
    binds = [(pl, "torch", fake), (pl, "matrix_inverse_root", stubs.matrix_inverse_root),
             (pl, "matrix_eigenvectors", stubs.matrix_eigenvectors), (pl, "check_diagonal", stubs.check_diagonal),
             (pl, "Fraction", lambda x: x)]
    ctx = rebind(binds)
    ctx.__enter__()
    try:
        lst = cls(block_list=tuple(blocks), state=state, block_info_list=tuple(infos), preconditioner_config=cfg, beta2=beta2,
                  epsilon=eps, inv_root_override=override, use_bias_correction=bias, factor_matrix_dtype=factor_dtype)
    except BaseException:
        ctx.__exit__(None, None, None)
        raise
    return dict(lst=lst, blocks=blocks, infos=infos, state=state, stubs=stubs, allocs=allocs, ctx=ctx, beta2=beta2, eps=eps,
                bias=bias, tol=tol, cfg=cfg, kind=kind, orders=orders, ignored=list(ignored), param_dtype=param_dtype,
                factor_dtype=factor_dtype, fake=fake)


def havoc_state(c, diag="false"):
    """Replace the freshly allocated zeros by arbitrary symbolic values (any reachable state)."""
    lst = c["lst"]
    pre = []
    bc2 = SymReal("bc2_prev")
    assume(bc2.t > 0)
    # object invariant: the correction stays 1 unless (flag and beta2 < 1)
    assume(z3.Implies(z3.Not(z3.And(c["bias"].t, c["beta2"].t < 1)), bc2.t == 1))
    lst._bias_correction2 = SymTensor.real_scalar(bc2)
    for b, kf in enumerate(lst._local_kronecker_factors_list):
        d = dict(L=[], X=[], D=[])
        for k, fm in enumerate(kf.factor_matrices):
            fm.cell.set(z3.Array(f"L{b}_{k}", z3.IntSort(), z3.RealSort()), "havoc")
            d["L"].append(fm.v)
        second = kf.inv_factor_matrices if c["kind"] == "shampoo" else kf.factor_matrices_eigenvectors
        for k, x in enumerate(second):
            x.cell.set(z3.Array(f"X{b}_{k}", z3.IntSort(), z3.RealSort()), "havoc")
            d["X"].append(x.v)
        for k, dg in enumerate(kf.is_factor_matrices_diagonal):
            if diag == "sym" or (diag == "sym0" and b == 0):
                v = z3.Int(f"diag{b}_{k}")
                assume(z3.Or(v == 0, v == 1))
            else:
                v = z3.IntVal(1 if diag == "true" else 0)
            dg.cell.set(v, "havoc")
            d["D"].append(v)
        if c["kind"] != "shampoo":
            kf.corrected_eigenvalues.cell.set(z3.Array(f"C{b}", z3.IntSort(), z3.RealSort()), "havoc")
            d["C"] = kf.corrected_eigenvalues.v
        pre.append(d)
    cnt = [SymInt(f"failcount{b}") for b in range(len(c["orders"]))]
    for x in cnt:
        assume(x.t >= 0)
        assume(x.t <= c["tol"].t)  # invariant: a counter above the tolerance has already raised
    # keep the representation the implementation chose for a counter (plain int, or a shared one-element holder)
    old = lst._local_failed_amortized_computation_counter_list
    holders = bool(old) and isinstance(old[0], list)
    lst._masked_failed_amortized_computation_counter_list = [[x] for x in cnt] if holders else list(cnt)
    lst._local_failed_amortized_computation_counter_list = lst._masked_failed_amortized_computation_counter_list
    c["pre"], c["bc2_prev"], c["cnt_pre"] = pre, bc2, cnt
    return c


def pdims(order, ignored):
    return [d for d in range(order) if d not in ignored]


def gram_dims(order, k):
    a = [*range(k), *range(k + 1, order)]
    return [a, a]


def spec_gram(g, order, k):
    return _tensordot(g, g, gram_dims(order, k))


def spec_rotate(g, order, ignored, mats, dims=([0], [0])):
    """g x_k mats[j] over the preconditioned dims (in order), ignored dims only rotated; axes return to their
    original order after `order` steps."""
    it = iter(mats)
    cur = g
    for d in range(order):
        if d in ignored:
            cur = _permute(cur, [*range(1, order), 0])
        else:
            cur = _tensordot(cur, next(it), dims)
    return cur


def default_root(kind, order):
    return 2 * order if kind == "shampoo" else 2


def spec_root(kind, override, order):
    """root selection from the override (int or per-order list)"""
    if isinstance(override, list):
        if order < len(override):
            # documented: "If 0 is used, uses the default inverse root"; the constructor accepts every non-negative entry (C17)
            e = override[order]
            if isinstance(e, SymInt):
                return SymInt(z3.If(e.t == 0, z3.IntVal(default_root(kind, order)), e.t))
            return default_root(kind, order) if e == 0 else e
        return default_root(kind, order)
    if isinstance(override, SymInt):
        return SymInt(z3.If(override.t == 0, z3.IntVal(default_root(kind, order)), override.t))
    return default_root(kind, order) if override == 0 else override


def close(c):
    c["ctx"].__exit__(None, None, None)


# =========================================================================================================
# obligation generators


def _masks(order):
    for r in range(order + 1):
        for m in itertools.combinations(range(order), r):
            yield list(m)


def _override_variants(order, tier):
    """inv_root_override as a scalar (symbolic) or a per-order list (symbolic entries; lengths around `order`)."""
    v = [("int", None)]
    for n in sorted({0, order, order + 1} if tier == "quick" else set(range(0, 6))):
        if n <= 5:
            v.append(("list", n))
    return v


def shampoo_cases(tier):
    cs = []
    for order in range(0, 5):
        for m in _masks(order):
            if m:
                cs.append(f"plist/shampoo/o{order}/ign{''.join(map(str, m))}/int0")
            else:
                for kind, n in _override_variants(order, tier):
                    cs.append(f"plist/shampoo/o{order}/ign-/{kind}{'' if n is None else n}")
    return cs


def eig_cases(tier):
    cs = []
    for order in range(1, 5):
        for m in _masks(order):
            if m:
                cs.append(f"plist/eig/o{order}/ign{''.join(map(str, m))}/int0")
            else:
                for kind, n in _override_variants(order, tier):
                    cs.append(f"plist/eig/o{order}/ign-/{kind}{'' if n is None else n}")
    return cs


def _parse(case):
    _, kind, o, ign, ov = case.split("/")
    order = int(o[1:])
    ignored = [] if ign == "ign-" else [int(ch) for ch in ign[3:]]
    if ov == "int0":
        override = ("const0", None)
    elif ov == "int":
        override = ("int", None)
    else:
        override = ("list", int(ov[4:]))
    return kind, order, ignored, override


def _mk_override(ovk):
    k, n = ovk
    if k == "const0":
        return 0
    if k == "int":
        o = SymInt("inv_root_override")
        assume(o.t >= 0)
        return o
    lst = [SymInt(f"inv_root_override_{i}") for i in range(n)]
    for e in lst:
        assume(e.t >= 0)  # the constructor's domain (C17): every non-negative entry, 0 meaning "default root for that order"
    return lst


def run_list_case(case, tier, prop):
    """Shampoo (C01) / eigenvalue-corrected (C03) recurrences and wiring for one (order, ignored dims, override)."""
    import torch
    from matrix_functions_types import EigenConfig, EighEigenvectorConfig

    kind, order, ignored, ovk = _parse(case)
    cls_name = "ShampooPreconditionerList" if kind == "shampoo" else "EigenvalueCorrectedShampooPreconditionerList"
    F = lambda m: f"{cls_name}.{m}"
    pdt, fdt = torch.bfloat16, torch.float32  # parameter dtype != factor dtype on purpose (allocation dtypes are obligations)

    def fn():
        override = _mk_override(ovk)
        cfg_obj = EigenConfig(exponent_multiplier=SymReal("exponent_multiplier")) if kind == "shampoo" else EighEigenvectorConfig()
        if kind == "shampoo":
            assume(z3.Real("exponent_multiplier") > 0)
        c = build(kind, [order], ignored, override, faults=False, param_dtype=pdt, factor_dtype=fdt, cfg_obj=cfg_obj)
        try:
            init = dict(nfac=len(c["lst"]._local_kronecker_factors_list[0].factor_matrices),
                        alloc=[(a.size(), a.dtype, a.v) for a in c["allocs"]],
                        roots=list(c["lst"]._local_root_list), state_keys={k: list(v.keys()) for k, v in c["state"].items()})
            havoc_state(c, diag="false")
            G = SymTensor.array("G0", dtype=pdt, shape=c["blocks"][0].size())
            Gh = SymTensor.array("Ghat0", dtype=pdt, shape=c["blocks"][0].size())
            t = SymInt("step")
            assume(t.t >= 1)
            pac = SymBool(z3.Bool("perform_amortized_computation"))
            step_t = SymTensor.int_scalar(t)
            from vlib.tensor import compile_mode
            # C18: update_preconditioners is traced by PT2 (is_compiling answers symbolically; inside torch.compiler.disable'd callees it
            # answers False, as at run time); precondition is called from DistributedShampoo._precondition_and_grafting, which runs eagerly
            # iff it is (still) compiler-disabled and the only caller — decided on the current source by c18.precondition_runs_eagerly().
            with compile_mode("sym" if prop == "C18" else None):
                c["lst"].update_preconditioners(masked_grad_list=(G,), step=step_t, perform_amortized_computation=pac)
            kf = c["lst"]._local_kronecker_factors_list[0]
            post_upd = dict(L=[x.v for x in kf.factor_matrices],
                            X=[x.v for x in (kf.inv_factor_matrices if kind == "shampoo" else kf.factor_matrices_eigenvectors)],
                            bc2=c["lst"]._bias_correction2.at(0),
                            C=(kf.corrected_eigenvalues.v if kind != "shampoo" else None))
            pmode = None
            if prop == "C18":
                from checks import c18
                pmode = None if c18.precondition_runs_eagerly() else "sym"
            with compile_mode(pmode):
                res = c["lst"].precondition((Gh,))
            if prop == "C18":
                # step granularity: the state is observed where a step ends (after precondition), not between the two calls
                post_upd = dict(L=[x.v for x in kf.factor_matrices],
                                X=[x.v for x in (kf.inv_factor_matrices if kind == "shampoo" else kf.factor_matrices_eigenvectors)],
                                bc2=c["lst"]._bias_correction2.at(0),
                                C=(kf.corrected_eigenvalues.v if kind != "shampoo" else None))
            return dict(c=c, init=init, G=G, Gh=Gh, t=t, pac=pac, post=post_upd, res=res, override=override,
                        frame=(G.cell.version, Gh.cell.version, c["blocks"][0].cell.version), Gh_v=Gh.v)
        finally:
            close(c)

    paths = Explorer().run(fn)
    out = []
    pd = pdims(order, ignored)
    mvs = dict(beta2=z3.Real("beta2"), epsilon=z3.Real("epsilon"), step=z3.Int("step"), bc2_prev=z3.Real("bc2_prev"),
               use_bias_correction=z3.Bool("use_bias_correction"), pac=z3.Bool("perform_amortized_computation"), idx=IDX)
    n_ret = 0
    n_unexp = 0
    for pi, p in enumerate(paths):
        tag = f"[{case}]#p{pi}"
        hyp = p.cond()
        pacb = z3.Bool("perform_amortized_computation")
        if p.outcome == "abort":
            out.append(result(F("path-supported") + tag, cls_name, "unknown", text=str(p.value), case=case))
            continue
        if p.outcome == "raise":
            from distributed_shampoo.shampoo_types import PreconditionerValueError
            if isinstance(p.value, PreconditionerValueError):
                out.append(prove(F("update_preconditioners/value-error-only-at-refresh") + tag, F("_amortized_computation"), hyp, pacb,
                                 model_vars=mvs, text="PreconditionerValueError is raised only on a refresh step", case=case))
            else:
                n_unexp += 1
                out.append(prove(F("no-unexpected-exception") + f"[{case}]", cls_name, hyp, z3.BoolVal(False), model_vars=mvs,
                                 text=f"{type(p.value).__name__}: {p.value}", case=case, replay=dict(kind="plist", case=case)))
            continue
        n_ret += 1
        v = p.value
        c, init, post = v["c"], v["init"], v["post"]
        pre = c["pre"][0]
        beta2, eps, bias = c["beta2"], c["eps"], c["bias"]
        # ---- constructor wiring ----
        shp_ok = init["nfac"] == len(pd)
        out.append(result(F("__init__/one-factor-per-preconditioned-dim") + tag, F("__init__"), "discharged" if shp_ok else "violated",
                          backend="structure", text=f"{init['nfac']} factor matrices for preconditioned dims {pd}", case=case))
        blk = c["blocks"][0]
        nexp = 2 * len(pd) + (1 if kind != "shampoo" else 0)
        good = len(init["alloc"]) == nexp
        goals = []
        if good:
            second = init["alloc"][:len(pd)]
            facs = init["alloc"][len(pd):2 * len(pd)] if kind == "shampoo" else init["alloc"][len(pd) + 1:]
            for j, d in enumerate(pd):
                n = blk.size()[d].t
                for (shape, dt, val), want_dt in ((facs[j], fdt), (second[j], pdt)):
                    good = good and dt == want_dt and len(shape) == 2
                    if len(shape) == 2:
                        goals += [as_int(shape[0]) == n, as_int(shape[1]) == n, z3.Select(val, IDX) == 0]
            if kind != "shampoo":
                shape, dt, val = init["alloc"][len(pd)]
                good = good and dt == pdt and len(shape) == order
                goals += [as_int(s) == bs.t for s, bs in zip(shape, blk.size())] + [z3.Select(val, IDX) == 0]
        out.append(prove(F("__init__/state-allocated-as-zeros-with-block-and-factor-dtypes") + tag, F("__init__"), hyp,
                         z3.And(z3.BoolVal(bool(good)), *goals), model_vars=mvs, case=case, replay=dict(kind="plist", case=case),
                         text="factor k is (n_k,n_k) zeros in preconditioner dtype; inverse root / eigenbasis (and corrected eigenvalues) zeros in block dtype"))
        # ---- root selection ----
        want_root = spec_root(kind, v["override"], order)
        got_root = init["roots"][0]
        out.append(prove(F("_get_inverse_roots_from_override/root-selection") + tag, "BaseShampooPreconditionerList._get_inverse_roots_from_override_with_high_order_default",
                         hyp, as_int(got_root) == as_int(want_root), model_vars=dict(mvs, **_ov_vars(v["override"])), case=case, replay=dict(kind="plist", case=case),
                         text="root = override[order] if list and order < len else default; a 0 (scalar or list entry) means the default root for that order"))
        # ---- factor recurrence, bias correction ----
        G = v["G"]
        for j, d in enumerate(pd):
            gram = spec_gram(SymTensor.array("G0", shape=blk.size()), order, d)
            Lp = z3.Select(pre["L"][j], IDX)
            want = z3.If(beta2.t == 1, Lp + gram.at(IDX), beta2.t * Lp + (1 - beta2.t) * gram.at(IDX))
            out.append(prove(F("_update_factor_matrices/factor-recurrence") + tag + f"/k{j}", "BaseShampooPreconditionerList._update_factor_matrices",
                             hyp, z3.Select(post["L"][j], IDX) == want, model_vars=mvs, case=case, replay=dict(kind="plist", case=case),
                             text=f"factor {j} <- beta2*L + (1-beta2)*Gram_dim{d}(g)  (+= for beta2 = 1); Gram contracts all dims except {d}"))
        want_bc2 = z3.If(z3.And(bias.t, beta2.t < 1), 1 - real_pow(beta2.t, z3.Int("step")), z3.Real("bc2_prev"))
        out.append(prove(F("update_preconditioners/bias-correction2") + tag, "BaseShampooPreconditionerList.update_preconditioners", hyp,
                         post["bc2"] == want_bc2, model_vars=mvs, case=case, replay=dict(kind="plist", case=case), text="bias_correction2 = 1 - beta2^t iff flag and beta2 < 1, else held"))
        # ---- refresh ----
        calls = c["stubs"].calls
        if kind == "shampoo":
            mult = z3.Real("exponent_multiplier")
            for j, d in enumerate(pd):
                A_want = lam(lambda i: z3.Select(post["L"][j], i) / post["bc2"])
                if len(calls) > j:
                    cj = calls[j]
                    new = INVROOT(cj["A"], cj["root"], cj["eps"], cj["diag"])
                    arg_ok = z3.And(z3.Select(cj["A"], IDX) == z3.Select(A_want, IDX), cj["root"] == z3.ToReal(as_int(want_root)) / mult,
                                    cj["eps"] == eps.t, cj["diag"] == z3.BoolVal(False),
                                    z3.BoolVal(cj["cfg"] is c["cfg"].amortized_computation_config and cj["A_dtype"] == fdt and cj["diag_is_bool"]))
                    out.append(prove(F("_amortized_computation/inverse-root-call-args") + tag + f"/k{j}", F("_amortized_computation"), hyp,
                                     z3.Implies(pacb, arg_ok), model_vars=mvs, case=case, replay=dict(kind="plist", case=case),
                                     text="matrix_inverse_root(A=L_k/bias_correction2, root=Fraction(root/exponent_multiplier), config, epsilon, bool(is_diagonal))"))
                    goal = z3.If(pacb, z3.Select(post["X"][j], IDX) == z3.Select(new, IDX), z3.Select(post["X"][j], IDX) == z3.Select(pre["X"][j], IDX))
                else:
                    goal = z3.And(z3.Not(pacb), z3.Select(post["X"][j], IDX) == z3.Select(pre["X"][j], IDX))
                out.append(prove(F("_amortized_computation/inverse-root-refreshed-iff-flag") + tag + f"/k{j}", F("_amortized_computation"), hyp, goal,
                                 model_vars=mvs, case=case, replay=dict(kind="plist", case=case), text="refresh step: Linv_k <- matrix_inverse_root(...) ; otherwise held bit-for-bit"))
            ncalls_ok = z3.If(pacb, z3.BoolVal(len(calls) == len(pd)), z3.BoolVal(len(calls) == 0))
            out.append(prove(F("_amortized_computation/one-root-per-factor") + tag, F("_amortized_computation"), hyp, ncalls_ok, model_vars=mvs,
                             case=case, text="exactly one inverse-root computation per factor at a refresh, none otherwise"))
            # ---- precondition ----
            mats = [SymTensor(post["X"][j], dtype=pdt, shape=(blk.size()[d], blk.size()[d])) for j, d in enumerate(pd)]
            want = spec_rotate(SymTensor(v["Gh_v"], dtype=pdt, shape=blk.size()), order, ignored, mats)
            got = v["res"][0]
            out.append(prove(F("precondition/mode-products-in-order") + tag, F("precondition"), hyp,
                             z3.And(z3.BoolVal(len(v["res"]) == 1), got.at(IDX) == want.at(IDX)), model_vars=mvs, case=case, replay=dict(kind="plist", case=case),
                             text="direction = g x_0 Linv_0 x_1 ... (k-th inverse root with the k-th preconditioned dim; ignored dims only rotated)"))
        else:
            out += _eig_obligations(F, tag, case, hyp, mvs, v, c, pre, post, pd, order, ignored, calls, want_root, pdt, fdt, blk, eps, beta2)
        fr = v["frame"]
        out.append(result(F("frame/gradients-and-blocks-not-mutated") + tag, cls_name, "discharged" if fr == (0, 0, 0) else "violated",
                          backend="heap-versions", case=case, text="update_preconditioners / precondition do not write their inputs"))
    if n_unexp == 0:
        out.append(result(F("no-unexpected-exception") + f"[{case}]", cls_name, "discharged", backend="path-enumeration", case=case,
                          text="no feasible path raises anything but PreconditionerValueError / the tolerance ValueError"))
    out.append(result(F("cover:returning-paths") + f"[{case}]", cls_name, "violated" if n_ret else "discharged", kind="cover", case=case,
                      extra=dict(paths=len(paths))))
    if n_ret:
        p = [q for q in paths if q.outcome == "return"][0]
        post = p.value["post"]
        goal = (z3.Select(post["L"][0], IDX) == z3.Select(p.value["c"]["pre"][0]["L"][0], IDX)) if pd else z3.BoolVal(False)
        out.append(prove(F("canary:factor-never-changes") + f"[{case}]", cls_name, p.cond(), goal, kind="canary", case=case,
                         text="deliberately false: the first factor matrix is never updated (or: the path is infeasible)"))
    return out


def as_int(x):
    if isinstance(x, SymInt):
        return x.t
    return z3.IntVal(int(x))


def _ov_vars(ov):
    if isinstance(ov, list):
        return {f"inv_root_override[{i}]": e.t for i, e in enumerate(ov)}
    if isinstance(ov, SymInt):
        return {"inv_root_override": ov.t}
    return {}


def _eig_obligations(F, tag, case, hyp, mvs, v, c, pre, post, pd, order, ignored, calls, want_root, pdt, fdt, blk, eps, beta2):
    out = []
    pacb = z3.Bool("perform_amortized_computation")
    ANY = uf("any_nonzero", ARR, z3.BoolSort())
    # ---- basis refresh ----
    for j, d in enumerate(pd):
        if len(calls) > j:
            cj = calls[j]
            new = EIGVEC(cj["A"], cj["est"], cj["diag"])
            arg_ok = z3.And(z3.Select(cj["A"], IDX) == z3.Select(post["L"][j], IDX), z3.Select(cj["est"], IDX) == z3.Select(pre["X"][j], IDX),
                            cj["diag"] == z3.BoolVal(False),
                            z3.BoolVal(cj["cfg"] is c["cfg"].amortized_computation_config and cj["A_dtype"] == fdt and cj["diag_is_bool"]))
            out.append(prove(F("_amortized_computation/eigenvector-call-args") + tag + f"/k{j}", F("_amortized_computation"), hyp,
                             z3.Implies(pacb, arg_ok), model_vars=mvs, case=case, replay=dict(kind="plist", case=case),
                             text="matrix_eigenvectors(A=updated factor L_k, estimate=previous basis Q_k, config, bool(is_diagonal))"))
            goal = z3.If(pacb, z3.Select(post["X"][j], IDX) == z3.Select(new, IDX), z3.Select(post["X"][j], IDX) == z3.Select(pre["X"][j], IDX))
        else:
            goal = z3.And(z3.Not(pacb), z3.Select(post["X"][j], IDX) == z3.Select(pre["X"][j], IDX))
        out.append(prove(F("_amortized_computation/basis-refreshed-iff-flag") + tag + f"/k{j}", F("_amortized_computation"), hyp, goal,
                         model_vars=mvs, case=case, replay=dict(kind="plist", case=case), text="bases change only on the preconditioning schedule"))
    # ---- corrected eigenvalues: squared gradient rotated into the NEW basis ----
    Gs = SymTensor.array("G0", dtype=pdt, shape=blk.size())
    mats = [SymTensor(post["X"][j], dtype=pdt, shape=(blk.size()[d], blk.size()[d])) for j, d in enumerate(pd)]
    use_basis = ANY(post["X"][0]) if pd else z3.BoolVal(False)
    rot = spec_rotate(Gs, order, ignored, mats) if pd else Gs
    gsel = z3.If(use_basis, rot.at(IDX), Gs.at(IDX))
    Cp = z3.Select(pre["C"], IDX)
    wantC = z3.If(beta2.t == 1, Cp + gsel * gsel, beta2.t * Cp + (1 - beta2.t) * gsel * gsel)
    out.append(prove(F("_update_eigenvalue_corrections/second-moment-of-rotated-gradient") + tag, F("_update_eigenvalue_corrections"), hyp,
                     z3.Select(post["C"], IDX) == wantC, model_vars=mvs, case=case, replay=dict(kind="plist", case=case),
                     text="C <- beta2*C + (1-beta2)*rot(g)^2 every step, rot through the (refreshed) bases if a basis exists else identity"))
    # ---- precondition ----
    Gh = SymTensor(v["Gh_v"], dtype=pdt, shape=blk.size())
    rg = spec_rotate(Gh, order, ignored, mats) if pd else Gh
    root_t = z3.ToReal(as_int(want_root))
    denom = lambda i: real_pow(z3.Select(post["C"], i) / post["bc2"] + eps.t, 1 / root_t)
    in_basis = SymTensor(lam(lambda i: rg.at(i) / denom(i)), dtype=pdt, shape=blk.size())
    back = spec_rotate(in_basis, order, ignored, mats, dims=([0], [1])) if pd else in_basis
    plain = lam(lambda i: Gh.at(i) / denom(i))
    want = z3.If(use_basis, back.at(IDX), z3.Select(plain, IDX))
    got = v["res"][0]
    out.append(prove(F("precondition/rotate-divide-rotate-back") + tag, F("precondition"), hyp,
                     z3.And(z3.BoolVal(len(v["res"]) == 1), got.at(IDX) == want), model_vars=mvs, case=case, replay=dict(kind="plist", case=case),
                     text="direction = rot^-1( rot(g) / (C/bias_correction2 + eps)^(1/root) ); original coordinates before any basis exists; ignored dims never multiplied"))
    return out


# =========================================================================================================
# native tier: the real list classes on real torch tensors against the mathematical (einsum / eigh) definition.
# Used as the replay of list-class counter-models and as the bounded stand-in (never counted as proved).


def _mode_product(g, M, k):
    """g x_k M : contracts mode k of g with the first index of M, result keeps the mode order."""
    import torch
    return torch.movedim(torch.tensordot(g, M, dims=([k], [0])), -1, k)


def native_list_check(kind, shape, ignored, override, beta2, eps, bias, steps, refresh_at, seed, mult=1.0, pdt=None, fdt=None):
    """Runs the real list for `steps` steps on one block of `shape`; returns list of mismatch strings."""
    import torch
    from fractions import Fraction
    pl = _mods()
    from distributed_shampoo.utils.shampoo_block_info import BlockInfo
    from distributed_shampoo import shampoo_types as st
    from matrix_functions_types import EigenConfig, EighEigenvectorConfig

    pdt = pdt or torch.float64
    fdt = fdt or torch.float64
    gen = torch.Generator().manual_seed(seed)
    order = len(shape)
    blk = torch.zeros(shape, dtype=pdt)
    state = {blk: {}}
    info = BlockInfo(param=blk, composable_block_ids=(0, "block_0"))
    if kind == "shampoo":
        cfg = st.ShampooPreconditionerConfig(ignored_dims=list(ignored), amortized_computation_config=EigenConfig(exponent_multiplier=mult))
        cls = pl.ShampooPreconditionerList
    else:
        cfg = st.EigenvalueCorrectedShampooPreconditionerConfig(ignored_dims=list(ignored), amortized_computation_config=EighEigenvectorConfig())
        cls = pl.EigenvalueCorrectedShampooPreconditionerList
    lst = cls(block_list=(blk,), state=state, block_info_list=(info,), preconditioner_config=cfg, beta2=beta2, epsilon=eps,
              inv_root_override=override, use_bias_correction=bias, factor_matrix_dtype=fdt)
    pd = pdims(order, ignored)
    if isinstance(override, (list, tuple)):
        root = (override[order] or default_root(kind, order)) if order < len(override) else default_root(kind, order)  # 0 = default
    else:
        root = default_root(kind, order) if override == 0 else override
    L = [torch.zeros(shape[d], shape[d], dtype=torch.float64) for d in pd]
    X = [torch.zeros(shape[d], shape[d], dtype=torch.float64) for d in pd]
    C = torch.zeros(shape, dtype=torch.float64)
    bc2 = 1.0
    bad = []
    tol = 1e-7 if pdt == torch.float64 and fdt == torch.float64 else 2e-2
    for t in range(1, steps + 1):
        g = torch.randn(shape, generator=gen, dtype=torch.float64).to(pdt)
        gh = torch.randn(shape, generator=gen, dtype=torch.float64).to(pdt)
        pac = t in refresh_at
        lst.update_preconditioners(masked_grad_list=(g,), step=torch.tensor(t), perform_amortized_computation=pac)
        got = lst.precondition((gh,))[0]
        g64, gh64 = g.double(), gh.double()
        for j, d in enumerate(pd):
            A = torch.movedim(g64, d, 0).reshape(shape[d], -1)
            gram = A @ A.T
            L[j] = (L[j] + gram) if beta2 == 1.0 else (beta2 * L[j] + (1 - beta2) * gram)
        if bias and beta2 < 1.0:
            bc2 = 1.0 - beta2 ** t
        kf = lst._local_kronecker_factors_list[0]
        for j in range(len(pd)):
            if not torch.allclose(kf.factor_matrices[j].double(), L[j], rtol=tol, atol=tol):
                bad.append(f"step {t}: factor matrix {j} differs from beta2*L+(1-beta2)*Gram_dim{pd[j]}")
        if kind == "shampoo":
            if pac:
                for j in range(len(pd)):
                    lam_, Q = torch.linalg.eigh(L[j] / bc2)
                    lam_ = lam_ - min(float(lam_.min()), 0.0) + eps
                    X[j] = Q @ torch.diag(lam_ ** (-1.0 / (root / mult))) @ Q.T
            for j in range(len(pd)):
                if not torch.allclose(kf.inv_factor_matrices[j].double(), X[j], rtol=max(tol, 1e-5), atol=max(tol, 1e-5)):
                    bad.append(f"step {t}: inverse root {j} is not (L/bc2 + eps I)^(-1/{root}/{mult}) of the factor at the last refresh")
            want = gh64
            for j, d in enumerate(pd):
                want = _mode_product(want, X[j], d)
        else:
            if pac:
                for j in range(len(pd)):
                    X[j] = kf.factor_matrices_eigenvectors[j].double().clone()  # basis validity is C12's subject
                    Qj = X[j]
                    if not torch.allclose(Qj.T @ Qj, torch.eye(Qj.shape[0], dtype=torch.float64), atol=1e-5):
                        bad.append(f"step {t}: eigenbasis {j} not orthonormal")
                    D = Qj.T @ L[j] @ Qj
                    if not torch.allclose(D, torch.diag(torch.diagonal(D)), atol=1e-5 * max(1.0, float(D.abs().max()))):
                        bad.append(f"step {t}: eigenbasis {j} does not diagonalise its factor matrix")
            else:
                for j in range(len(pd)):
                    if not torch.equal(kf.factor_matrices_eigenvectors[j].double(), X[j]):
                        bad.append(f"step {t}: eigenbasis {j} changed off-schedule")
            have_basis = bool(pd) and bool(X[0].any())
            rot = g64
            roth = gh64
            if have_basis:
                for j, d in enumerate(pd):
                    rot = _mode_product(rot, X[j], d)
                    roth = _mode_product(roth, X[j], d)
            C = (C + rot * rot) if beta2 == 1.0 else (beta2 * C + (1 - beta2) * rot * rot)
            if not torch.allclose(kf.corrected_eigenvalues.double(), C, rtol=max(tol, 1e-6), atol=max(tol, 1e-6)):
                bad.append(f"step {t}: corrected eigenvalues differ from the second moment of the rotated gradient")
            want = roth / (C / bc2 + eps) ** (1.0 / root)
            if have_basis:
                for j, d in enumerate(pd):
                    want = _mode_product(want, X[j].T, d)
        if not torch.allclose(got.double(), want, rtol=max(tol, 1e-5), atol=max(tol, 1e-5)):
            bad.append(f"step {t}: preconditioned direction differs from the documented mode products (max diff {float((got.double() - want).abs().max()):.3e})")
        if bad:
            break
    return bad


def native_case(case, seed=0, steps=4, model=None):
    """Native check matching one symbolic case id (order / ignored dims / override kind); override values from the verifier's
    counter-model when it has them."""
    import random
    kind, order, ignored, ovk = _parse(case)
    rng = random.Random(f"{case}/{seed}")
    shape = [rng.choice([1, 2, 3]) for _ in range(order)]
    model = model or {}
    if ovk[0] == "const0":
        override = 0
    elif ovk[0] == "int":
        override = model.get("inv_root_override")
        override = int(override) if isinstance(override, (int, float)) and override >= 0 else rng.choice([0, 1, 2, 3])
    else:
        override = []
        for i in range(ovk[1]):
            v = model.get(f"inv_root_override[{i}]", model.get(f"inv_root_override_{i}"))
            override.append(int(v) if isinstance(v, (int, float)) and v >= 0 else rng.choice([0, 1, 2, 3, 4]))
    beta2 = rng.choice([1.0, 0.9, 0.5])
    bias = rng.choice([True, False])
    mult = rng.choice([1.0, 2.0, 0.5]) if kind == "shampoo" else 1.0
    refresh = {2, 4} if rng.random() < 0.5 else {1, 3}
    cfgd = dict(kind=kind, shape=shape, ignored=ignored, override=override, beta2=beta2, eps=1e-3, bias=bias, mult=mult, refresh=sorted(refresh))
    try:
        bad = native_list_check(kind, shape, ignored, override, beta2, 1e-3, bias, steps, refresh, seed, mult=mult)
    except BaseException as e:  # noqa
        bad = [f"real list class raised {type(e).__name__}: {e}"]
    return cfgd, bad


def replay_plist(rp, model=None):
    out = []
    for seed in range(6):
        cfgd, bad = native_case(rp["case"], seed, model=model)
        if bad:
            return True, f"native run {cfgd}: " + "; ".join(bad[:3])
    return False, "6 native runs of this configuration agree with the documented recurrences"
