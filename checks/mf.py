"""E2 harnesses for matrix_functions.py shared by C10 (dispatch, fast paths, solver flags / guards), C11 (spectral form,
scalar positivity facts, shape rejection, double-precision retry) and C12 (eigenvector dispatch, QR loop structure).
Dense linear algebra (eigh, qr, matmul, matrix_power, norms) is uninterpreted; what is proved is everything around it."""
from __future__ import annotations

import dataclasses
from fractions import Fraction

import z3

from vlib.driver import prove, result
from vlib.sym import Explorer, POW, SymBool, SymInt, SymReal, as_real, assume, real_pow
from vlib.tensor import ARR, FakeTorch, SymTensor, lam, rebind, uf, _arr

IDX = z3.Int("idx")


def M():
    import matrix_functions as mf
    return mf


def _A(shape, dtype=None, name="A"):
    import torch
    return SymTensor.array(name, dtype=dtype or torch.float32, shape=shape)


ROOTS = [Fraction(1), Fraction(2), Fraction(4), Fraction(3, 2), Fraction(8, 3)]


# ---------------------------------------------------------------------------------------------------------
# 1. dispatch of matrix_inverse_root


def dispatch_cases():
    cs = []
    for cfg in ("eigen", "eigen-stab", "newton", "higher", "unknown"):
        for shp in ("scalar0", "scalar1", "scalar11", "vec", "rect", "cube", "square"):
            for diag in ("d0", "d1"):
                cs.append(f"dispatch/{cfg}/{shp}/{diag}")
    return cs


def _cfg(name):
    from matrix_functions_types import CoupledHigherOrderConfig, CoupledNewtonConfig, EigenConfig, RootInvConfig
    if name == "eigen":
        return EigenConfig(retry_double_precision=False)
    if name == "eigen-stab":
        # a non-default exponent_multiplier: the CALLER (the preconditioner list) folds it into `root`; matrix_inverse_root itself must hand `root`
        # on unchanged (C10: result = (A + eps I)^(-1/root); C11: eigenvalues <= eps^(-1/root))
        return EigenConfig(enhance_stability=True, exponent_multiplier=1.82)
    if name == "newton":
        return CoupledNewtonConfig(max_iterations=7, tolerance=1e-3)
    if name == "higher":
        return CoupledHigherOrderConfig(rel_epsilon=0.5, max_iterations=9, tolerance=1e-4, order=4, disable_tf32=False)

    @dataclasses.dataclass(kw_only=True)
    class Unknown(RootInvConfig):
        pass

    return Unknown()


def _shape(shp):
    n, m, k = SymInt("n"), SymInt("m"), SymInt("k")
    for x in (n, m, k):
        assume(x.t >= 1)
    return dict(scalar0=(), scalar1=(1,), scalar11=(1, 1), vec=(n,), rect=(n, m), cube=(n, m, k), square=(n, n))[shp]


def run_dispatch(case, psd_only=True):
    mf = M()
    _, cfgname, shp, d = case.split("/")
    is_diag = d == "d1"
    func = "matrix_inverse_root"
    out = []
    for root in ROOTS:
        calls = []

        def fn():
            del calls[:]
            A = _A(_shape(shp))
            eps = SymReal("epsilon")
            assume(eps.t >= 0)
            cfg = _cfg(cfgname)

            def rec(name, ret):
                def f(**kw):
                    calls.append((name, kw))
                    return ret
                return f

            X = SymTensor.array("X_solver")
            binds = [(mf, "torch", FakeTorch()),
                     (mf, "_matrix_inverse_root_diagonal", rec("diagonal", X)),
                     (mf, "_matrix_inverse_root_eigen", rec("eigen", (X, None, None))),
                     (mf, "_matrix_inverse_root_newton", rec("newton", (X, None, mf.NewtonConvergenceFlag.CONVERGED, 0, None))),
                     (mf, "_matrix_inverse_root_higher_order", rec("higher", (X, None, mf.NewtonConvergenceFlag.CONVERGED, 0, None)))]
            with rebind(binds):
                r = mf.matrix_inverse_root(A, root, root_inv_config=cfg, epsilon=eps, is_diagonal=is_diag)
            return r, A, cfg, list(calls), X

        paths = Explorer().run(fn)
        for pi, p in enumerate(paths):
            tag = f"[{case}/r{root.numerator}_{root.denominator}]#p{pi}"
            hyp = p.cond()
            n, m = z3.Int("n"), z3.Int("m")
            numel = dict(scalar0=z3.IntVal(1), scalar1=z3.IntVal(1), scalar11=z3.IntVal(1), vec=n, rect=n * m, cube=n * m * z3.Int("k"), square=n * n)[shp]
            two_d = shp in ("rect", "square", "scalar11")
            square = z3.BoolVal(True) if shp in ("square", "scalar11") else (n == m)
            mv = dict(n=n, m=m, k=z3.Int("k"), epsilon=z3.Real("epsilon"))
            rp = dict(kind="dispatch", cfg=cfgname, shp=shp, diag=is_diag, root=[root.numerator, root.denominator])
            if p.outcome == "abort":
                out.append(result(f"{func}/supported{tag}", func, "unknown", text=str(p.value), case=case))
                continue
            if p.outcome == "raise":
                e = p.value
                if isinstance(e, NotImplementedError):
                    want = z3.And(numel != 1, z3.BoolVal(two_d), square, z3.BoolVal(not is_diag and cfgname == "unknown"))
                    txt = "NotImplementedError only for an unsupported config type on a square 2-D matrix that is not flagged diagonal"
                elif isinstance(e, ValueError):
                    newton_frac = cfgname == "newton" and root.denominator != 1 and not is_diag
                    want = z3.And(numel != 1, z3.Or(z3.BoolVal(not two_d), z3.Not(square), z3.BoolVal(newton_frac)))
                    txt = "ValueError only for >1 elements and (not 2-D, or not square, or Newton with a non-integer root)"
                else:
                    want, txt = z3.BoolVal(False), f"unexpected {type(e).__name__}: {e}"
                out.append(prove(f"{func}/raise-condition{tag}", func, hyp, want, model_vars=mv, text=txt, case=case, replay=rp))
                continue
            r, A, cfg, calls, X = p.value
            if not calls:
                a = A.at(IDX)
                shifted = a - z3.If(a <= 0, a, 0) + z3.Real("epsilon")
                goal = z3.And(numel == 1, r.at(IDX) == real_pow(shifted, as_real(-1.0 / root).t))
                mv1 = dict(mv, a=a)
                if psd_only:
                    out.append(prove(f"{func}/1x1-fast-path=general-path-on-PSD-input{tag}", func, z3.And(hyp, a >= 0), goal, model_vars=mv1, case=case, replay=rp,
                                     text="a single-element PSD input returns (a + epsilon)^(-1/root), the value of the general path, and calls no solver"))
                else:
                    out.append(prove(f"{func}/1x1-fast-path=spectral-formula-for-any-sign{tag}", func, hyp, goal, model_vars=mv1, case=case,
                                     replay=dict(rp, kind="scalar1x1"),
                                     text="a single-element input returns (a - min(a,0) + epsilon)^(-1/root): finite and positive also for a slightly negative entry"))
                continue
            name, kw = calls[0]
            ok = len(calls) == 1 and r is X and kw.get("A") is A and kw.get("root") == (root.numerator if name == "newton" else root)
            if is_diag:
                ok = ok and name == "diagonal" and isinstance(kw.get("epsilon"), SymReal)
            elif cfgname in ("eigen", "eigen-stab"):
                ok = ok and name == "eigen" and kw.get("retry_double_precision") == cfg.retry_double_precision and \
                    kw.get("enhance_stability") == cfg.enhance_stability and kw.get("eigen_decomp_offload_device") == cfg.eigen_decomp_offload_device and \
                    isinstance(kw.get("epsilon"), SymReal)
            elif cfgname == "newton":
                ok = ok and name == "newton" and kw.get("max_iterations") == 7 and kw.get("tolerance") == 1e-3 and isinstance(kw.get("epsilon"), SymReal)
            elif cfgname == "higher":
                ok = ok and name == "higher" and kw.get("rel_epsilon") == 0.5 and kw.get("max_iterations") == 9 and kw.get("tolerance") == 1e-4 and \
                    kw.get("order") == 4 and kw.get("disable_tf32") is False and isinstance(kw.get("abs_epsilon"), SymReal)
            else:
                ok = False
            out.append(prove(f"{func}/dispatch-on-config-type-with-its-parameters{tag}", func, hyp, z3.And(z3.BoolVal(bool(ok)), numel != 1, square),
                             model_vars=mv, case=case, replay=rp,
                             text=f"square 2-D input: diagonal flag -> diagonal path, else the solver named by the config type, with A, root, epsilon and the config's own parameters (called: {name})"))
    return out


# ---------------------------------------------------------------------------------------------------------
# 2./3. diagonal and eigen paths: spectral form and scalar facts


def run_diag_eigen(case):
    mf = M()
    import torch
    kind = case.split("/")[1]
    out = []
    roots = ROOTS + [Fraction(0), Fraction(-2)]
    for root in roots:
        for stab in ((False, True) if kind == "eigen" else (False,)):
            def fn():
                n = SymInt("n")
                assume(n.t >= 1)
                A = _A((n, n), dtype=torch.float32)
                eps = SymReal("epsilon")
                assume(eps.t > 0)
                ft = FakeTorch()
                with rebind([(mf, "torch", ft)]):
                    if kind.startswith("diagonal"):
                        return mf._matrix_inverse_root_diagonal(A, root, eps), A, ft
                    return mf._matrix_inverse_root_eigen(A, root, epsilon=eps, retry_double_precision=False, enhance_stability=stab), A, ft

            paths = Explorer().run(fn)
            func = "_matrix_inverse_root_diagonal" if kind.startswith("diagonal") else "_matrix_inverse_root_eigen"
            for pi, p in enumerate(paths):
                tag = f"[{case}/r{root.numerator}_{root.denominator}/s{int(stab)}]#p{pi}"
                hyp = p.cond()
                rp = dict(kind="eigen", path=kind, root=[root.numerator, root.denominator], stab=stab)
                if p.outcome == "abort":
                    out.append(result(f"{func}/supported{tag}", func, "unknown", text=str(p.value), case=case))
                    continue
                if p.outcome == "raise":
                    ok = isinstance(p.value, ValueError) and root <= 0
                    out.append(result(f"{func}/nonpositive-root-rejected{tag}", func, "discharged" if ok else "violated", backend="path-enumeration", case=case,
                                      text=f"root {root}: {type(p.value).__name__}: {p.value}"[:160], replay=rp))
                    continue
                if root <= 0:
                    out.append(result(f"{func}/nonpositive-root-rejected{tag}", func, "violated", text=f"root {root} accepted", case=case, replay=rp))
                    continue
                res, A, ft = p.value
                e = as_real(-1.0 / root).t
                eps = z3.Real("epsilon")
                if kind.startswith("diagonal"):
                    dg = uf("diagonal", ARR, ARR)(A.v)
                    dmin = uf("min_entry", ARR, z3.RealSort())(dg)
                    if kind == "diagonal":
                        # C10 (PSD input: no diagonal entry is negative)
                        want = uf("diag", ARR, ARR)(lam(lambda i: real_pow(z3.Select(dg, i) + eps, e)))
                        out.append(prove(f"{func}/diag((a_ii+eps)^(-1/r)){tag}", func, z3.And(hyp, dmin >= 0), res.at(IDX) == z3.Select(want, IDX), case=case, replay=rp,
                                         text="diagonal fast path returns diag((a_ii + epsilon)^(-1/root)) — the general spectral formula restricted to diagonal PSD input"))
                    else:
                        # C11 (any finite symmetric input): the eigenvalues of a diagonal matrix are its diagonal entries, so the general path computes
                        # f(a_ii) with f(x) = (x - min(min_j a_jj, 0) + eps)^(-1/r); the fast path must return the same value
                        sh = lambda i: z3.Select(dg, i) - z3.If(dmin <= 0, dmin, 0) + eps
                        want = uf("diag", ARR, ARR)(lam(lambda i: real_pow(sh(i), e)))
                        out.append(prove(f"{func}/diagonal-fast-path=spectral-formula-for-any-sign{tag}", func, hyp, res.at(IDX) == z3.Select(want, IDX), case=case,
                                         replay=dict(kind="diag_any_sign", root=[root.numerator, root.denominator]), model_vars=dict(epsilon=eps, min_diagonal_entry=dmin),
                                         text="diagonal fast path = diag((a_ii - min(min_j a_jj, 0) + epsilon)^(-1/root)): the value of the general (eigendecomposition) path on a diagonal "
                                              "matrix, finite and positive also when round-off left a slightly negative diagonal entry"))
                        out.append(prove(f"{func}/diagonal-fast-path:shifted-entry>=epsilon>0{tag}", func, z3.And(hyp, dmin <= z3.Select(dg, IDX)), sh(IDX) >= eps, case=case,
                                         text="every shifted diagonal entry is >= epsilon > 0"))
                    continue
                X, L, Q = res
                Aarg = A.v if not stab else lam(lambda i: z3.Select(A.v, i) + eps * z3.Select(uf("eye", z3.IntSort(), ARR)(z3.Int("n")), i))
                L0 = uf("eigh_L", ARR, ARR)(Aarg)
                Q0 = uf("eigh_Q", ARR, ARR)(Aarg)
                lmin = uf("min_entry", ARR, z3.RealSort())(L0)
                if not stab:
                    shifted = lambda i: z3.Select(L0, i) - z3.If(lmin <= 0, lmin, 0) + eps
                else:
                    shifted = lambda i: z3.Select(L0, i) - z3.If(lmin - eps <= 0, lmin - eps, 0)
                out.append(prove(f"{func}/eigenvalues-shifted-by-min(lambda_min,0)-then-eps{tag}", func, hyp, L.at(IDX) == shifted(IDX), case=case, replay=rp,
                                 text="returned eigenvalues: lambda - min(lambda_min, 0) + epsilon (stability variant: eigenvalues of A + eps I shifted by -min(lambda_min - eps, 0))"))
                Lp = lam(lambda i: real_pow(shifted(i), e))
                QT = uf("permute_L1_0J", ARR, ARR)(Q0)
                want = uf("matmul", ARR, ARR, ARR)(uf("scale_columns", ARR, ARR, ARR)(Q0, Lp), QT)
                out.append(prove(f"{func}/spectral-form-Q-f(Lambda)-Qt{tag}", func, hyp, z3.And(X.at(IDX) == z3.Select(want, IDX), Q.at(IDX) == z3.Select(Q0, IDX)),
                                 case=case, replay=rp, text="X = (Q * f(lambda)) @ Q^T with f(lambda) = (shifted lambda)^(-1/root), Q from eigh of the (ridged) input"))
                # scalar facts (C11): with lambda_min <= lambda_i (assumed contract of torch.min over eigh's eigenvalues), shifted >= eps > 0
                lam_i = z3.Select(L0, IDX)
                pre = z3.And(hyp, lmin <= lam_i)
                out.append(prove(f"{func}/shifted-eigenvalue>=epsilon>0{tag}", func, pre, shifted(IDX) >= eps if not stab else shifted(IDX) >= eps, case=case, replay=rp,
                                 text="every shifted eigenvalue is >= epsilon > 0, also for zero / rank-deficient / slightly indefinite input"))
    return out


def run_power_lemma(case):
    """0 < x^(-1/r) <= eps^(-1/r) for x >= eps > 0, r > 0 — from monotonicity and positivity of real powers (assumed axioms of pow)"""
    func = "_matrix_inverse_root_eigen"
    x, eps, a = z3.Reals("x eps a")
    hyp = z3.And(eps > 0, x >= eps, a < 0,
                 POW(x, a) > 0, POW(eps, a) > 0,  # positivity of powers of positive reals (axiom instances)
                 z3.Implies(x >= eps, POW(x, a) <= POW(eps, a)))  # antitone in the base for a negative exponent (axiom instance)
    return [prove(f"{func}/lemma:0<f(lambda)<=eps^(-1/r)[{case}]", func, hyp, z3.And(POW(x, a) > 0, POW(x, a) <= POW(eps, a)), case=case,
                  text="eigenvalues of the result lie in (0, epsilon^(-1/r)] (finite): from shifted lambda >= epsilon and the assumed monotone-power axioms"),
            prove(f"{func}/canary:power-unbounded[{case}]", func, z3.And(eps > 0, x >= eps, a < 0), POW(x, a) <= POW(eps, a), kind="canary", case=case)]


# ---------------------------------------------------------------------------------------------------------
# 4. matrix_eigenvalue_decomposition: double-precision retry rule


class _FailingLinalg:
    def __init__(self, inner):
        self.inner = inner
        self.calls = []

    def eigh(self, a):
        k = len(self.calls)
        self.calls.append(a.dtype)
        if bool(SymBool(z3.Bool(f"eigh_fails_{k}"))):
            raise RuntimeError(f"injected eigh failure {k}")
        return self.inner.eigh(a)

    def __getattr__(self, n):
        return getattr(self.inner, n)


def run_eigdecomp(case):
    mf = M()
    import torch
    func = "matrix_eigenvalue_decomposition"
    out = []
    for dtname, dt in (("f32", torch.float32), ("f64", torch.float64), ("bf16", torch.bfloat16)):
        for retry in (True, False):
            def fn():
                n = SymInt("n")
                assume(n.t >= 1)
                A = _A((n, n), dtype=dt)
                ft = FakeTorch()
                fl = _FailingLinalg(ft.linalg)
                object.__setattr__(ft, "linalg", fl)
                with rebind([(mf, "torch", ft)]):
                    try:
                        L, Q = mf.matrix_eigenvalue_decomposition(A, retry_double_precision=retry)
                        return ("ok", L, Q, fl.calls)
                    except RuntimeError as e:
                        return ("raised", str(e), None, fl.calls)

            paths = Explorer().run(fn)
            for pi, p in enumerate(paths):
                tag = f"[{case}/{dtname}/retry{int(retry)}]#p{pi}"
                if p.outcome != "return":
                    out.append(result(f"{func}/no-unexpected-exception{tag}", func, "unknown" if p.outcome == "abort" else "violated", text=repr(p.value)[:200], case=case))
                    continue
                st, a, b, calls = p.value
                f0, f1 = z3.Bool("eigh_fails_0"), z3.Bool("eigh_fails_1")
                may_retry = retry and dt != torch.float64
                if st == "ok":
                    if len(calls) == 1:
                        goal = z3.Not(f0)
                    else:
                        goal = z3.And(f0, z3.BoolVal(may_retry and len(calls) == 2 and calls[1] == torch.float64), z3.Not(f1))
                    txt = "success: first attempt succeeded, or it threw and exactly one retry in float64 (allowed only if retry flag and dtype != float64) succeeded"
                else:
                    goal = z3.And(f0, z3.Or(z3.BoolVal(not may_retry and len(calls) == 1), z3.And(z3.BoolVal(may_retry and len(calls) == 2), f1)))
                    txt = "raise: the first attempt threw and no retry was allowed, or the float64 retry threw as well"
                out.append(prove(f"{func}/double-precision-retry-rule{tag}", func, p.cond(), goal, model_vars=dict(eigh_fails_0=f0, eigh_fails_1=f1), text=txt, case=case,
                                 replay=dict(kind="eigdecomp", dt=dtname, retry=retry)))
    return out


# ---------------------------------------------------------------------------------------------------------
# 5. coupled Newton: convergence flag


def run_newton(case):
    mf = M()
    import torch
    it = int(case.split("/it")[1])
    func = "_matrix_inverse_root_newton"
    out = []
    for root in (1, 2, 4):
        def fn():
            n = SymInt("n")
            assume(n.t >= 1)
            A = _A((n, n))
            eps, tol = SymReal("epsilon"), SymReal("tolerance")
            assume(z3.And(eps.t >= 0, tol.t >= 0))
            ft = FakeTorch()
            with rebind([(mf, "torch", ft)]):
                return mf._matrix_inverse_root_newton(A, root, epsilon=eps, max_iterations=it, tolerance=tol)

        paths = Explorer().run(fn)
        for pi, p in enumerate(paths):
            tag = f"[{case}/r{root}]#p{pi}"
            if p.outcome != "return":
                out.append(result(f"{func}/no-exception{tag}", func, "unknown" if p.outcome == "abort" else "violated", text=repr(p.value)[:200], case=case))
                continue
            X, Mm, flag, iters, err = p.value
            hyp = p.cond()
            tol = z3.Real("tolerance")
            ident = uf("eye", z3.IntSort(), ARR)(z3.Int("n"))
            err_of_M = uf("dist_inf", ARR, ARR, z3.RealSort())(Mm.v, ident)
            if it == 0:
                # documented initialisation (docstring): A_ridge = A + eps I, z = (p + 1) / (2 |A_ridge|_F), X0 = z^(1/p) I, M0 = z A_ridge
                eps = z3.Real("epsilon")
                ridge = lam(lambda i: z3.Select(z3.Array("A", z3.IntSort(), z3.RealSort()), i) + eps * z3.Select(ident, i))
                from vlib.tensor import NORM
                zz = (root + 1) / (2 * NORM(ridge))
                g0 = z3.And(Mm.at(IDX) == zz * z3.Select(ridge, IDX), X.at(IDX) == real_pow(zz, as_real(1 / root).t) * z3.Select(ident, IDX))
                out.append(prove(f"{func}/initial-scaling-uses-the-ridge-regularised-matrix{tag}", func, hyp, g0, model_vars=dict(tolerance=tol, epsilon=eps), case=case,
                                 replay=dict(kind="newton"),
                                 text="X0 = z^(1/p) I, M0 = z (A + eps I) with z = (p + 1) / (2 ||A + eps I||_F): the scaling that guarantees convergence is computed from the regularised matrix"))
            conv = flag == mf.NewtonConvergenceFlag.CONVERGED
            goal = z3.And(err.at(0) == err_of_M, z3.BoolVal(0 <= iters <= it), (err.at(0) <= tol) if conv else z3.And(err.at(0) > tol, z3.BoolVal(iters == it)))
            out.append(prove(f"{func}/flag-CONVERGED=>residual-of-returned-M<=tolerance{tag}", func, hyp, goal, model_vars=dict(tolerance=tol), case=case,
                             replay=dict(kind="newton"),
                             text="the reported error is ||M_returned - I||_inf; CONVERGED iff it is <= tolerance; otherwise the iteration budget was used up"))
    return out


# ---------------------------------------------------------------------------------------------------------
# 6. coupled higher-order: flags, residual guard, tf32 restore


def run_higher(case):
    mf = M()
    _, its, os_ = case.split("/")
    it, order = int(its[2:]), int(os_[5:])
    func = "_matrix_inverse_root_higher_order"
    out = []
    for root in (Fraction(2), Fraction(4, 3)):
        for dis in (True, False):
            for tf0 in (True, False):
                def fn():
                    n = SymInt("n")
                    assume(n.t >= 1)
                    A = _A((n, n))
                    eps, tol = SymReal("abs_epsilon"), SymReal("tolerance")
                    assume(z3.And(eps.t >= 0, tol.t >= 0))
                    ft = FakeTorch()
                    ft.backends.cuda.matmul.allow_tf32 = tf0
                    fin = SymBool(z3.Bool("lambda_max_finite"))
                    with rebind([(mf, "torch", ft), (mf, "isfinite", lambda x: fin)]):
                        try:
                            r = mf._matrix_inverse_root_higher_order(A, root, rel_epsilon=0.0, abs_epsilon=eps, max_iterations=it, tolerance=tol, order=order, disable_tf32=dis)
                            return ("ok", r, ft.backends.cuda.matmul.allow_tf32)
                        except ArithmeticError as e:
                            return ("arith", str(e), ft.backends.cuda.matmul.allow_tf32)

                paths = Explorer().run(fn)
                for pi, p in enumerate(paths):
                    tag = f"[{case}/r{root.numerator}_{root.denominator}/d{int(dis)}t{int(tf0)}]#p{pi}"
                    if p.outcome != "return":
                        out.append(result(f"{func}/only-ArithmeticError-escapes{tag}", func, "unknown" if p.outcome == "abort" else "violated", text=repr(p.value)[:200], case=case,
                                          replay=dict(kind="higher")))
                        continue
                    st, r, tf_after = p.value
                    out.append(result(f"{func}/allow_tf32-restored-on-every-exit{tag}", func, "discharged" if tf_after == tf0 else "violated", backend="path-enumeration",
                                      case=case, text=f"allow_tf32 {tf0} -> {tf_after} after {st}", replay=dict(kind="higher")))
                    if st != "ok":
                        continue
                    X, Mm, flag, iters, true_err = r
                    hyp = p.cond()
                    tol = z3.Real("tolerance")
                    nanX = uf("any_nan_float32", ARR, z3.BoolSort())(X.v)
                    infX = uf("any_inf_float32", ARR, z3.BoolSort())(X.v)
                    goal = z3.And(z3.Not(true_err.at(0) > as_real(1e-1).t), z3.Not(nanX), z3.Not(infX), z3.BoolVal(1 <= iters <= max(it, 1)))
                    out.append(prove(f"{func}/normal-return=>residual-within-guard-and-finite{tag}", func, hyp, goal, model_vars=dict(tolerance=tol), case=case,
                                     replay=dict(kind="higher"), text="a returned result has residual |A X^p - I| <= 0.1 and no NaN/Inf; otherwise ArithmeticError is raised"))
                    ident = uf("eye", z3.IntSort(), ARR)(z3.Int("n"))
                    errM = uf("vector_norm_inf", ARR, z3.RealSort())(lam(lambda i: Mm.at(i) - z3.Select(ident, i)))
                    if flag == mf.NewtonConvergenceFlag.CONVERGED:
                        g2 = errM <= tol
                    elif flag == mf.NewtonConvergenceFlag.REACHED_MAX_ITERS:
                        g2 = z3.And(errM > tol, z3.BoolVal(iters >= it))
                    else:
                        g2 = z3.BoolVal(flag == mf.NewtonConvergenceFlag.EARLY_STOP)
                    out.append(prove(f"{func}/flag-matches-loop-exit{tag}", func, hyp, g2, model_vars=dict(tolerance=tol), case=case, replay=dict(kind="higher"),
                                     text="CONVERGED => |M - I| <= tolerance; REACHED_MAX_ITERS => budget used and tolerance not met; EARLY_STOP only from the stagnation/divergence break"))
    return out


# ---------------------------------------------------------------------------------------------------------
# 7. eigenvectors (C12) and check_diagonal


def run_eigvec(case):
    mf = M()
    import torch
    from matrix_functions_types import EighEigenvectorConfig, QRConfig, EigenvectorConfig
    _, cfgname, shp, d = case.split("/")
    is_diag = d == "d1"
    func = "matrix_eigenvectors"
    out = []

    @dataclasses.dataclass(kw_only=True)
    class Unknown(EigenvectorConfig):
        pass

    def fn():
        A = _A(_shape(shp), dtype=torch.float64)
        est = SymTensor.array("Q0", dtype=torch.float64, shape=A.size())
        cfg = dict(eigh=EighEigenvectorConfig(), qr=QRConfig(max_iterations=2, tolerance=SymReal("qr_tolerance")), unknown=Unknown())[cfgname]
        assume(z3.Real("qr_tolerance") >= 0)
        ft = FakeTorch()
        with rebind([(mf, "torch", ft)]):
            r = mf.matrix_eigenvectors(A, eigenvectors_estimate=est, eigenvector_computation_config=cfg, is_diagonal=is_diag)
        return r, A, est, ft.linalg_log

    paths = Explorer().run(fn)
    n, m = z3.Int("n"), z3.Int("m")
    numel = dict(scalar0=z3.IntVal(1), scalar1=z3.IntVal(1), scalar11=z3.IntVal(1), vec=n, rect=n * m, cube=n * m * z3.Int("k"), square=n * n)[shp]
    two_d = shp in ("rect", "square", "scalar11")
    square = z3.BoolVal(True) if shp in ("square", "scalar11") else (n == m)
    for pi, p in enumerate(paths):
        tag = f"[{case}]#p{pi}"
        hyp = p.cond()
        rp = dict(kind="eigvec", cfg=cfgname, shp=shp, diag=is_diag)
        if p.outcome == "abort":
            out.append(result(f"{func}/supported{tag}", func, "unknown", text=str(p.value), case=case))
            continue
        if p.outcome == "raise":
            e = p.value
            if isinstance(e, NotImplementedError):
                want = z3.And(numel != 1, z3.BoolVal(two_d), square, z3.BoolVal(not is_diag and cfgname == "unknown"))
            elif isinstance(e, ValueError):
                want = z3.And(numel != 1, z3.Or(z3.BoolVal(not two_d), z3.Not(square)))
            else:
                want = z3.BoolVal(False)
            out.append(prove(f"{func}/raise-condition{tag}", func, hyp, want, model_vars=dict(n=n, m=m), case=case, replay=rp,
                             text=f"{type(e).__name__}: shape rejection only for >1 elements not square 2-D; NotImplementedError only for unknown config"))
            continue
        r, A, est, log = p.value
        neigh = [e for e in log if e[0] == "eigh"]
        nqr = [e for e in log if e[0] == "qr"]
        if not log and not (cfgname != "unknown" and False):
            # 1x1 -> ones ; diagonal flag -> identity
            ones = r.at(IDX) == 1
            eye = r.at(IDX) == z3.Select(uf("eye", z3.IntSort(), ARR)(n), IDX)
            goal = z3.Or(z3.And(numel == 1, ones), z3.And(numel != 1, z3.BoolVal(is_diag and r.dtype == A.dtype), eye))
            out.append(prove(f"{func}/fast-paths:1x1->ones,diagonal->identity{tag}", func, hyp, goal, model_vars=dict(n=n, m=m), case=case, replay=rp,
                             text="no decomposition is computed only for a single element (returns ones) or a diagonal-flagged matrix (returns eye(n) in A's dtype)"))
            continue
        if cfgname == "eigh":
            Q0 = uf("eigh_Q", ARR, ARR)(A.v)
            ok = len(neigh) == 1 and not nqr
            out.append(prove(f"{func}/eigh-config-returns-eigh-eigenvectors{tag}", func, hyp, z3.And(z3.BoolVal(ok), r.at(IDX) == z3.Select(Q0, IDX), numel != 1, square),
                             case=case, replay=rp, text="eigendecomposition method: the eigenvector matrix of torch.linalg.eigh(A) (orthonormal / ascending / diagonalising by the assumed eigh contract)"))
        elif cfgname == "qr":
            anyz = uf("any_nonzero", ARR, z3.BoolSort())(est.v)
            if neigh:
                Q0 = uf("eigh_Q", ARR, ARR)(A.v)
                goal = z3.And(z3.Not(anyz), z3.BoolVal(len(neigh) == 1 and not nqr), r.at(IDX) == z3.Select(Q0, IDX))
                txt = "QR method with a zero estimate falls back to the eigendecomposition"
            else:
                # orthogonal iteration: Q_{k+1} = qr(A @ Q_k).Q, 1..max updates, then columns sorted by Rayleigh quotient
                Qk = est.v
                chain = []
                for _ in range(len(nqr)):
                    Qk = uf("qr_Q", ARR, ARR)(uf("matmul", ARR, ARR, ARR)(A.v, Qk))
                    chain.append(Qk)
                ray = uf("einsum_ij_ik_kj->j_3".replace(",", "_").replace(" ", ""), ARR, ARR, ARR, ARR) if False else None
                from vlib.tensor import _sig
                ein = uf("einsum_" + _sig("ij, ik, kj -> j") + "_3", ARR, ARR, ARR, ARR)(Qk, A.v, Qk)
                perm = uf("argsort", ARR, ARR)(ein)
                want = uf("index_" + _sig(("slice", "t")), ARR, ARR, ARR)(Qk, perm)
                qr_args_ok = all(z3.eq(z3.simplify(e[1]), z3.simplify(uf("matmul", ARR, ARR, ARR)(A.v, est.v if i == 0 else chain[i - 1]))) for i, e in enumerate(nqr))
                goal = z3.And(anyz, z3.BoolVal(1 <= len(nqr) <= 2 and qr_args_ok), r.at(IDX) == z3.Select(want, IDX))
                txt = "QR method: 1..max_iterations updates Q <- qr(A @ Q).Q starting from the estimate, then columns ordered by ascending Rayleigh quotient diag(Q^T A Q)"
            out.append(prove(f"{func}/qr-method-structure{tag}", func, hyp, goal, case=case, replay=rp, text=txt))
        else:
            out.append(result(f"{func}/unknown-config-rejected{tag}", func, "violated", text="unknown config returned a value", case=case, replay=rp))
    return out


def native_eigen_value():
    """the real eigendecomposition-based inverse root (default and enhance_stability) against the float64 spectral oracle
    (A + eps I)^(-1/r) on PSD input with a NON-negligible epsilon, and two successive calls (no hidden state between calls)"""
    import torch
    from matrix_functions_types import EigenConfig
    mf = M()
    g = torch.Generator().manual_seed(3)
    for n, eps, root in ((4, 1e-2, Fraction(2)), (6, 0.3, Fraction(4)), (3, 1e-3, Fraction(3, 2))):
        for stab in (False, True):
            prev = None
            for rep in range(2):
                B = torch.randn(n, n, generator=g, dtype=torch.float64)
                A = B @ B.T
                lam, Q = torch.linalg.eigh(A)
                want = (Q * (lam + eps).pow(-float(1 / root))) @ Q.T
                got = mf.matrix_inverse_root(A, root, root_inv_config=EigenConfig(enhance_stability=stab), epsilon=eps)
                rel = float((got - want).norm() / want.norm())
                # roots 2 and 4: the exponent -1/r is exact in the float32 tensor the code carries it in, so a float64 computation is
                # accurate to ~1e-13 * cond; anything coarser means a single-precision quantity leaked into the float64 computation
                if rel > (1e-10 if root.denominator == 1 and root.numerator in (2, 4) else 1e-6):
                    return f"matrix_inverse_root(A {n}x{n} float64 PSD, root={root}, epsilon={eps}, enhance_stability={stab}) (call {rep + 1} of this size) deviates from (A + eps I)^(-1/r) by {rel:.2e} relative"
    return None


def native_qr_rule():
    """the real QR method against a float64 re-implementation of the documented rule (stop when the RELATIVE change of the estimate is
    <= tolerance or the budget is used up), for budgets > 1 and tolerances around the observed changes"""
    import torch
    from matrix_functions_types import QRConfig
    mf = M()
    g = torch.Generator().manual_seed(11)
    for n in (4, 6):
        B = torch.randn(n, n, generator=g, dtype=torch.float64)
        A = B @ B.T + 0.1 * torch.eye(n, dtype=torch.float64)
        est, _ = torch.linalg.qr(torch.linalg.eigh(A)[1] + 0.05 * torch.randn(n, n, generator=g, dtype=torch.float64))
        # relative changes along the reference iteration
        Q, changes = est, []
        for _ in range(6):
            Qn = torch.linalg.qr(A @ Q).Q
            changes.append(float((Q - Qn).norm() / Q.norm()))
            Q = Qn
        for its in (2, 3, 5):
            for tol in sorted({0.0} | {c * f for c in changes[:4] for f in (0.5, 1.5, 2.0)}):
                Q, k, err = est, 0, float("inf")
                while k < its and err > tol:
                    Qn = torch.linalg.qr(A @ Q).Q
                    err = float((Q - Qn).norm() / Q.norm())
                    Q, k = Qn, k + 1
                ray = torch.einsum("ij,ik,kj->j", Q, A, Q)
                want = Q[:, ray.argsort()]
                got = mf.matrix_eigenvectors(A, eigenvectors_estimate=est, eigenvector_computation_config=QRConfig(max_iterations=its, tolerance=tol))
                dev = float(torch.minimum((got - want).abs().max(dim=0).values, (got + want).abs().max(dim=0).values).max())
                if dev > 1e-8:
                    return f"QR method n={n} max_iterations={its} tolerance={tol:.3e}: result differs from the documented rule (relative-change stopping test) by {dev:.2e}"
    return None


def native_qr_frame():
    """the real QR method must not write its inputs (the estimate is the optimizer's STORED eigenbasis when dtypes are equal)"""
    import torch
    from matrix_functions_types import QRConfig
    mf = M()
    g = torch.Generator().manual_seed(5)
    for dt in (torch.float32, torch.float64):
        B = torch.randn(5, 5, generator=g, dtype=dt)
        A = B @ B.T
        est = torch.linalg.qr(torch.randn(5, 5, generator=g, dtype=dt)).Q.contiguous()
        A0, e0 = A.clone(), est.clone()
        for its in (1, 3):
            mf.matrix_eigenvectors(A, eigenvectors_estimate=est, eigenvector_computation_config=QRConfig(max_iterations=its, tolerance=0.0))
            if not torch.equal(est, e0):
                return f"matrix_eigenvectors(QR, max_iterations={its}, {dt}) modified the eigenvector estimate it was given in place (max change {float((est - e0).abs().max()):.2e})"
            if not torch.equal(A, A0):
                return f"matrix_eigenvectors(QR, {dt}) modified the input matrix in place"
    return None


def native_checkdiag():
    """the real check_diagonal on matrices with exactly-zero and with tiny non-zero off-diagonal entries"""
    import torch
    mf = M()
    for dt in (torch.float32, torch.float64):
        for off in (1e-9, 1e-12, 1e-30):
            A = torch.eye(3, dtype=dt) * 2.0
            A[0, 2] = off
            A[2, 0] = off
            if mf.check_diagonal(A):
                return f"check_diagonal reports a matrix with off-diagonal entries {off} ({dt}) as diagonal"
            B = torch.diag(torch.tensor([1e-20, 3.0, 0.0], dtype=dt))
            if not mf.check_diagonal(B):
                return f"check_diagonal reports an exactly diagonal matrix ({dt}) as not diagonal"
        # few non-zero entries, all off the diagonal (row-sparse Gram matrix): not diagonal although count_nonzero <= n
        C = torch.zeros(5, 5, dtype=dt)
        C[0, 1] = C[1, 0] = 0.5
        if mf.check_diagonal(C):
            return f"check_diagonal reports a matrix whose only non-zero entries are OFF the diagonal ({dt}) as diagonal"
        D2 = torch.zeros(4, 4, dtype=dt)
        D2[0, 0], D2[1, 1], D2[0, 1], D2[1, 0] = 1.0, 1.0, 0.3, 0.3
        if mf.check_diagonal(D2):
            return f"check_diagonal reports a row-sparse non-diagonal matrix ({dt}) as diagonal"
    return None


def run_checkdiag(case):
    mf = M()
    func = "check_diagonal"
    out = []
    for shp in ("scalar0", "vec", "rect", "cube", "square", "scalar11"):
        def fn():
            A = _A(_shape(shp))
            with rebind([(mf, "torch", FakeTorch())]):
                return mf.check_diagonal(A), A

        for pi, p in enumerate(Explorer().run(fn)):
            tag = f"[{case}/{shp}]#p{pi}"
            n, m = z3.Int("n"), z3.Int("m")
            two_d = shp in ("rect", "square", "scalar11")
            square = z3.BoolVal(True) if shp in ("square", "scalar11") else (n == m)
            if p.outcome == "raise":
                want = z3.And(z3.BoolVal(isinstance(p.value, ValueError)), z3.Or(z3.BoolVal(not two_d), z3.Not(square)))
                out.append(prove(f"{func}/raise-condition{tag}", func, p.cond(), want, case=case, text="ValueError iff not 2-D or not square"))
            elif p.outcome == "return":
                r, A = p.value
                up = uf("any_nonzero", ARR, z3.BoolSort())(uf("triu_1", ARR, ARR)(A.v))
                lo = uf("any_nonzero", ARR, z3.BoolSort())(uf("tril_-1", ARR, ARR)(A.v))
                rv = r.t if isinstance(r, SymBool) else z3.BoolVal(bool(r))
                out.append(prove(f"{func}/diagonal-iff-both-strict-triangles-are-zero{tag}", func, p.cond(), z3.And(z3.BoolVal(two_d), square, rv == z3.And(z3.Not(up), z3.Not(lo))),
                                 case=case, replay=dict(kind="checkdiag"), text="True iff the strictly upper and strictly lower triangles contain no non-zero entry (EXACT test: a tiny off-diagonal entry is not diagonal)"))
            else:
                out.append(result(f"{func}/supported{tag}", func, "unknown", text=str(p.value), case=case))
    return out


# ---------------------------------------------------------------------------------------------------------
# 9. loop contracts: the iterative solvers for EVERY iteration budget (vlib/loops.py splits the real function around its while loop)


def _scalar(term):
    return SymTensor.real_scalar(SymReal(term))


def run_newton_loop(case):
    """_matrix_inverse_root_newton for arbitrary max_iterations >= 0: invariant  error == ||M - I||_inf  /\\  0 <= iteration <= max_iterations."""
    mf = M()
    from vlib.loops import LoopSplit
    func = "_matrix_inverse_root_newton"
    out = []
    try:
        sp = LoopSplit(mf._matrix_inverse_root_newton)
        if sp.shape != (False, 0):
            raise LookupError(f"the loop of _matrix_inverse_root_newton has control-flow shape (else clause, breaks) = {sp.shape}, the loop contract was written for (False, 0)")
    except LookupError as e:
        return [result(f"{func}/loop-contract-applicable[{case}]", func, "unknown", text=str(e), case=case)]
    out.append(result(f"{func}/loop-split-tiles-the-function[{case}]", func, "discharged", backend="ast", case=case, text=str(sp.describe())))
    ident = uf("eye", z3.IntSort(), ARR)(z3.Int("n"))
    dist = uf("dist_inf", ARR, ARR, z3.RealSort())
    tolv, mx = z3.Real("tolerance"), z3.Int("max_iterations")
    mvs = dict(tolerance=tolv, max_iterations=mx, iteration=z3.Int("iteration0"), error=z3.Real("error0"))

    dims = {}

    def setup(root):
        n = SymInt("n")
        dims["n"] = n  # the harness's own handle on the dimension (the code's local holding A.shape[0] may have any name)
        assume(n.t >= 1)
        A = _A((n, n))
        eps, tol, mxs = SymReal("epsilon"), SymReal("tolerance"), SymInt("max_iterations")
        assume(z3.And(eps.t >= 0, tol.t >= 0, mxs.t >= 0))
        return sp.pre(A, root, epsilon=eps, max_iterations=mxs, tolerance=tol)

    def havoc(env):
        """Arbitrary loop-head state satisfying the invariant: every name the loop body assigns is replaced."""
        import torch
        n = dims["n"]
        e = dict(env)
        for nm in sp.body_stores:
            e[nm] = None
        e["X"] = SymTensor.array("Xk", dtype=torch.float32, shape=(n, n))
        e["M"] = SymTensor.array("Mk", dtype=torch.float32, shape=(n, n))
        e["error"] = _scalar(dist(e["M"].v, ident))
        e["iteration"] = SymInt("iteration0")
        assume(z3.And(z3.Int("iteration0") >= 0, z3.Int("iteration0") <= mx, z3.Real("error0") == dist(e["M"].v, ident)))
        from vlib.loops import UNDEF
        for nm in sp.body_stores:
            if e[nm] is None:
                e[nm] = UNDEF
        return e

    def inv(env, it_prev=None):
        it = env["iteration"]
        itt = it.t if isinstance(it, SymInt) else z3.IntVal(it)
        g = [env["error"].at(0) == dist(env["M"].v, ident), itt >= 0, itt <= mx]
        if it_prev is not None:
            g.append(itt == it_prev + 1)
        return z3.And(*g)

    for root in (1, 2, 4):
        ft = FakeTorch()
        # -- init
        def fn_init():
            with rebind([(mf, "torch", ft)]):
                return setup(root)
        for pi, p in enumerate(Explorer().run(fn_init)):
            tag = f"[{case}/r{root}]#p{pi}"
            if p.outcome != "return":
                out.append(result(f"{func}/loop/init-no-exception{tag}", func, "unknown" if p.outcome == "abort" else "violated", text=repr(p.value)[:200], case=case))
                continue
            out.append(prove(f"{func}/loop/invariant-established{tag}", func, p.cond(), inv(p.value), model_vars=mvs, case=case, replay=dict(kind="newton"),
                             text="before the first iteration: error = ||M - I||_inf and iteration = 0 <= max_iterations"))
        # -- step
        def fn_step():
            with rebind([(mf, "torch", ft)]):
                env = havoc(setup(root))
                if not sp.test(env):
                    return None
                kind, e2 = sp.body(env)
                return kind, e2
        n_step = 0
        for pi, p in enumerate(Explorer().run(fn_step)):
            tag = f"[{case}/r{root}]#p{pi}"
            if p.outcome != "return":
                out.append(result(f"{func}/loop/step-no-exception{tag}", func, "unknown" if p.outcome == "abort" else "violated", text=repr(p.value)[:200], case=case))
                continue
            if p.value is None:
                continue
            n_step += 1
            kind, e2 = p.value
            out.append(prove(f"{func}/loop/invariant-preserved{tag}", func, p.cond(), z3.And(z3.BoolVal(kind == "next"), inv(e2, z3.Int("iteration0"))), model_vars=mvs, case=case,
                             replay=dict(kind="newton"), text="one iteration from ANY state satisfying the invariant and the loop test re-establishes it; iteration advances by exactly one and stays within the budget"))
        out.append(result(f"{func}/loop/cover:step-paths[{case}/r{root}]", func, "violated" if n_step else "discharged", kind="cover", case=case))
        # -- exit
        def fn_exit():
            with rebind([(mf, "torch", ft)]):
                env = havoc(setup(root))
                if sp.test(env):
                    return None
                return env, sp.post(env, broke=False)
        n_exit = 0
        for pi, p in enumerate(Explorer().run(fn_exit)):
            tag = f"[{case}/r{root}]#p{pi}"
            if p.outcome != "return":
                out.append(result(f"{func}/loop/exit-no-exception{tag}", func, "unknown" if p.outcome == "abort" else "violated", text=repr(p.value)[:200], case=case))
                continue
            if p.value is None:
                continue
            n_exit += 1
            env, (X, Mm, flag, iters, err) = p.value
            conv = flag == mf.NewtonConvergenceFlag.CONVERGED
            itt = iters.t if isinstance(iters, SymInt) else z3.IntVal(iters)
            goal = z3.And(err.at(0) == dist(Mm.v, ident), X.at(IDX) == env["X"].at(IDX), Mm.at(IDX) == env["M"].at(IDX), itt >= 0, itt <= mx,
                          (err.at(0) <= tolv) if conv else z3.And(err.at(0) > tolv, itt == mx, z3.BoolVal(flag == mf.NewtonConvergenceFlag.REACHED_MAX_ITERS)))
            out.append(prove(f"{func}/loop/exit:flag-CONVERGED<=>residual<=tolerance-for-every-budget{tag}", func, p.cond(), goal, model_vars=mvs, case=case, replay=dict(kind="newton"),
                             text="from ANY loop-exit state: the returned error is ||M_returned - I||_inf of the returned M; CONVERGED iff it is <= tolerance; otherwise REACHED_MAX_ITERS with the whole budget used"))
        out.append(result(f"{func}/loop/cover:exit-paths[{case}/r{root}]", func, "violated" if n_exit else "discharged", kind="cover", case=case))
    return out


def run_higher_loop(case):
    """_matrix_inverse_root_higher_order for arbitrary max_iterations: invariant  error == ||M - I||_inf  /\\  1 <= iteration <= max(max_iterations, 1);
    a `break` leaves termination_flag = EARLY_STOP; from ANY exit state the residual guard and the flag semantics hold."""
    mf = M()
    import torch
    from vlib.loops import LoopSplit, UNDEF
    func = "_matrix_inverse_root_higher_order"
    order = int(case.split("order")[1])
    out = []
    try:
        sp = LoopSplit(mf._matrix_inverse_root_higher_order)
        if sp.shape != (True, 0):
            raise LookupError(f"the loop of _matrix_inverse_root_higher_order has control-flow shape (else clause, breaks) = {sp.shape}, the loop contract was written for (True, 0)")
    except LookupError as e:
        return [result(f"{func}/loop-contract-applicable[{case}]", func, "unknown", text=str(e), case=case)]
    out.append(result(f"{func}/loop-split-tiles-the-function[{case}]", func, "discharged", backend="ast", case=case, text=str(sp.describe())))
    ident = uf("eye", z3.IntSort(), ARR)(z3.Int("n"))
    vnorm = uf("vector_norm_inf", ARR, z3.RealSort())
    tolv, mx = z3.Real("tolerance"), z3.Int("max_iterations")
    mvs = dict(tolerance=tolv, max_iterations=mx, iteration=z3.Int("iteration0"))
    cap = z3.If(mx >= 1, mx, z3.IntVal(1))

    def resid(Mt):
        return vnorm(lam(lambda i: Mt.at(i) - z3.Select(ident, i)))

    for root in (Fraction(2), Fraction(4, 3)):
        ft = FakeTorch()
        ft.backends.cuda.matmul.allow_tf32 = True
        fin = SymBool(z3.Bool("lambda_max_finite"))
        binds = [(mf, "torch", ft), (mf, "isfinite", lambda x: fin)]

        dims = {}

        def setup():
            n = SymInt("n")
            dims["n"] = n  # the harness's own handle on the dimension (the code's local that holds A.shape[0] may have any name)
            assume(n.t >= 1)
            A = _A((n, n))
            eps, tol, mxs = SymReal("abs_epsilon"), SymReal("tolerance"), SymInt("max_iterations")
            assume(z3.And(eps.t >= 0, tol.t >= 0, mxs.t >= 0))
            return sp.pre(A, root, rel_epsilon=0.0, abs_epsilon=eps, max_iterations=mxs, tolerance=tol, order=order, disable_tf32=False)

        def havoc(env, broke=False):
            n = dims["n"]
            e = dict(env)
            for nm in sp.body_stores:
                e[nm] = UNDEF
            e["X"] = SymTensor.array("Xk", dtype=torch.float32, shape=(n, n))
            e["M"] = SymTensor.array("Mk", dtype=torch.float32, shape=(n, n))
            e["iteration"] = SymInt("iteration0")
            e["n_matmul"] = SymInt("n_matmul0")
            assume(z3.And(z3.Int("iteration0") >= 1, z3.Int("iteration0") <= cap))
            if broke:
                e["error"] = _scalar(z3.Real("stale_error"))
                e["termination_flag"] = mf.NewtonConvergenceFlag.EARLY_STOP
            else:
                e["error"] = _scalar(resid(e["M"]))
            return e

        def inv(env, it_prev=None):
            it = env["iteration"]
            itt = it.t if isinstance(it, SymInt) else z3.IntVal(it)
            g = [env["error"].at(0) == resid(env["M"]), itt >= 1, itt <= cap]
            if it_prev is not None:
                g.append(itt == it_prev + 1)
            return z3.And(*g)

        rtag = f"r{root.numerator}_{root.denominator}"

        def fn_init():
            with rebind(binds):
                try:
                    return setup()
                except ArithmeticError as e:
                    return ("arith", str(e))
        for pi, p in enumerate(Explorer().run(fn_init)):
            tag = f"[{case}/{rtag}]#p{pi}"
            if p.outcome != "return":
                out.append(result(f"{func}/loop/init-only-ArithmeticError-escapes{tag}", func, "unknown" if p.outcome == "abort" else "violated", text=repr(p.value)[:200], case=case))
                continue
            if isinstance(p.value, tuple):
                continue
            out.append(prove(f"{func}/loop/invariant-established{tag}", func, p.cond(), inv(p.value), model_vars=mvs, case=case, replay=dict(kind="higher"),
                             text="after the initial Newton step: error = ||M - I||_inf and iteration = 1 <= max(max_iterations, 1)"))

        def fn_step():
            with rebind(binds):
                try:
                    env = havoc(setup())
                except ArithmeticError:
                    return None
                if not sp.test(env):
                    return None
                return sp.body(env)
        n_step = 0
        for pi, p in enumerate(Explorer().run(fn_step)):
            tag = f"[{case}/{rtag}]#p{pi}"
            if p.outcome != "return":
                out.append(result(f"{func}/loop/step-no-exception{tag}", func, "unknown" if p.outcome == "abort" else "violated", text=repr(p.value)[:200], case=case))
                continue
            if p.value is None:
                continue
            n_step += 1
            kind, e2 = p.value
            if kind == "next":
                out.append(prove(f"{func}/loop/invariant-preserved{tag}", func, p.cond(), inv(e2, z3.Int("iteration0")), model_vars=mvs, case=case, replay=dict(kind="higher"),
                                 text="an iteration that does not break re-establishes error = ||M - I||_inf for the NEW M, advances iteration by one, within the budget"))
            else:
                ok = e2["termination_flag"] == mf.NewtonConvergenceFlag.EARLY_STOP
                out.append(result(f"{func}/loop/break=>EARLY_STOP{tag}", func, "discharged" if ok else "violated", backend="path-enumeration", case=case, replay=dict(kind="higher"),
                                  text="the stagnation / divergence break sets termination_flag = EARLY_STOP"))
        out.append(result(f"{func}/loop/cover:step-paths[{case}/{rtag}]", func, "violated" if n_step else "discharged", kind="cover", case=case))

        for broke in (False, True):
            def fn_exit():
                with rebind(binds):
                    try:
                        env = havoc(setup(), broke=broke)
                    except ArithmeticError:
                        return None
                    if not broke and sp.test(env):
                        return None
                    # the ACTUAL residual of the X held at loop exit (same uninterpreted matmul / matrix_power / norm symbols the code uses),
                    # computed by the harness: the guard clause is about this quantity, not about whatever number the code returns
                    env["__residual__"] = ft.linalg.vector_norm(env["A_ridge"] @ ft.linalg.matrix_power(env["X"], env["p"]) - env["identity"], ft.inf)
                    try:
                        return env, sp.post(env, broke=broke)
                    except ArithmeticError as e:
                        return env, ("arith", str(e))
            n_exit = 0
            for pi, p in enumerate(Explorer().run(fn_exit)):
                tag = f"[{case}/{rtag}/{'break' if broke else 'test-false'}]#p{pi}"
                if p.outcome != "return":
                    out.append(result(f"{func}/loop/exit-only-ArithmeticError-escapes{tag}", func, "unknown" if p.outcome == "abort" else "violated", text=repr(p.value)[:200], case=case,
                                      replay=dict(kind="higher")))
                    continue
                if p.value is None:
                    continue
                n_exit += 1
                env, r = p.value
                if len(r) == 2:
                    continue
                X, Mm, flag, iters, true_err = r
                hyp = p.cond()
                itt = iters.t if isinstance(iters, SymInt) else z3.IntVal(iters)
                nanX = uf("any_nan_float32", ARR, z3.BoolSort())(X.v)
                infX = uf("any_inf_float32", ARR, z3.BoolSort())(X.v)
                actual = env["__residual__"].at(0)
                goal = z3.And(z3.Not(actual > as_real(1e-1).t), true_err.at(0) == actual, z3.Not(nanX), z3.Not(infX), itt >= 1, itt <= cap, Mm.at(IDX) == env["M"].at(IDX))
                out.append(prove(f"{func}/loop/exit:normal-return=>residual-within-guard-and-finite{tag}", func, hyp, goal, model_vars=mvs, case=case, replay=dict(kind="higher"),
                                 text="from ANY loop-exit state a returned result has ACTUAL residual |A_ridge X^p - I|_inf <= 0.1 (the residual of the X held at loop exit, computed by the harness), reports exactly that residual, and has no NaN/Inf (else ArithmeticError), for every iteration budget"))
                errM = resid(Mm)
                if broke:
                    g2 = z3.BoolVal(flag == mf.NewtonConvergenceFlag.EARLY_STOP)
                elif flag == mf.NewtonConvergenceFlag.CONVERGED:
                    g2 = errM <= tolv
                elif flag == mf.NewtonConvergenceFlag.REACHED_MAX_ITERS:
                    g2 = z3.And(errM > tolv, itt >= mx)
                else:
                    g2 = z3.BoolVal(False)
                out.append(prove(f"{func}/loop/exit:flag-matches-loop-exit{tag}", func, hyp, g2, model_vars=mvs, case=case, replay=dict(kind="higher"),
                                 text="CONVERGED => |M - I| <= tolerance; REACHED_MAX_ITERS => budget used and tolerance not met; EARLY_STOP exactly after a break — for every budget"))
            out.append(result(f"{func}/loop/cover:exit-paths[{case}/{rtag}/{int(broke)}]", func, "violated" if n_exit else "discharged", kind="cover", case=case))
    return out


def run_qr_loop(case):
    """_compute_orthogonal_iterations for arbitrary max_iterations: invariant
         0 <= iteration <= max(max_iterations, 0)  /\\  (iteration = 0 => Q = estimate (cast) /\\ error = +inf)  /\\  (iteration >= 1 => Q = qr(A @ Q').Q for some Q')."""
    mf = M()
    import torch
    from vlib.loops import EarlyReturn, LoopSplit, UNDEF
    from vlib.tensor import _sig
    func = "_compute_orthogonal_iterations"
    out = []
    try:
        sp = LoopSplit(mf._compute_orthogonal_iterations)
        if sp.shape != (False, 0):
            raise LookupError(f"the loop of _compute_orthogonal_iterations has control-flow shape (else clause, breaks) = {sp.shape}, the loop contract was written for (False, 0)")
    except LookupError as e:
        return [result(f"{func}/loop-contract-applicable[{case}]", func, "unknown", text=str(e), case=case)]
    out.append(result(f"{func}/loop-split-tiles-the-function[{case}]", func, "discharged", backend="ast", case=case, text=str(sp.describe())))
    mx, tolv = z3.Int("max_iterations"), z3.Real("qr_tolerance")
    mvs = dict(max_iterations=mx, qr_tolerance=tolv, iteration=z3.Int("iteration0"))
    qrQ, mm = uf("qr_Q", ARR, ARR), uf("matmul", ARR, ARR, ARR)
    cap = z3.If(mx >= 0, mx, z3.IntVal(0))
    ft = FakeTorch()

    def setup():
        n = SymInt("n")
        assume(n.t >= 2)
        A = _A((n, n), dtype=torch.float64)
        est = SymTensor.array("Q0", dtype=torch.float64, shape=(n, n))
        mxs = SymInt("max_iterations")
        return A, est, sp.pre(A, est, max_iterations=mxs, tolerance=SymReal("qr_tolerance"))

    def sorted_cols(Qv, Av):
        ein = uf("einsum_" + _sig("ij, ik, kj -> j") + "_3", ARR, ARR, ARR, ARR)(Qv, Av, Qv)
        return uf("index_" + _sig(("slice", "t")), ARR, ARR, ARR)(Qv, uf("argsort", ARR, ARR)(ein))

    def havoc(A, env):
        e = dict(env)
        for nm in sp.body_stores:
            e[nm] = UNDEF
        n = A.size()[0]
        Qp = SymTensor.array("Qprev", dtype=torch.float64, shape=(n, n))
        e["Q"] = SymTensor(qrQ(mm(A.v, Qp.v)), dtype=torch.float64, shape=(n, n))
        e["iteration"] = SymInt("iteration0")
        e["error"] = _scalar(z3.Real("error0"))
        assume(z3.And(z3.Int("iteration0") >= 1, z3.Int("iteration0") <= cap))
        return e

    def it_term(env):
        it = env["iteration"]
        return it.t if isinstance(it, SymInt) else z3.IntVal(it)

    # -- init: the zero-estimate fallback, or the invariant at iteration 0
    def fn_init():
        with rebind([(mf, "torch", ft)]):
            try:
                A, est, env = setup()
            except EarlyReturn as r:
                return ("early", r.value)
            return ("env", A, est, env)
    for pi, p in enumerate(Explorer().run(fn_init)):
        tag = f"[{case}]#p{pi}"
        if p.outcome != "return":
            out.append(result(f"{func}/loop/init-no-exception{tag}", func, "unknown" if p.outcome == "abort" else "violated", text=repr(p.value)[:200], case=case))
            continue
        anyz = uf("any_nonzero", ARR, z3.BoolSort())(z3.Array("Q0", z3.IntSort(), z3.RealSort()))
        if p.value[0] == "early":
            Q0 = uf("eigh_Q", ARR, ARR)(z3.Array("A", z3.IntSort(), z3.RealSort()))
            out.append(prove(f"{func}/loop/zero-estimate=>eigendecomposition{tag}", func, p.cond(), z3.And(z3.Not(anyz), p.value[1].at(IDX) == z3.Select(Q0, IDX)), model_vars=mvs, case=case,
                             replay=dict(kind="eigvec", cfg="qr", shp="square", diag=False), text="a zero estimate returns the eigenvectors of torch.linalg.eigh(A) before any iteration"))
            continue
        _, A, est, env = p.value
        err0 = env["error"]
        goal = z3.And(anyz, z3.BoolVal(env["iteration"] == 0 and err0 == float("inf")), env["Q"].at(IDX) == est.at(IDX), z3.BoolVal(env["Q"].dtype == A.dtype))
        out.append(prove(f"{func}/loop/invariant-established{tag}", func, p.cond(), goal, model_vars=mvs, case=case, replay=dict(kind="eigvec", cfg="qr", shp="square", diag=False),
                         text="before the first iteration: iteration = 0, error = +inf, Q = the estimate in A's dtype"))

    # -- step, from the initial state (iteration 0) and from an arbitrary later state
    for start in ("first", "later"):
        def fn_step():
            with rebind([(mf, "torch", ft)]):
                try:
                    A, est, env = setup()
                except EarlyReturn:
                    return None
                if start == "later":
                    env = havoc(A, env)
                if not sp.test(env):
                    return None
                qprev = env["Q"].v
                kind, e2 = sp.body(env)
                # frame: the caller's tensors (the STORED eigenbasis handed in as the estimate — with equal dtypes `.to()` returns the very same
                # tensor — and the factor matrix) are never written
                e2["__frame__"] = (est.cell.version, A.cell.version)
                return A, qprev, kind, e2, (0 if start == "first" else z3.Int("iteration0"))
        n_step = 0
        for pi, p in enumerate(Explorer().run(fn_step)):
            tag = f"[{case}/{start}]#p{pi}"
            if p.outcome != "return":
                out.append(result(f"{func}/loop/step-no-exception{tag}", func, "unknown" if p.outcome == "abort" else "violated", text=repr(p.value)[:200], case=case))
                continue
            if p.value is None:
                continue
            n_step += 1
            A, qprev, kind, e2, it0 = p.value
            prev_t = SymTensor(qprev, dtype=torch.float64, shape=A.size())
            want_err = prev_t.sub(e2["Q"]).norm().div_(prev_t.norm())  # the documented convergence measure: RELATIVE change of the estimate
            got_err = e2["error"]
            err_ok = (got_err.at(0) == want_err.at(0)) if isinstance(got_err, SymTensor) else z3.BoolVal(False)
            goal = z3.And(z3.BoolVal(kind == "next"), e2["Q"].at(IDX) == z3.Select(qrQ(mm(A.v, qprev)), IDX), it_term(e2) == it0 + 1, it_term(e2) <= cap, it_term(e2) >= 1, err_ok)
            fr = e2.get("__frame__")
            out.append(result(f"{func}/loop/frame:estimate-and-matrix-not-written{tag}", func, "discharged" if fr == (0, 0) else "violated", backend="heap-versions", case=case,
                              replay=dict(kind="qr_frame"), text=f"one iteration writes neither the caller's estimate (the stored eigenbasis) nor A (cell versions {fr})"))
            out.append(prove(f"{func}/loop/invariant-preserved{tag}", func, p.cond(), goal, model_vars=mvs, case=case, replay=dict(kind="eigvec", cfg="qr", shp="square", diag=False),
                             text="every iteration, from ANY reachable state: Q <- qr(A @ Q).Q of the CURRENT Q; iteration advances by one within the budget; the convergence measure tested against the tolerance is the relative change ||Q_prev - Q|| / ||Q_prev||"))
        out.append(result(f"{func}/loop/cover:step-paths[{case}/{start}]", func, "violated" if n_step else "discharged", kind="cover", case=case))

    # -- exit
    for start in ("first", "later"):
        def fn_exit():
            with rebind([(mf, "torch", ft)]):
                try:
                    A, est, env = setup()
                except EarlyReturn:
                    return None
                if start == "later":
                    env = havoc(A, env)
                if sp.test(env):
                    return None
                return A, env["Q"].v, sp.post(env, broke=False)
        n_exit = 0
        for pi, p in enumerate(Explorer().run(fn_exit)):
            tag = f"[{case}/{start}]#p{pi}"
            if p.outcome != "return":
                out.append(result(f"{func}/loop/exit-no-exception{tag}", func, "unknown" if p.outcome == "abort" else "violated", text=repr(p.value)[:200], case=case))
                continue
            if p.value is None:
                continue
            n_exit += 1
            A, qfin, r = p.value
            goal = r.at(IDX) == z3.Select(sorted_cols(qfin, A.v), IDX)
            if start == "first":
                goal = z3.And(goal, mx <= 0)  # error = +inf > tolerance, so the loop is skipped only with an empty budget
            out.append(prove(f"{func}/loop/exit:columns-sorted-by-rayleigh-quotient{tag}", func, p.cond(), goal, model_vars=mvs, case=case, replay=dict(kind="eigvec", cfg="qr", shp="square", diag=False),
                             text="from ANY loop-exit state the result is the final Q with columns ordered by ascending diag(Q^T A Q); no iteration happens only when max_iterations <= 0"))
        out.append(result(f"{func}/loop/cover:exit-paths[{case}/{start}]", func, "violated" if n_exit else "discharged", kind="cover", case=case))
    return out
