"""C17 — the constructor accepts exactly the documented hyperparameter domain.

Engine E2: the REAL `DistributedShampoo.__init__` (and the real config `__post_init__`s) are executed by CPython
on IEEE-double / integer proxies; every feasible path is enumerated (the code is loop-free in its scalar
control flow apart from `all(...)` over the override list, whose length is enumerated).  Contract:

    raises ValueError  <=>  not D(args)            (D = the documented domain, from the property statement)
    on success: defaults == args[beta3 -> beta1 if beta3 == -1, start -> freq if start == -1]

`torch.optim.Optimizer.__init__` is replaced by a stub that records `defaults` (assumed contract: it stores
them into every group); everything before it is the real code.
"""
from __future__ import annotations

import math
import z3

from vlib.sym import Explorer, SymFP, SymInt, SymBool, model_value
from vlib.driver import prove, result

PROP = "C17"
LEVEL = "proof"
FUNCS = [
    ("distributed_shampoo/distributed_shampoo.py", "DistributedShampoo.__init__"),
    ("distributed_shampoo/distributed_shampoo.py", "DistributedShampoo._instantiate_distributor"),
    ("distributed_shampoo/distributed_shampoo.py", "DistributedShampoo._instantiate_shampoo_preconditioner_list"),
    ("distributed_shampoo/distributed_shampoo.py", "DistributedShampoo._instantiate_grafting"),
    ("distributed_shampoo/shampoo_types.py", "PreconditionerConfig.__post_init__"),
    ("distributed_shampoo/shampoo_types.py", "AdaGradGraftingConfig.__post_init__"),
    ("distributed_shampoo/shampoo_types.py", "RMSpropGraftingConfig.__post_init__"),
]
TRUSTED = [
    "CPython executes the real function objects; proxies implement IEEE-754 double comparisons with z3 FloatingPoint (NaN, inf, -0.0 exact)",
    "torch.optim.Optimizer.__init__(params, defaults) stores `defaults` into every param group (stubbed; everything before the call is real code)",
    "float hyperparameters are passed as Python floats (a Python int argument compares like its double value for |n| < 2**53)",
    "inv_root_override list length enumerated 0..3 (quick) / 0..5 (thorough); ignored_dims lists enumerated over {0,1,2} up to length 3; unsupported config *types* enumerated (strict subclass of each supported type + unrelated type)",
    "z3 5.1 FloatingPoint / LIA decision procedures",
]
ASSUMPTIONS = ["machine arithmetic: exact IEEE double for comparisons; no arithmetic is performed on float hyperparameters before super().__init__"]
EXPLANATION = ("every feasible path of the real __init__ up to super().__init__ is enumerated on symbolic IEEE doubles / ints; "
               "per path: raise => not D, success => D and defaults as documented; path set exhaustive (DFS over all branch outcomes)")


class _Reached(BaseException):
    def __init__(self, defaults):
        self.defaults = defaults


def _mk_args(override_kind, fresh=True):
    a = dict(
        lr=SymFP("lr"), b1=SymFP("beta1"), b2=SymFP("beta2"), b3=SymFP("beta3"), eps=SymFP("epsilon"),
        mom=SymFP("momentum"), damp=SymFP("dampening"), wd=SymFP("weight_decay"),
        maxdim=SymInt("max_preconditioner_dim"), freq=SymInt("precondition_frequency"),
        start=SymInt("start_preconditioning_step"), nesterov=SymBool(z3.Bool("use_nesterov")),
    )
    if override_kind == "int":
        a["override"] = SymInt("inv_root_override")
    else:
        a["override"] = [SymInt(f"inv_root_override_{i}") for i in range(override_kind)]
    return a


def _domain(a, ignored_nonempty):
    """D, written from the property statement (IEEE comparisons: NaN fails every range)."""
    fp = lambda x: z3.FPVal(x, z3.Float64())
    ge0 = lambda x: z3.fpGEQ(x.t, fp(0.0))
    in01 = lambda x: z3.And(z3.fpGEQ(x.t, fp(0.0)), z3.fpLT(x.t, fp(1.0)))
    ov = a["override"]
    if isinstance(ov, list):
        ov_ok = z3.And(*[o.t >= 0 for o in ov]) if ov else z3.BoolVal(True)
        ov_default = z3.BoolVal(False)  # a list is not the default override (0)
    else:
        ov_ok = ov.t >= 0
        ov_default = ov.t == 0
    return z3.And(
        ge0(a["lr"]),
        in01(a["b1"]),
        z3.And(z3.fpGT(a["b2"].t, fp(0.0)), z3.fpLEQ(a["b2"].t, fp(1.0))),
        z3.Or(z3.fpEQ(a["b3"].t, fp(-1.0)), in01(a["b3"])),
        z3.fpGT(a["eps"].t, fp(0.0)),
        in01(a["mom"]),
        in01(a["damp"]),
        ge0(a["wd"]),
        a["maxdim"].t >= 1,
        a["freq"].t >= 1,
        z3.Or(a["start"].t == -1, a["start"].t >= a["freq"].t),
        ov_ok,
        z3.Or(z3.BoolVal(not ignored_nonempty), ov_default),
    )


def _call_real_init(a, ignored_dims):
    import torch
    from distributed_shampoo.distributed_shampoo import DistributedShampoo
    from distributed_shampoo.shampoo_types import ShampooPreconditionerConfig

    cfg = ShampooPreconditionerConfig(ignored_dims=list(ignored_dims))
    params = [torch.nn.Parameter(torch.zeros(2))]
    orig = torch.optim.Optimizer.__init__

    def stub(self, params, defaults):
        raise _Reached(defaults)

    torch.optim.Optimizer.__init__ = stub
    try:
        DistributedShampoo(
            params, lr=a["lr"], betas=(a["b1"], a["b2"]), beta3=a["b3"], epsilon=a["eps"], momentum=a["mom"],
            dampening=a["damp"], weight_decay=a["wd"], max_preconditioner_dim=a["maxdim"],
            precondition_frequency=a["freq"], start_preconditioning_step=a["start"],
            inv_root_override=a["override"], use_nesterov=a["nesterov"], preconditioner_config=cfg,
        )
    finally:
        torch.optim.Optimizer.__init__ = orig
    raise AssertionError("super().__init__ was never reached")


def cases(tier):
    n = 3 if tier == "quick" else 5
    cs = []
    for ign in ("noign", "ign"):
        cs.append(f"init/int/{ign}")
        for k in range(n + 1):
            cs.append(f"init/list{k}/{ign}")
    cs += ["postinit/adagrad", "postinit/rmsprop", "postinit/adam", "postinit/preconditioner", "types/unsupported"]
    return cs


def _model_vars(a):
    mv = {}
    for k, v in a.items():
        if isinstance(v, list):
            for i, e in enumerate(v):
                mv[f"override[{i}]"] = e
        else:
            mv[k] = v
    return mv


def _run_init_case(case, tier):
    _, ok, ign = case.split("/")
    override_kind = "int" if ok == "int" else int(ok[4:])
    ignored = [0] if ign == "ign" else []
    holder = {}

    def fn():
        a = _mk_args(override_kind)
        holder["a"] = a
        try:
            _call_real_init(a, ignored)
        except _Reached as r:
            return ("ok", r.defaults, a)
        except ValueError as e:
            return ("ValueError", None, a)

    ex = Explorer()
    paths = ex.run(fn)
    a = _mk_args(override_kind)  # same deterministic names
    D = _domain(a, bool(ignored))
    mv = _model_vars(a)
    func = "DistributedShampoo.__init__"
    out = []
    rp = dict(kind="init", override_kind=override_kind, ignored=ignored)
    n_ok = 0
    for i, p in enumerate(paths):
        hyp = p.cond()
        tag = f"[{case}]#p{i}"
        if p.outcome == "abort":
            out.append(result(f"{func}/path-supported{tag}", func, "unknown", text=f"proxy abort: {p.value}", case=case))
            continue
        if p.outcome == "raise":  # some exception other than ValueError escaped
            out.append(prove(f"{func}/only-ValueError-or-success{tag}", func, hyp, z3.BoolVal(False), model_vars=mv,
                             text=f"unexpected {type(p.value).__name__}: {p.value}", replay=rp, case=case))
            continue
        kind, defaults, holder["a"] = p.value
        if kind == "ValueError":
            out.append(prove(f"{func}/raises-ValueError=>outside-domain{tag}", func, hyp, z3.Not(D), model_vars=mv,
                             text="path raises ValueError => not D(args)", replay=rp, case=case))
        else:
            n_ok += 1
            out.append(prove(f"{func}/success=>inside-domain{tag}", func, hyp, D, model_vars=mv,
                             text="path reaches super().__init__ => D(args)", replay=rp, case=case))
            from distributed_shampoo.shampoo_types import (BETA3, BETAS, DAMPENING, EPSILON, INV_ROOT_OVERRIDE, LR,
                                                           MAX_PRECONDITIONER_DIM, MOMENTUM, PRECONDITION_FREQUENCY,
                                                           START_PRECONDITIONING_STEP, WEIGHT_DECAY, USE_NESTEROV)
            d3 = defaults.get(BETA3)
            goal_b3 = z3.BoolVal(False)
            if isinstance(d3, SymFP):
                goal_b3 = z3.If(z3.fpEQ(a["b3"].t, z3.FPVal(-1.0, z3.Float64())), d3.t == a["b1"].t, d3.t == a["b3"].t)
            out.append(prove(f"{func}/defaults.beta3-resolved{tag}", func, hyp, goal_b3, model_vars=mv,
                             text="defaults[beta3] == (beta1 if beta3 == -1 else beta3)", replay=rp, case=case))
            ds = defaults.get(START_PRECONDITIONING_STEP)
            goal_s = z3.BoolVal(False)
            if isinstance(ds, SymInt):
                goal_s = z3.If(a["start"].t == -1, ds.t == a["freq"].t, ds.t == a["start"].t)
            out.append(prove(f"{func}/defaults.start-resolved{tag}", func, hyp, goal_s, model_vars=mv,
                             text="defaults[start] == (freq if start == -1 else start)", replay=rp, case=case))
            same = (defaults.get(LR) is a_run(holder, "lr") and defaults.get(EPSILON) is a_run(holder, "eps")
                    and defaults.get(MOMENTUM) is a_run(holder, "mom") and defaults.get(DAMPENING) is a_run(holder, "damp")
                    and defaults.get(WEIGHT_DECAY) is a_run(holder, "wd")
                    and defaults.get(MAX_PRECONDITIONER_DIM) is a_run(holder, "maxdim")
                    and defaults.get(PRECONDITION_FREQUENCY) is a_run(holder, "freq")
                    and defaults.get(INV_ROOT_OVERRIDE) is a_run(holder, "override")
                    and defaults.get(USE_NESTEROV) is a_run(holder, "nesterov")
                    and defaults.get(BETAS)[0] is a_run(holder, "b1") and defaults.get(BETAS)[1] is a_run(holder, "b2"))
            out.append(result(f"{func}/defaults.other-args-passed-through{tag}", func,
                              "discharged" if same else "violated", backend="identity-check",
                              text="every other default is the argument object itself", replay=rp, case=case,
                              model=None))
    # vacuity guards: the domain is satisfiable and a success path exists; a false postcondition is refuted
    if not (ignored and override_kind != "int"):  # with ignored dims every list-valued override is outside D
        out.append(prove(f"{func}/cover:domain-satisfiable[{case}]", func, z3.BoolVal(True), z3.Not(D), kind="cover",
                         model_vars=mv, text="D is satisfiable", case=case, timeout_s=30))
        out[-1]["paths"] = len(paths)
    if n_ok == 0 and not (ignored and override_kind != "int"):
        out.append(result(f"{func}/cover:success-path[{case}]", func, "discharged", kind="cover", case=case,
                          text="no success path found"))
    ok_paths = [p for p in paths if p.outcome == "return" and p.value[0] == "ok"]
    if ok_paths:
        p = ok_paths[0]
        out.append(prove(f"{func}/canary:lr>0[{case}]", func, p.cond(),
                         z3.fpGT(a["lr"].t, z3.FPVal(0.0, z3.Float64())), kind="canary", model_vars=mv,
                         text="deliberately false: success => lr > 0", case=case))
    return out


def a_run(holder, key):
    return holder["a"][key]


# ---- grafting / preconditioner config __post_init__ ------------------------------------------------------


def _run_postinit(case):
    from distributed_shampoo import shampoo_types as st

    name = case.split("/")[1]
    out = []
    fp = lambda x: z3.FPVal(x, z3.Float64())
    if name in ("adagrad", "rmsprop", "adam"):
        cls = dict(adagrad=st.AdaGradGraftingConfig, rmsprop=st.RMSpropGraftingConfig, adam=st.AdamGraftingConfig)[name]
        func = f"{cls.__name__}.__post_init__"

        def fn():
            kw = dict(epsilon=SymFP("g_epsilon"))
            if name != "adagrad":
                kw["beta2"] = SymFP("g_beta2")
            try:
                c = cls(**kw)
                return ("ok", c)
            except ValueError:
                return ("ValueError", None)

        paths = Explorer().run(fn)
        eps, b2 = SymFP("g_epsilon"), SymFP("g_beta2")
        D = z3.fpGT(eps.t, fp(0.0))
        if name != "adagrad":
            D = z3.And(D, z3.fpGT(b2.t, fp(0.0)), z3.fpLEQ(b2.t, fp(1.0)))
        mv = dict(epsilon=eps, beta2=b2)
        rp = dict(kind="graft", cls=cls.__name__)
        for i, p in enumerate(paths):
            tag = f"[{case}]#p{i}"
            if p.outcome != "return":
                out.append(prove(f"{func}/only-ValueError-or-success{tag}", func, p.cond(), z3.BoolVal(False),
                                 model_vars=mv, text=f"unexpected {p.outcome}: {p.value!r}", replay=rp, case=case))
            elif p.value[0] == "ValueError":
                out.append(prove(f"{func}/raises=>outside-domain{tag}", func, p.cond(), z3.Not(D), model_vars=mv,
                                 text="ValueError => not (epsilon > 0 and 0 < beta2 <= 1)", replay=rp, case=case))
            else:
                out.append(prove(f"{func}/success=>inside-domain{tag}", func, p.cond(), D, model_vars=mv,
                                 text="constructed => epsilon > 0 and 0 < beta2 <= 1", replay=rp, case=case))
        out.append(prove(f"{func}/cover:domain-satisfiable[{case}]", func, z3.BoolVal(True), z3.Not(D), kind="cover",
                         model_vars=mv, case=case))
        out[-1]["paths"] = len(paths)
        okp = [p for p in paths if p.outcome == "return" and p.value[0] == "ok"]
        if okp:
            out.append(prove(f"{func}/canary:epsilon>1[{case}]", func, okp[0].cond(), z3.fpGT(eps.t, fp(1.0)),
                             kind="canary", model_vars=mv, case=case))
        return out
    # PreconditionerConfig.__post_init__: tolerance symbolic, ignored_dims enumerated
    import itertools
    func = "PreconditionerConfig.__post_init__"
    for cls in (st.ShampooPreconditionerConfig, st.EigenvalueCorrectedShampooPreconditionerConfig):
        for n in range(0, 4):
            for dims in itertools.product(range(3), repeat=n):
                dims = list(dims)

                def fn():
                    try:
                        cls(num_tolerated_failed_amortized_computations=SymInt("tol"), ignored_dims=list(dims))
                        return "ok"
                    except ValueError:
                        return "ValueError"

                paths = Explorer().run(fn)
                tol = SymInt("tol")
                D = z3.And(tol.t >= 0, z3.BoolVal(len(dims) == len(set(dims))))
                rp = dict(kind="precond", cls=cls.__name__, dims=dims)
                for i, p in enumerate(paths):
                    tag = f"[{case}/{cls.__name__[:4]}/{''.join(map(str, dims)) or '-'}]#p{i}"
                    if p.outcome != "return":
                        goal, txt = z3.BoolVal(False), f"unexpected {p.outcome} {p.value!r}"
                    elif p.value == "ValueError":
                        goal, txt = z3.Not(D), "ValueError => tolerance < 0 or duplicate ignored dims"
                    else:
                        goal, txt = D, "constructed => tolerance >= 0 and ignored dims unique"
                    out.append(prove(f"{func}/domain{tag}", func, p.cond(), goal, model_vars=dict(tol=tol), text=txt,
                                     replay=rp, case=case))
    out.append(prove(f"{func}/canary[{case}]", func, z3.BoolVal(True), SymInt("tol").t >= 0, kind="canary", case=case))
    return out


def _run_types(case):
    """NotImplementedError for config objects whose *type* is not a supported one (enumerated kinds)."""
    import dataclasses
    import torch
    from distributed_shampoo.distributed_shampoo import DistributedShampoo
    from distributed_shampoo import shampoo_types as st

    out = []
    params = lambda: [torch.nn.Parameter(torch.zeros(2, 2))]

    def outcome(**kw):
        try:
            DistributedShampoo(params(), **kw)
            return "ok"
        except NotImplementedError:
            return "NotImplementedError"
        except BaseException as e:  # noqa
            return type(e).__name__

    def sub(cls):
        return dataclasses.dataclass(type("Sub" + cls.__name__, (cls,), {}))

    trials = []
    for cls in (st.SGDGraftingConfig, st.AdaGradGraftingConfig, st.RMSpropGraftingConfig, st.AdamGraftingConfig):
        trials.append(("grafting_config", f"subclass-of-{cls.__name__}", dict(grafting_config=sub(cls)()), "_instantiate_grafting"))
    unrelated_g = dataclasses.dataclass(type("OtherGrafting", (st.GraftingConfig,), {}))
    trials.append(("grafting_config", "unrelated-GraftingConfig", dict(grafting_config=unrelated_g()), "_instantiate_grafting"))
    for cls in (st.ShampooPreconditionerConfig, st.EigenvalueCorrectedShampooPreconditionerConfig):
        trials.append(("preconditioner_config", f"subclass-of-{cls.__name__}", dict(preconditioner_config=sub(cls)()),
                       "_instantiate_shampoo_preconditioner_list"))
    for cls in (st.DDPShampooConfig, st.FullyShardShampooConfig):
        trials.append(("distributed_config", f"subclass-of-{cls.__name__}", dict(distributed_config=sub(cls)()),
                       "_instantiate_distributor"))
    unrelated_d = dataclasses.dataclass(type("OtherDist", (st.DistributedConfig,), {}))
    trials.append(("distributed_config", "unrelated-DistributedConfig", dict(distributed_config=unrelated_d()),
                   "_instantiate_distributor"))
    for arg, label, kw, fn in trials:
        o = outcome(**kw)
        func = f"DistributedShampoo.{fn}"
        out.append(result(f"{func}/unsupported-type=>NotImplementedError[{label}]", func,
                          "discharged" if o == "NotImplementedError" else "violated", backend="concrete-execution",
                          text=f"{arg} of unsupported type {label} -> {o}", case=case,
                          replay=dict(kind="types", label=label), model=dict(outcome=o)))
    # supported types construct fine (so the NotImplementedError obligations are not vacuous)
    for label, kw in (("SGD", dict(grafting_config=st.SGDGraftingConfig())), ("Adam", dict(grafting_config=st.AdamGraftingConfig())),
                      ("SOAP", dict(preconditioner_config=st.DefaultSOAPConfig))):
        o = outcome(**kw)
        out.append(result(f"DistributedShampoo.__init__/supported-type-accepted[{label}]", "DistributedShampoo.__init__",
                          "discharged" if o == "ok" else "violated", backend="concrete-execution", text=f"{label} -> {o}",
                          case=case, replay=dict(kind="types", label=label), model=dict(outcome=o)))
    return out


def run_case(case, tier, seed):
    if case.startswith("init/"):
        return _run_init_case(case, tier)
    if case.startswith("postinit/"):
        return _run_postinit(case)
    return _run_types(case)


# ---- native replay ---------------------------------------------------------------------------------------


def _py_domain(v, ignored):
    ov = v["override"]
    if isinstance(ov, list):
        ov_ok, ov_def = all(o >= 0 for o in ov), False
    else:
        ov_ok, ov_def = ov >= 0, ov == 0
    in01 = lambda x: 0.0 <= x < 1.0
    return (v["lr"] >= 0.0 and in01(v["b1"]) and 0.0 < v["b2"] <= 1.0 and (v["b3"] == -1.0 or in01(v["b3"]))
            and v["eps"] > 0.0 and in01(v["mom"]) and in01(v["damp"]) and v["wd"] >= 0.0 and v["maxdim"] >= 1
            and v["freq"] >= 1 and (v["start"] == -1 or v["start"] >= v["freq"]) and ov_ok and (not ignored or ov_def))


def native_init(v, ignored):
    """Run the real constructor on concrete values; returns (outcome, defaults-or-None)."""
    import torch
    from distributed_shampoo.distributed_shampoo import DistributedShampoo
    from distributed_shampoo.shampoo_types import ShampooPreconditionerConfig

    try:
        o = DistributedShampoo([torch.nn.Parameter(torch.zeros(2))], lr=v["lr"], betas=(v["b1"], v["b2"]), beta3=v["b3"],
                               epsilon=v["eps"], momentum=v["mom"], dampening=v["damp"], weight_decay=v["wd"],
                               max_preconditioner_dim=v["maxdim"], precondition_frequency=v["freq"],
                               start_preconditioning_step=v["start"], inv_root_override=v["override"],
                               use_nesterov=bool(v.get("nesterov", False)),
                               preconditioner_config=ShampooPreconditionerConfig(ignored_dims=list(ignored)))
        return "ok", o.defaults
    except ValueError:
        return "ValueError", None
    except BaseException as e:  # noqa
        return type(e).__name__, None


def replay(r):
    return replay_file(dict(replay_input=r.get("replay"), verifier_output=dict(model=r.get("model"))))


def replay_file(doc):
    rp, m = doc.get("replay_input") or {}, (doc.get("verifier_output") or {}).get("model") or {}
    if rp.get("kind") != "init":
        return False, "only constructor obligations replay natively"
    v = {k: m[k] for k in ("lr", "b1", "b2", "b3", "eps", "mom", "damp", "wd", "maxdim", "freq", "start", "nesterov") if k in m}
    if rp["override_kind"] == "int":
        v["override"] = m["override"]
    else:
        v["override"] = [m[f"override[{i}]"] for i in range(rp["override_kind"])]
    got, defaults = native_init(v, rp["ignored"])
    want = "ok" if _py_domain(v, bool(rp["ignored"])) else "ValueError"
    bad = got != want
    detail = f"args={v} ignored={rp['ignored']}: constructor -> {got}, documented domain says {want}"
    if got == "ok" and not bad:
        b3 = v["b1"] if v["b3"] == -1.0 else v["b3"]
        st = v["freq"] if v["start"] == -1 else v["start"]
        if defaults["beta3"] != b3 or defaults["start_preconditioning_step"] != st:
            bad, detail = True, detail + f"; defaults beta3={defaults['beta3']} start={defaults['start_preconditioning_step']} (want {b3}, {st})"
    return bad, detail


# ---- bounded stand-in: boundary grid on the real constructor ---------------------------------------------


def bounded(tier, seed):
    import itertools
    import random

    rng = random.Random(seed)
    base = dict(lr=0.01, b1=0.9, b2=1.0, b3=-1.0, eps=1e-12, mom=0.0, damp=0.0, wd=0.0, maxdim=1024, freq=1, start=-1,
                override=0)
    nan = float("nan")
    grid = dict(
        lr=[-1e-9, -0.0, 0.0, 1.0, nan, float("inf")], b1=[-1e-9, 0.0, 0.5, 1.0 - 2**-53, 1.0, nan],
        b2=[0.0, 5e-324, 0.5, 1.0, 1.0 + 2**-52, nan], b3=[-1.0, -0.5, 0.0, 0.99, 1.0, nan, -1.0000000000000002],
        eps=[0.0, -0.0, 5e-324, 1.0, nan, -1.0], mom=[-1e-9, 0.0, 0.5, 1.0, nan], damp=[-1e-9, 0.0, 0.5, 1.0, nan],
        wd=[-1e-9, 0.0, 1.0, nan], maxdim=[0, 1, 2, -1], freq=[0, 1, 2, 5, -1], start=[-2, -1, 0, 1, 2, 4, 5, 6],
        override=[-1, 0, 1, 2, [], [0], [1, 0], [-1], [2, -1], [0, 0, 0]],
    )
    evals, viol, samples, distinct = 0, [], [], set()
    keys = list(grid)
    pairs = [(k,) for k in keys] + list(itertools.combinations(keys, 2))
    if tier == "quick":
        rng.shuffle(pairs)
        pairs = [(k,) for k in keys] + [p for p in pairs if len(p) == 2][:20]
    for ks in pairs:
        for vals in itertools.product(*[grid[k] for k in ks]):
            for ignored in ([], [0]):
                v = dict(base)
                v.update(dict(zip(ks, vals)))
                got, _ = native_init(v, ignored)
                want = "ok" if _py_domain(v, bool(ignored)) else "ValueError"
                evals += 1
                distinct.add((repr(sorted((k, repr(x)) for k, x in v.items())), bool(ignored)))
                if len(samples) < 3 and len(ks) == 2:
                    samples.append(dict(args={k: repr(x) for k, x in zip(ks, vals)}, ignored_dims=ignored, outcome=got))
                if got != want:
                    viol.append(dict(ob=f"DistributedShampoo.__init__/bounded-grid[{ks}={vals!r},ign={ignored}]",
                                     func="DistributedShampoo.__init__", input={k: repr(x) for k, x in v.items()},
                                     text="constructor outcome differs from documented domain",
                                     detail=f"got {got}, want {want}"))
    return dict(evaluations=evals, distinct_nontrivial=len(distinct),
                rule="boundary/interior/just-outside/NaN grid per hyperparameter, varied one and two at a time around a valid baseline, x ignored_dims in {[],[0]}; distinct = distinct argument tuples",
                samples=samples, bound="grid values listed in checks/c17.py; pairs: " + ("20 random pairs" if tier == "quick" else "all pairs"),
                violations=viol[:5])
