"""C15 — shard-to-tensor-block recovery yields the fewest valid sub-tensors, as views.

Engine E2 with recursion by contract: the nested function `block_within_tensor_shard_recovery` is rebuilt from the
REAL code object found in `_split_tensor_block_recovery.__code__.co_consts` (no text is copied), its closure cell for
itself is bound to a CONTRACT STUB and the cell `original_shape` to a symbolic shape (orders 0..5, every extent
symbolic), and one level of the recursion is executed for every concrete `dimension`.  Contract (R_j = prod(shape[j+1:])):

  requires  0 <= s <= e <= numel, block is the flat view [s,e) of the shard, s == e or dimension <= max(order-1,0),
            dimension > 0 and s < e  =>  [s,e) lies inside one cell of size R_{dimension-1}
  ensures   the result is a chain of pieces from s to e: ordered, gap-free, non-empty; s == e gives []; every piece is a view
            of the shard at offset lo - start_idx with shape (m,) + shape[j+1:] for some level j >= dimension, R_j | lo,
            hi - lo = m R_j, m >= 1, and (j > 0) inside one cell of R_{j-1}
  decreases order - dimension (dimension is concrete and strictly increases at every recursive call)

Both copies (FSDP, HSDP) are verified separately against the same contract and additionally executed side by side on
the same symbolic inputs with the same stub (relational obligation: identical results).

Minimality ("no decomposition into such slabs has fewer pieces").  A slab of level j is a range [a R_j, (a+k) R_j), k >= 1, inside one
cell of R_{j-1}.  Write opt_d(s,e) for the fewest slabs of levels >= d that tile [s,e), L = ceil(s/R_d) R_d, R = floor(e/R_d) R_d.
  code side (obligation `ensures:pieces-follow-the-optimal-recurrence`, every level, both copies): the real code returns
      []                                                        if s = e
      one piece                                                 at the last dimension
      rec(d+1, [s,e))                                           if L > R
      rec(d+1, [s,L)) ++ [the slab [L,R) iff L < R] ++ rec(d+1, [R,e))   otherwise,
    and every recursive call satisfies the precondition  e - s < R_{d-1}  (range strictly inside one cell of the previous level).
  specification side (case `lemma/minimality`, pure integer arithmetic, no code): for ANY valid slab inside [s,e)
      (a) level d: it lies inside [L,R)                                   (`level-d-slab-lies-in-the-centre`; hence none if L >= R)
      (b) level j > d: it lies in one cell of R_{j-1}, cells nest (`cells-nest/1..4`), so it lies in one cell of R_d, so entirely in
          [s,L), [L,R) or [R,e)                                           (`deeper-slab-lies-in-one-part`)
      (c) level j < d: impossible under the precondition e - s < R_{d-1}  (`no-shallower-slab-fits`)
      (d) L > R: [s,e) lies strictly inside one cell of R_d               (`no-boundary-inside=>...`), L <= R: the partial ranges are
          shorter than R_d                                                (`partials-are-smaller-than-a-cell`).
  counting step (machine-checked by Lean 4, case `lemma/minimality-counting-lean`, lemmas/C15Minimality.lean; the argument in words): let P be any
  tiling of [s,e) by valid slabs.  By (c) all its slabs have level >= d.  If L > R, by (a) none has level d, so |P| >= opt_{d+1}(s,e),
  which the code attains by induction.  Otherwise by (a),(b) P splits into tilings P_l, P_c, P_r of [s,L), [L,R), [R,e); P_l and P_r
  contain no level-d slab by (a) (they lie outside [L,R)), so |P_l| >= opt_{d+1}(s,L), |P_r| >= opt_{d+1}(R,e), and |P_c| >= 1 iff L < R:
  |P| >= opt_{d+1}(s,L) + [L < R] + opt_{d+1}(R,e), which is the number of pieces of the recurrence above.  At the last dimension a
  non-empty range needs at least one piece.  The bounded tier still compares with a DP optimum on all small shapes.
"""
from __future__ import annotations

import itertools
import types
import z3

from vlib.driver import prove, result
from vlib.sym import Explorer, ShadowAbort, SymInt, assume

PROP = "C15"
LEVEL = "proof"
FUNCS = [
    ("distributed_shampoo/utils/shampoo_fsdp_distributor.py", "FSDPDistributor._split_tensor_block_recovery"),
    ("distributed_shampoo/utils/shampoo_fsdp_distributor.py", "FSDPDistributor._split_tensor_block_recovery.block_within_tensor_shard_recovery"),
    ("distributed_shampoo/utils/shampoo_hsdp_distributor.py", "HSDPDistributor._split_tensor_block_recovery"),
    ("distributed_shampoo/utils/shampoo_hsdp_distributor.py", "HSDPDistributor._split_tensor_block_recovery.block_within_tensor_shard_recovery"),
]
TRUSTED = [
    "ASSUMED contracts: Tensor.narrow(0, start, length) is the view [start, start+length) of a flat tensor (requires 0 <= start, length >= 0, start+length <= numel), never a copy; Tensor.view([-1, *rest]) requires numel divisible by prod(rest) and keeps the storage; math.prod is the product",
    "recursion by contract: the contract is assumed at recursive call sites (structural induction on order - dimension; dimension concrete)",
    "orders 0..5 enumerated (the property's domain); every extent >= 1 symbolic; nonlinear integer arithmetic decided by z3 (floor division encoded exactly)",
    "MINIMALITY: the code is proved to follow the optimal recurrence and the arithmetic lemmas (a)-(d) of the lower bound are discharged (z3 with div/mul monotonicity instances; `cells-nest` split into four witness steps); the counting / induction step that combines them is machine-checked by Lean 4 on every run (lemmas/C15Minimality.lean, theorem C15.minimality_top, which re-proves (a),(b) itself; statement about abstract strides S(j+1) | S(j), i.e. about the specification, linked to the code by the recurrence obligation); order 0 is outside the Lean statement (trivial: one element); additionally cross-checked by the bounded tier (exhaustive shapes with numel <= 24/64 against a DP optimum)",
]
ASSUMPTIONS = ["extents >= 1; 0 <= start <= end <= numel; the shard has end - start elements"]
EXPLANATION = "one recursion level of the real nested function per (order, dimension) against the contract, for both copies, plus the top-level wrapper and a relational FSDP = HSDP obligation"


def _outer(which):
    if which == "fsdp":
        from distributed_shampoo.utils.shampoo_fsdp_distributor import FSDPDistributor as C
    else:
        from distributed_shampoo.utils.shampoo_hsdp_distributor import HSDPDistributor as C
    return C._split_tensor_block_recovery


def _inner_function(which, shape, stub):
    outer = _outer(which)
    code = [c for c in outer.__code__.co_consts if isinstance(c, types.CodeType) and c.co_name == "block_within_tensor_shard_recovery"]
    if len(code) != 1:
        raise ShadowAbort("nested function block_within_tensor_shard_recovery not found")
    code = code[0]
    cells = []
    for name in code.co_freevars:
        if name == "block_within_tensor_shard_recovery":
            cells.append(types.CellType(stub))
        elif name == "original_shape":
            cells.append(types.CellType(shape))
        else:
            raise ShadowAbort(f"unexpected free variable {name}")
    return types.FunctionType(code, outer.__globals__, code.co_name, None, tuple(cells))


def _t(x):
    return x.t if isinstance(x, SymInt) else z3.IntVal(int(x))


class Flat:
    """flat view [lo, hi) (absolute flattened indices of the original tensor) of the shard storage"""

    def __init__(self, lo, hi, obligations):
        self.lo, self.hi, self.obl = lo, hi, obligations

    def numel(self):
        return self.hi - self.lo

    def size(self):
        return (self.hi - self.lo,)

    def narrow(self, dim, start, length):
        if dim != 0:
            raise ShadowAbort("narrow on dim != 0")
        self.obl.append(("narrow-in-bounds", z3.And(_t(start) >= 0, _t(length) >= 0, _t(start) + _t(length) <= _t(self.hi) - _t(self.lo))))
        return Flat(self.lo + start, self.lo + start + length, self.obl)

    def view(self, shape):
        shape = list(shape)
        if not shape or shape[0] != -1:
            raise ShadowAbort("view without leading -1")
        rest = shape[1:]
        Rp = 1
        for r in rest:
            Rp = Rp * r
        R = _t(Rp)
        n = _t(self.hi) - _t(self.lo)
        self.obl.append(("view-divisible", n % R == 0))
        return Piece(self.lo, self.hi, rest, R, self.obl)


class Piece:
    def __init__(self, lo, hi, rest, R, obl):
        self.lo, self.hi, self.rest, self.R = lo, hi, rest, R


class Chain:
    """abstract result of a recursive call (contract assumed): a chain of valid pieces from lo to hi at levels >= level"""

    def __init__(self, lo, hi, level):
        self.lo, self.hi, self.level = lo, hi, level


class SegList(list):
    """python list of segments (Piece | Chain | Flat) supporting the `+` the code uses"""

    def __add__(self, o):
        return SegList(list(self) + list(o))

    def __radd__(self, o):
        return SegList(list(o) + list(self))


class DimProd(SymInt):
    """Product of a set of extents kept ATOMIC for the solver: prod over index set S is the constant `P_S`.  Only the
    factorisations an obligation needs are asserted (R_{d-1} = n_d R_d, numel = prod(shape[:d]) R_{d-1}), which keeps
    the queries at binary products of constants."""

    def __init__(self, idx):
        self.idx = frozenset(idx)
        name = "n%d" % min(self.idx) if len(self.idx) == 1 else "P_" + "_".join(str(i) for i in sorted(self.idx))
        SymInt.__init__(self, z3.Int(name))

    def __mul__(self, o):
        if isinstance(o, DimProd):
            if self.idx & o.idx:
                raise ShadowAbort("extent used twice in a product")
            return DimProd(self.idx | o.idx)
        if isinstance(o, int) and o == 1:
            return self
        return SymInt.__mul__(self, o)

    def __rmul__(self, o):
        if isinstance(o, int) and o == 1:
            return self
        return SymInt.__rmul__(self, o)

    __hash__ = SymInt.__hash__


def _R(shape, j):
    """R_j = prod(shape[j+1:]) as an atomic product constant (1 for the empty product)"""
    r = 1
    for x in shape[j + 1:]:
        r = r * x
    return _t(r)


def _factorisations(shape, d):
    """n_d * R_d = R_{d-1} and prod(shape[:d]) * R_{d-1} = numel, all atoms >= 1"""
    order = len(shape)
    c = []
    atoms = set()

    def P(lo, hi):
        r = 1
        for x in shape[lo:hi]:
            r = r * x
        if isinstance(r, SymInt):
            atoms.add(r.t)
        return _t(r)

    # NOTE: no factorisation equalities are asserted (the solver's equation elimination would substitute the atoms away
    # again); none of the obligations needs them: all facts are about multiples of one R_j and cells of R_{j-1}.
    for lo in range(0, order + 1):
        P(lo, order)
    for x in shape:
        atoms.add(x.t)
    return c + [a >= 1 for a in atoms]


def cases(tier):
    cs = []
    for which in ("fsdp", "hsdp"):
        for order in range(0, 6):
            for d in range(0, max(order, 1)):
                cs.append(f"level/{which}/o{order}/d{d}")
        cs.append(f"top/{which}")
    for order in range(0, 6):
        for d in range(0, max(order, 1)):
            cs.append(f"agree/o{order}/d{d}")
    cs.append("lemma/minimality")
    cs.append("lemma/minimality-counting-lean")
    return cs


def _mk(order, d=0):
    shape = tuple(DimProd([i]) for i in range(order))
    for c in _factorisations(shape, d):
        assume(c)
    return shape


def _run_level(which, order, d, shape, s, e, obl, calls):
    def stub(block_within_tensor_shard, dimension, block_start_idx, block_end_idx):
        calls.append(dict(block=block_within_tensor_shard, d=dimension, s=block_start_idx, e=block_end_idx))
        return SegList([Chain(block_start_idx, block_end_idx, dimension)])

    fn = _inner_function(which, shape, stub)
    blk = Flat(s, e, obl)
    return fn(block_within_tensor_shard=blk, dimension=d, block_start_idx=s, block_end_idx=e)


def _pre(shape, order, d, s, e):
    numel = _R(shape, -1)
    c = [_t(s) >= 0, _t(s) <= _t(e), _t(e) <= numel]
    if d > 0:
        Rp = _R(shape, d - 1)
        c.append(z3.Implies(_t(s) < _t(e), _t(s) / Rp == (_t(e) - 1) / Rp))
        # ... and strictly smaller than that cell (used by the minimality argument: no slab of a shallower level fits in the range)
        c.append(_t(e) - _t(s) < Rp)
    return z3.And(*c)


def _level_case(case):
    _, which, o, dd = case.split("/")
    order, d = int(o[1:]), int(dd[1:])
    func = f"{'FSDPDistributor' if which == 'fsdp' else 'HSDPDistributor'}._split_tensor_block_recovery.block_within_tensor_shard_recovery"

    def fn():
        shape = _mk(order, d)
        s, e = SymInt("s"), SymInt("e")
        assume(_pre(shape, order, d, s, e))
        obl, calls = [], []
        res = _run_level(which, order, d, shape, s, e, obl, calls)
        return shape, s, e, res, obl, calls

    paths = Explorer().run(fn)
    out = []
    mv = {f"n{i}": z3.Int(f"n{i}") for i in range(order)}
    mv.update(s=z3.Int("s"), e=z3.Int("e"))
    rp = dict(kind="recovery", order=order)
    nret = 0
    for pi, p in enumerate(paths):
        tag = f"[{case}]#p{pi}"
        if p.outcome != "return":
            out.append(prove(f"{func}/no-exception{tag}", func, p.cond(), z3.BoolVal(False), model_vars=mv, text=f"{p.outcome}: {type(p.value).__name__}: {p.value}"[:200],
                             case=case, replay=rp) if p.outcome == "raise" else result(f"{func}/supported{tag}", func, "unknown", text=str(p.value), case=case))
            continue
        nret += 1
        shape, s, e, res, obl, calls = p.value
        hyp = p.cond()
        S, E = _t(s), _t(e)
        # callee preconditions at every recursive call + narrow/view side conditions
        for ci, c in enumerate(calls):
            b = c["block"]
            pre = z3.And(_pre(shape, order, c["d"], c["s"], c["e"]),
                         _t(b.lo) == _t(c["s"]), _t(b.hi) == _t(c["e"]),
                         z3.Or(_t(c["s"]) == _t(c["e"]), z3.BoolVal(c["d"] <= max(order - 1, 0))), z3.BoolVal(c["d"] > d))
            out.append(prove(f"{func}/recursive-call-precondition{tag}/c{ci}", func, hyp, pre, model_vars=mv, case=case, replay=rp, nia=True,
                             text="recursive call: range inside [0,numel], block is the flat view of exactly that range, inside one cell of the previous level, dimension increases (decreases clause)"))
        for oi, (nm, g) in enumerate(obl):
            out.append(prove(f"{func}/{nm}{tag}/o{oi}", func, hyp, g, model_vars=mv, case=case, replay=rp, text=f"torch contract precondition: {nm}"))
        # ensures
        segs = list(res)
        goals = []
        if not segs:
            goals.append(S == E)
        else:
            goals.append(S < E)
            goals.append(_t(segs[0].lo) == S)
            goals.append(_t(segs[-1].hi) == E)
            for a, b in zip(segs, segs[1:]):
                goals.append(_t(a.hi) == _t(b.lo))
            for sg in segs:
                lo, hi = _t(sg.lo), _t(sg.hi)
                if isinstance(sg, Chain):
                    goals.append(z3.BoolVal(sg.level >= d))
                    goals.append(lo <= hi)
                elif isinstance(sg, Flat):  # returned the block itself: only legal at the last dimension: shape (k,) = k x shape[order:]
                    goals += [z3.BoolVal(d == order - 1), lo < hi]
                    if d > 0:
                        Rp = _R(shape, d - 1)
                        goals.append(lo / Rp == (hi - 1) / Rp)
                else:  # explicit piece: slab m x shape[d+1:]
                    Rd = _R(shape, d)
                    want_rest = [x.t for x in shape[d + 1:]]
                    goals.append(z3.BoolVal(len(sg.rest) == len(want_rest)))
                    if len(sg.rest) == len(want_rest):
                        goals += [_t(r) == w for r, w in zip(sg.rest, want_rest)]
                    goals += [lo < hi, lo % Rd == 0, (hi - lo) % Rd == 0]
                    if d > 0:
                        Rp = _R(shape, d - 1)
                        goals.append(lo / Rp == (hi - 1) / Rp)
        out.append(prove(f"{func}/ensures:ordered-gap-free-valid-slabs{tag}", func, hyp, z3.And(*goals), model_vars=mv, case=case, replay=rp,
                         text="result chains from s to e without gaps; empty range gives []; every explicit piece is a non-empty slab m x shape[d+1:] aligned to R_d inside one cell of R_{d-1}, as a view (narrow/view) of the shard"))
        # ---- minimality, code side: the pieces follow the optimal recurrence (see the module docstring, "Minimality")
        pieces = [x for x in segs if isinstance(x, Piece)]
        chains = [x for x in segs if isinstance(x, Chain)]
        flats = [x for x in segs if isinstance(x, Flat)]
        if not segs:
            g2 = S == E
        elif d == order - 1:
            g2 = z3.And(z3.BoolVal(len(segs) == 1 and len(flats) == 1), _t(segs[0].lo) == S, _t(segs[0].hi) == E)
        else:
            # semantic, not syntactic: empty recursive calls may be present or omitted, in any arrangement
            Rd = _R(shape, d)
            Lc, Rc = ((S + Rd - 1) / Rd) * Rd, (E / Rd) * Rd
            conj = [z3.BoolVal(len(pieces) <= 1 and not flats and all(c.level == d + 1 for c in chains))]
            if pieces:
                conj += [_t(pieces[0].lo) == Lc, _t(pieces[0].hi) == Rc]
            else:
                conj.append(z3.Not(Lc < Rc))  # a non-empty aligned centre must be ONE explicit slab
            for c in chains:  # a recursive call never straddles the centre
                conj.append(z3.Or(_t(c.lo) == _t(c.hi), _t(c.hi) <= Lc, _t(c.lo) >= Rc, Lc > Rc))
            for x, y in zip(segs, segs[1:]):  # at most one non-empty recursive call per side
                if isinstance(x, Chain) and isinstance(y, Chain):
                    conj.append(z3.Or(_t(x.lo) == _t(x.hi), _t(y.lo) == _t(y.hi), z3.And(_t(x.hi) <= Lc, _t(y.lo) >= Rc, Lc <= Rc)))
            g2 = z3.And(*conj)
        out.append(prove(f"{func}/ensures:pieces-follow-the-optimal-recurrence{tag}", func, hyp, g2, model_vars=mv, case=case, replay=rp, nia=True,
                         text="last dimension: one piece; otherwise with L = ceil(s/R_d) R_d, R = floor(e/R_d) R_d: L > R -> the result of level d+1 on [s,e); "
                              "else rec(d+1,[s,L)) ++ [one slab [L,R) iff L < R] ++ rec(d+1,[R,e)) — the recurrence whose piece count is proved minimal by the lemma case"))
    out.append(result(f"{func}/cover:paths[{case}]", func, "violated" if nret else "discharged", kind="cover", case=case, extra=dict(paths=len(paths))))
    if order >= 1:
        out.append(prove(f"{func}/canary:range-always-aligned[{case}]", func, z3.And(z3.Int("s") >= 0, z3.Int("n0") >= 1),
                         z3.Int("s") % (z3.Int("n0") + 1) == 0, kind="canary", case=case))
    return out


def _top_case(case):
    which = case.split("/")[1]
    func = f"{'FSDPDistributor' if which == 'fsdp' else 'HSDPDistributor'}._split_tensor_block_recovery"
    outer = _outer(which)
    out = []
    import torch
    # non-flat shard rejected
    for shp in ((2, 3), (1, 1), (), (0, 1), (1, 0), (2, 0), (1, 0, 1)):
        for (s_, e_) in ((0, 6), (0, 0), (3, 3), (6, 6)):
            try:
                outer(torch.zeros(shp), torch.Size((2, 3)), s_, e_)
                ok = False
            except ValueError:
                ok = True
            except BaseException:  # noqa
                ok = False
            out.append(result(f"{func}/non-flat-shard-rejected[{case}/{shp}/{s_}-{e_}]", func, "discharged" if ok else "violated", backend="concrete-execution", case=case,
                              text=f"shard of shape {shp}, range [{s_},{e_}) (also an EMPTY range) -> ValueError", replay=dict(kind="nonflat", shape=list(shp), s=s_, e=e_)))
    # the wrapper calls the nested function with dimension 0 on the whole shard and [start, end): real wrapper, real nested function,
    # flat proxy: the first level is executed natively with the contract stub injected through the closure is not possible from
    # outside, so the wrapper is checked on concrete tensors against the contract evaluated at run time (all small shapes).
    n_ev, bad = 0, None
    for order in range(0, 4):
        for shape in itertools.product((1, 2, 3), repeat=order):
            numel = 1
            for x in shape:
                numel *= x
            for s in range(numel + 1):
                for e in range(s, numel + 1):
                    msg = native_recovery_check(which, shape, s, e, check_min=False)
                    n_ev += 1
                    if msg and not bad:
                        bad = f"shape {shape} [{s},{e}): {msg}"
    out.append(result(f"{func}/wrapper-establishes-the-contract-of-dimension-0[{case}]", func, "discharged" if not bad else "violated",
                      backend=f"run-time contract evaluation ({n_ev} concrete calls)", case=case, text=bad or "dimension 0, whole shard, [start,end)",
                      replay=dict(kind="recovery", order=3)))
    return out


def _agree_case(case):
    _, o, dd = case.split("/")
    order, d = int(o[1:]), int(dd[1:])
    func = "FSDPDistributor/HSDPDistributor._split_tensor_block_recovery"

    def fn():
        shape = _mk(order, d)
        s, e = SymInt("s"), SymInt("e")
        assume(_pre(shape, order, d, s, e))
        ra = _run_level("fsdp", order, d, shape, s, e, [], [])
        rb = _run_level("hsdp", order, d, shape, s, e, [], [])
        return ra, rb

    paths = Explorer().run(fn)
    out = []
    for pi, p in enumerate(paths):
        tag = f"[{case}]#p{pi}"
        if p.outcome != "return":
            out.append(result(f"{func}/agree:no-exception{tag}", func, "unknown" if p.outcome == "abort" else "violated", text=repr(p.value)[:200], case=case))
            continue
        ra, rb = p.value
        ok = len(ra) == len(rb) and all(type(a) is type(b) for a, b in zip(ra, rb))
        goals = []
        if ok:
            for a, b in zip(ra, rb):
                goals += [_t(a.lo) == _t(b.lo), _t(a.hi) == _t(b.hi)]
                if isinstance(a, Chain):
                    ok = ok and a.level == b.level
                if isinstance(a, Piece):
                    ok = ok and len(a.rest) == len(b.rest)
                    goals += [_t(x) == _t(y) for x, y in zip(a.rest, b.rest)]
        out.append(prove(f"{func}/copies-agree{tag}", func, p.cond(), z3.And(z3.BoolVal(bool(ok)), *goals), case=case, replay=dict(kind="recovery", order=order),
                         text="FSDP and HSDP copies return identical pieces for identical inputs (relational; same recursive-call results assumed)"))
    return out


def _lemma_case(case):
    """Arithmetic lemmas of the minimality argument (about the SPECIFICATION: slabs and ranges of integers; no code involved).
    R_d = Rd is any positive integer, so they hold at every level of every shape."""
    func = "lemma:minimal-slab-decomposition"
    s, e, lo, hi, Rd, a, k, Rj, q, Rp = z3.Ints("s e lo hi Rd a k Rj q Rp")
    L, R = ((s + Rd - 1) / Rd) * Rd, (e / Rd) * Rd
    rng = z3.And(Rd >= 1, 0 <= s, s <= lo, lo < hi, hi <= e)
    mv = dict(s=s, e=e, lo=lo, hi=hi, Rd=Rd, a=a, k=k, Rj=Rj, q=q, Rp=Rp)
    out = []

    def lem(name, hyp, goal, text, **kw):
        out.append(prove(f"{func}/{name}[{case}]", func, hyp, goal, model_vars=mv, case=case, text=text, **kw))

    lem("level-d-slab-lies-in-the-centre", z3.And(rng, lo == a * Rd, hi == (a + k) * Rd, k >= 1), z3.And(L <= lo, hi <= R), nia=True,
        text="a slab k x shape[d+1:] (lo = a R_d, hi = (a+k) R_d) inside [s,e) lies inside [L,R) with L = ceil(s/R_d) R_d, R = floor(e/R_d) R_d; in particular L < R")
    lem("deeper-slab-lies-in-one-part", z3.And(rng, lo / Rd == (hi - 1) / Rd, L <= R), z3.Or(hi <= L, z3.And(L <= lo, hi <= R), R <= lo), nia=True,
        text="a range inside one cell of R_d and inside [s,e) lies entirely in [s,L), [L,R) or [R,e) (L, R are multiples of R_d)")
    # cells nest: R_{j-1} divides R_d for j > d (R_d = q R_{j-1}), so a range inside one cell of R_{j-1} lies inside one cell of R_d.
    # The direct statement  lo/Rj = (hi-1)/Rj  =>  lo/(q Rj) = (hi-1)/(q Rj)  is decided by cvc5 in 0.03 .. 60 s (unstable), so it is
    # split into four stable steps with explicit quotient witnesses; their composition is an instantiation
    # (c := lo/Rj, C := c/q, r := c%q, K := C, K Rd = (C q) Rj):
    c, C, r, Cq, K = z3.Ints("c C r Cq K")
    lem("cells-nest/1:one-cell=>bounds", z3.And(Rj >= 1, lo >= 0, lo < hi, lo / Rj == (hi - 1) / Rj), z3.And((lo / Rj) * Rj <= lo, hi <= (lo / Rj) * Rj + Rj), nia=True,
        text="a range inside the cell c = lo div R_{j-1}:  c R_{j-1} <= lo < hi <= (c+1) R_{j-1}")
    lem("cells-nest/2:euclidean-division-of-the-cell-index", z3.And(q >= 1, c >= 0), z3.And(c == (c / q) * q + c % q, 0 <= c % q, c % q < q), nia=True,
        text="c = C q + r with 0 <= r < q")
    lem("cells-nest/3:bounds-in-the-coarser-cell", z3.And(Rj >= 1, q >= 1, lo >= 0, c * Rj <= lo, lo < hi, hi <= c * Rj + Rj, c == Cq + r, Cq == C * q, 0 <= r, r < q),
        z3.And(Cq * Rj <= lo, hi <= Cq * Rj + q * Rj), nia=True, text="then C (q R_{j-1}) <= lo < hi <= (C+1) (q R_{j-1})")
    lem("cells-nest/4:bounds=>one-cell", z3.And(Rd >= 1, lo >= 0, K * Rd <= lo, lo < hi, hi <= K * Rd + Rd), z3.And(lo / Rd == K, (hi - 1) / Rd == K), nia=True,
        text="K R_d <= lo < hi <= (K+1) R_d  =>  lo div R_d = (hi-1) div R_d = K")
    lem("no-shallower-slab-fits", z3.And(Rp >= 1, q >= 1, Rj == q * Rp, rng, e - s < Rp, lo == a * Rj, hi == (a + k) * Rj, k >= 1), z3.BoolVal(False), nia=True,
        text="under the recursion precondition e - s < R_{d-1}, no slab of a level j < d (unit R_j = q R_{d-1}) fits inside [s,e)")
    lem("no-boundary-inside=>one-cell-and-no-level-d-slab", z3.And(Rd >= 1, 0 <= s, s < e, L > R), z3.And(s / Rd == (e - 1) / Rd, e - s < Rd), nia=True,
        text="L > R: the range lies strictly inside one cell of R_d (so the precondition of level d+1 holds and, by the first lemma, no level-d slab fits)")
    lem("partials-are-smaller-than-a-cell", z3.And(Rd >= 1, 0 <= s, s <= e, L <= R), z3.And(s <= L, R <= e, L - s < Rd, e - R < Rd), nia=True,
        text="L <= R: both partial ranges [s,L) and [R,e) are shorter than R_d (precondition of level d+1)")
    out.append(prove(f"{func}/canary:every-range-is-aligned[{case}]", func, rng, lo % Rd == 0, kind="canary", case=case))
    return out


def _lean_case(case):
    """The counting / induction step of the minimality argument, machine-checked by Lean 4 (lemmas/C15Minimality.lean):
    any tiling of [s,e) by valid slabs has at least N(s,e) pieces, N = the recurrence the code is proved to follow
    (`ensures:pieces-follow-the-optimal-recurrence`).  Specification-side mathematics only; a failure here is never a
    violation of the property by /repo (status unknown => undecided)."""
    from vlib.lean import lean_obligation
    func = "lemma:minimal-slab-decomposition"
    return [lean_obligation(f"{func}/counting-step:any-tiling-has-at-least-as-many-pieces-as-the-recurrence[{case}]", func, "C15Minimality.lean",
                            ["C15.minimality_top", "C15.minimality"], case=case,
                            text="Lean 4 theorem C15.minimality_top: Strides S -> Tiling S n 0 s e k -> N S n 0 s e <= k  (with the arithmetic facts (a), (b) "
                                 "re-proved inside Lean; no sorry; axioms restricted to propext / Classical.choice / Quot.sound)")]


def run_case(case, tier, seed):
    if case == "lemma/minimality":
        return _lemma_case(case)
    if case == "lemma/minimality-counting-lean":
        return _lean_case(case)
    if case.startswith("level/"):
        return _level_case(case)
    if case.startswith("top/"):
        return _top_case(case)
    return _agree_case(case)


# ---- native tier -----------------------------------------------------------------------------------------


def _dp_min_pieces(shape, s, e):
    """fewest slabs: piece = contiguous range [a,b) that is m x shape[j+1:] (aligned to R_j, inside one cell of R_{j-1}) for some j"""
    import functools
    order = len(shape)
    R = [1] * (order + 1)
    for j in range(order - 1, -1, -1):
        R[j] = R[j + 1] * shape[j]
    # R[j] = prod(shape[j:]); slab at level j has unit R[j+1], cell size R[j]

    def valid(a, b):
        if order == 0:
            return b - a == 1
        for j in range(order):
            unit, cell = R[j + 1], R[j]
            if a % unit == 0 and (b - a) % unit == 0 and a // cell == (b - 1) // cell:
                return True
        return False

    @functools.lru_cache(None)
    def best(a):
        if a == e:
            return 0
        m = 10 ** 9
        for b in range(a + 1, e + 1):
            if valid(a, b):
                m = min(m, 1 + best(b))
        return m

    return best(s)


def native_recovery_check(which, shape, s, e, check_min=True):
    import torch
    outer = _outer(which)
    numel = 1
    for x in shape:
        numel *= x
    full = torch.arange(numel, dtype=torch.float64)
    shard = full[s:e].clone()
    try:
        res = outer(shard, torch.Size(shape), s, e)
    except BaseException as ex:  # noqa
        return f"raised {type(ex).__name__}: {ex}"
    pos = s
    order = len(shape)
    for t in res:
        if t.untyped_storage().data_ptr() != shard.untyped_storage().data_ptr():
            return "a returned block is a copy, not a view of the shard"
        n = t.numel()
        if n == 0:
            return "empty block returned"
        flat = t.reshape(-1)
        if int(flat[0]) != pos or not torch.equal(flat, torch.arange(pos, pos + n, dtype=torch.float64)):
            return "blocks do not partition the range in order"
        if t.storage_offset() != pos - s:
            return "block is not the view at offset lo - start"
        # slab validity
        shp = tuple(t.shape)
        okslab = False
        for j in range(max(order, 1)):
            rest = tuple(shape[j + 1:])
            if len(shp) == len(rest) + 1 and shp[1:] == rest:
                unit = 1
                for x in rest:
                    unit *= x
                cell = unit * (shape[j] if order else 1)
                if pos % unit == 0 and n % unit == 0 and pos // cell == (pos + n - 1) // cell:
                    okslab = True
        if not okslab:
            return f"block of shape {shp} at {pos} is not a slab k x shape[d+1:] inside one leading index"
        pos += n
    if pos != e:
        return "blocks do not cover the whole range"
    if s == e and len(res) != 0:
        return "empty range must yield no blocks"
    if check_min and len(res) != _dp_min_pieces(tuple(shape), s, e):
        return f"{len(res)} pieces but {_dp_min_pieces(tuple(shape), s, e)} suffice"
    try:
        other = _outer("hsdp" if which == "fsdp" else "fsdp")(shard, torch.Size(shape), s, e)
    except BaseException as ex:  # noqa
        return f"the {'HSDP' if which == 'fsdp' else 'FSDP'} copy raised {type(ex).__name__}: {str(ex)[:120]}"
    if len(other) != len(res) or any(a.shape != b.shape or a.storage_offset() != b.storage_offset() for a, b in zip(res, other)):
        return "FSDP and HSDP copies disagree"
    # "as views": also for a flat shard that is itself a strided view (every other element of a buffer) — the pieces must alias the shard's
    # storage, never be copies (a flat 1-D strided tensor admits every narrow / view the recovery needs)
    if e > s:
        buf = torch.zeros(2 * (e - s), dtype=torch.float64)
        strided = buf[1::2]
        strided.copy_(full[s:e])
        try:
            res2 = outer(strided, torch.Size(shape), s, e)
        except BaseException as ex:  # noqa
            return f"strided flat shard: raised {type(ex).__name__}: {ex}"
        if len(res2) != len(res):
            return "strided flat shard: different number of pieces than for the contiguous shard"
        for a, b in zip(res2, res):
            if a.untyped_storage().data_ptr() != buf.untyped_storage().data_ptr():
                return "strided flat shard: a returned block is a COPY, not a view of the shard"
            if a.shape != b.shape or not torch.equal(a, b):
                return "strided flat shard: pieces differ from those of the contiguous shard"
    return None


def bounded(tier, seed):
    lim = 24 if tier == "quick" else 64
    evals, viol, distinct = 0, [], set()
    for order in range(0, 6):
        for shape in itertools.product((1, 2, 3, 4), repeat=order):
            numel = 1
            for x in shape:
                numel *= x
            if numel > lim:
                continue
            for s in range(numel + 1):
                for e in range(s, numel + 1):
                    for which in ("fsdp", "hsdp"):
                        bad = native_recovery_check(which, shape, s, e)
                        evals += 1
                        distinct.add((shape, s, e))
                        if bad and len(viol) < 5:
                            viol.append(dict(ob=f"bounded/recovery[{which},{shape},{s},{e}]", func=f"{which}._split_tensor_block_recovery",
                                             input=dict(shape=shape, start=s, end=e), text=bad, detail=bad,
                                             replay=dict(kind="native_recovery", which=which, shape=list(shape), s=s, e=e)))
    return dict(evaluations=evals, distinct_nontrivial=len(distinct), exhaustive=True,
                rule="exhaustive (shape, start, end) for shapes of order 0..5 over extents 1..4 with numel <= bound, both copies: views, ordered partition, slab validity, MINIMALITY against a DP optimum, empty range, agreement; distinct = distinct (shape, start, end)",
                samples=[dict(shape=(3, 4), start=5, end=11)], bound=f"numel <= {lim}", violations=viol)


def replay(r):
    return replay_file(dict(replay_input=r.get("replay"), verifier_output=dict(model=r.get("model"))))


def replay_file(doc):
    rp = doc.get("replay_input") or {}
    m = (doc.get("verifier_output") or {}).get("model") or {}
    if rp.get("kind") == "nonflat":
        import torch
        for which in ("fsdp", "hsdp"):
            try:
                _outer(which)(torch.zeros(tuple(rp["shape"])), torch.Size((2, 3)), rp["s"], rp["e"])
                return True, f"{which}: non-flat shard of shape {rp['shape']} with range [{rp['s']},{rp['e']}) was not rejected"
            except ValueError:
                pass
        return False, "non-flat shards are rejected"
    if rp.get("kind") == "native_recovery":
        bad = native_recovery_check(rp["which"], tuple(rp["shape"]), rp["s"], rp["e"])
        return bool(bad), f"{rp}: {bad}"
    if rp.get("kind") == "recovery":
        order = rp.get("order", 0)
        tries = []
        if m and all(f"n{i}" in m for i in range(order)) and "s" in m and "e" in m:
            shape = tuple(int(m[f"n{i}"]) for i in range(order))
            numel = 1
            for x in shape:
                numel *= x
            if numel <= 4096 and 0 <= m["s"] <= m["e"] <= numel:
                tries.append((shape, int(m["s"]), int(m["e"])))
        for shape in itertools.product((1, 2, 3), repeat=min(order, 4)):
            numel = 1
            for x in shape:
                numel *= x
            for s in range(numel + 1):
                for e in range(s, numel + 1):
                    tries.append((shape, s, e))
        for shape, s, e in tries:
            for which in ("fsdp", "hsdp"):
                bad = native_recovery_check(which, shape, s, e)
                if bad:
                    return True, f"{which} shape {shape} [{s},{e}): {bad}"
        return False, "native recovery checks pass on the model and on all small shapes"
    return False, "no native replayer"
