"""C11 — eigendecomposition-based inverse roots are symmetric positive definite and finite on degenerate input.

Proved (E2 on the real `_matrix_inverse_root_eigen`, `matrix_eigenvalue_decomposition`, `matrix_inverse_root`): the result is the
spectral function Q f(Lambda) Q^T of eigh(A) with f(lambda) = (lambda - min(lambda_min, 0) + eps)^(-1/r); for all reals the
shifted eigenvalue is >= eps > 0 whatever the sign of lambda_min, hence 0 < f <= eps^(-1/r) (monotone-power axioms);
inputs with more than one element that are not square 2-D are rejected; the double-precision retry rule.
Assumed (textbook, listed): under eigh's exact contract Q f(Lambda) Q^T with f > 0 is symmetric PD with eigenvalues f(lambda_i),
commutes with A and is orthogonally equivariant.  These matrix-level consequences are sampled natively (bounded).
"""
from __future__ import annotations

from checks import mf

PROP = "C11"
LEVEL = "proof"
FUNCS = [("matrix_functions.py", f) for f in ("_matrix_inverse_root_eigen", "matrix_eigenvalue_decomposition", "matrix_inverse_root", "_matrix_inverse_root_diagonal")]
TRUSTED = [
    "ASSUMED contract of torch.linalg.eigh (exact arithmetic): A = Q diag(L) Q^T, Q orthonormal; torch.min(L) <= every L_i",
    "ASSUMED axioms of real powers: x^a > 0 for x > 0; x^a antitone in x for a < 0",
    "spectral calculus — Q f(Lambda) Q^T with f > 0 and Q^T Q = 1 is symmetric positive definite with eigenvalues f(lambda_i), commutes with A, and is orthogonally equivariant — is machine-checked by Lean 4 / Mathlib on every run (lemmas/C11Spectral.lean; over the reals) and additionally validated natively (bounded)",
    "machine arithmetic treated as mathematical; finiteness in floating point is sampled natively",
]
ASSUMPTIONS = ["epsilon > 0, root > 0"]
EXPLANATION = "spectral form and scalar positivity/boundedness facts proved for all real inputs; shape rejection and the double-precision retry rule proved on every path"


def cases(tier):
    cs = ["diag_eigen/eigen", "diag_eigen/diagonal-any-sign", "lemma/power", "lemma/spectral-calculus-lean", "eigdecomp", "contract/check_diagonal"]
    cs += [f"dispatch/{c}/{s}/{d}" for c in ("eigen", "eigen-stab") for s in ("vec", "rect", "cube", "scalar0", "scalar1", "scalar11", "square") for d in ("d0", "d1")]
    return cs


def run_case(case, tier, seed):
    if case == "contract/check_diagonal":
        # the library selects the diagonal fast path with is_diagonal=check_diagonal(A): a check_diagonal that accepts a matrix with tiny non-zero
        # off-diagonal entries yields a root that neither commutes with A nor is equivariant — its exactness contract is part of this check
        return mf.run_checkdiag(case)
    if case.startswith("diag_eigen/"):
        return mf.run_diag_eigen(case)
    if case == "lemma/spectral-calculus-lean":
        from vlib.lean import lean_obligation
        return [lean_obligation(f"lemma:spectral-calculus/spectral-form-is-symmetric-positive-definite-commuting-equivariant[{case}]", "lemma:spectral-calculus",
                                "C11Spectral.lean", ["C11.spec_symm", "C11.spec_posDef", "C11.spec_eigen", "C11.spec_commute", "C11.spec_equivariant"], case=case,
                                text="Lean 4 / Mathlib: for Q^T Q = 1 and d_i > 0 the matrix Q diag(d) Q^T is symmetric, positive definite, has eigenpairs (d_i, Q e_i), "
                                     "commutes with every Q diag(l) Q^T and satisfies spec(U Q, d) = U spec(Q, d) U^T")]
    if case.startswith("lemma/"):
        return mf.run_power_lemma(case)
    if case == "eigdecomp":
        return mf.run_eigdecomp(case)
    return mf.run_dispatch(case, psd_only=False)


def native_degenerate(n, kind, dtname, root, seed):
    import torch
    from fractions import Fraction
    import matrix_functions as M
    g = torch.Generator().manual_seed(seed)
    dt = torch.float32 if dtname == "f32" else torch.float64
    u = 6e-8 if dtname == "f32" else 1.2e-16
    Qm, _ = torch.linalg.qr(torch.randn(n, n, generator=g, dtype=torch.float64))
    scale = 10.0 ** float(torch.randint(-3, 4, (1,), generator=g))
    if kind == "zero":
        lam = torch.zeros(n, dtype=torch.float64)
    elif kind == "rankdef":
        lam = torch.cat([torch.rand(max(n // 2, 1), generator=g, dtype=torch.float64), torch.zeros(n - max(n // 2, 1), dtype=torch.float64)]) * scale
    elif kind == "negative":
        lam = (torch.rand(n, generator=g, dtype=torch.float64) - 1e-3) * scale
    else:
        lam = torch.rand(n, generator=g, dtype=torch.float64) * scale
    A = (Qm * lam.unsqueeze(0)) @ Qm.T
    A = ((A + A.T) / 2).to(dt)
    eps = max(scale, 1.0) * (1e-3 if dtname == "f32" else 1e-8)
    X = M.matrix_inverse_root(A, Fraction(root).limit_denominator(16), epsilon=eps)
    if not torch.isfinite(X).all():
        return "result not finite"
    tol = 200 * n * u * (float(lam.max() - min(float(lam.min()), 0)) + eps) / eps
    if tol > 0.2:
        return None
    Xd = X.double()
    top = eps ** (-1.0 / float(root))
    if float((Xd - Xd.T).abs().max()) > tol * top:
        return f"not symmetric (asymmetry {float((Xd - Xd.T).abs().max()):.2e}, eigenvalue cap {top:.2e})"
    ev = torch.linalg.eigvalsh((Xd + Xd.T) / 2)
    if float(ev.min()) <= 0:
        return f"not positive definite (min eigenvalue {float(ev.min()):.3e})"
    if float(ev.max()) > top * (1 + tol) * (1 + 1e-6):
        return f"largest eigenvalue {float(ev.max()):.6e} exceeds epsilon^(-1/r) = {top:.6e}"
    Ad = A.double()
    if float((Xd @ Ad - Ad @ Xd).abs().max()) > tol * top * max(float(Ad.abs().max()), 1e-30) * 10:
        return "does not commute with the input"
    R, _ = torch.linalg.qr(torch.randn(n, n, generator=g, dtype=torch.float64))
    A2 = (R @ Ad @ R.T)
    A2 = ((A2 + A2.T) / 2).to(dt)
    X2 = M.matrix_inverse_root(A2, Fraction(root).limit_denominator(16), epsilon=eps).double()
    if float((X2 - R @ Xd @ R.T).abs().max()) > 50 * tol * top:
        return f"not orthogonally equivariant (deviation {float((X2 - R @ Xd @ R.T).abs().max()):.2e})"
    return None


def native_shapes():
    import torch
    from fractions import Fraction
    import matrix_functions as M
    from matrix_functions_types import EigenConfig
    for shp in ((2,), (3, 2), (2, 2, 2), (1, 2), (4, 1)):
        for diag in (False, True):
            for cfg in (EigenConfig(), EigenConfig(enhance_stability=True, exponent_multiplier=1.82)):
                try:
                    M.matrix_inverse_root(torch.ones(shp), Fraction(2), root_inv_config=cfg, epsilon=1e-3, is_diagonal=diag)
                    return f"shape {shp} accepted (is_diagonal={diag})"
                except ValueError:
                    pass
                except Exception as e:
                    return f"shape {shp} (is_diagonal={diag}): {type(e).__name__} instead of ValueError"
    return None


def bounded(tier, seed):
    import itertools
    sizes = (1, 2, 3, 8, 16) if tier == "quick" else (1, 2, 3, 5, 8, 16, 32, 64)
    evals, viol, distinct = 0, [], set()
    for n, kind, dtn, root in itertools.product(sizes, ("zero", "rankdef", "negative", "psd"), ("f32", "f64"), (2, 4, 1.5)):
        for k in range(1 if tier == "quick" else 5):
            bad = native_degenerate(n, kind, dtn, root, seed * 100 + k)
            evals += 1
            distinct.add((n, kind, dtn, root, k))
            if bad and len(viol) < 5:
                viol.append(dict(ob=f"bounded/degenerate[{n},{kind},{dtn},{root}]", func="matrix_inverse_root", input=dict(n=n, kind=kind, dtype=dtn, root=root), text=bad, detail=bad,
                                 replay=dict(kind="degenerate", n=n, spectrum=kind, dt=dtn, root=root, seed=seed * 100 + k)))
    bad = native_shapes()
    evals += 1
    if bad:
        viol.append(dict(ob="bounded/shape-rejection", func="matrix_inverse_root", input={}, text=bad, detail=bad, replay=dict(kind="shapes")))
    bad = mf.native_eigen_value()
    evals += 1
    distinct.add(("eigen-value-and-repeatability",))
    if bad:
        viol.append(dict(ob="bounded/eigen-root-value-and-repeatability", func="_matrix_inverse_root_eigen", input=dict(configs=["default", "enhance_stability"], calls_per_size=2), text=bad, detail=bad, replay=dict(kind="eigen")))
    return dict(evaluations=evals, distinct_nontrivial=len(distinct),
                rule="zero / rank-deficient / slightly indefinite / PSD symmetric matrices, sizes x dtypes x roots: finite, symmetric, positive definite, eigenvalues <= eps^(-1/r), commutes with the input, orthogonal equivariance; tolerances from n*u*cond(A+eps I); distinct = distinct parameter tuples",
                samples=[dict(n=8, kind="zero", dtype="f32", root=4)], bound=f"sizes {sizes}", violations=viol)


def replay(r):
    return replay_file(dict(replay_input=r.get("replay"), verifier_output=dict(model=r.get("model"))))


def replay_file(doc):
    rp = doc.get("replay_input") or {}
    if rp.get("kind") == "checkdiag":
        bad = mf.native_checkdiag()
        return bool(bad), bad or "check_diagonal is exact on tiny off-diagonal entries"
    if rp.get("kind") == "degenerate":
        bad = native_degenerate(rp["n"], rp["spectrum"], rp["dt"], rp["root"], rp["seed"])
        return bool(bad), f"{rp}: {bad}"
    if rp.get("kind") == "scalar1x1":
        import torch
        from fractions import Fraction
        import matrix_functions as M
        for val, eps in ((-1e-3, 1e-5), (-1e-4, 1e-6)):
            X = M.matrix_inverse_root(torch.tensor([[val]], dtype=torch.float64), Fraction(2), epsilon=eps)
            if not torch.isfinite(X).all() or float(X) <= 0:
                return True, f"matrix_inverse_root([[{val}]], root=2, epsilon={eps}) = {X.tolist()} (not finite positive)"
        return False, "1x1 slightly negative inputs give finite positive roots"
    if rp.get("kind") == "eigen":
        bad = mf.native_eigen_value()
        if bad:
            return True, bad
    if rp.get("kind") == "diag_any_sign":
        import torch
        from fractions import Fraction
        import matrix_functions as M
        r = Fraction(*rp.get("root", [2, 1]))
        for d, eps in (([-1e-3, 1.0], 1e-6), ([-1e-4, 0.0, 2.0], 1e-5)):
            A = torch.diag(torch.tensor(d, dtype=torch.float64))
            fast = M.matrix_inverse_root(A, r, epsilon=eps, is_diagonal=True)
            general = M.matrix_inverse_root(A, r, epsilon=eps, is_diagonal=False)
            if not torch.isfinite(fast).all() or not torch.allclose(fast, general, rtol=1e-8, atol=1e-10):
                return True, f"matrix_inverse_root(diag({d}), root={r}, epsilon={eps}): is_diagonal=True gives {torch.diagonal(fast).tolist()}, the general path {torch.diagonal(general).tolist()}"
        return False, "diagonal fast path agrees with the general path on slightly negative diagonal entries"
    if rp.get("kind") == "shapes":
        bad = native_shapes()
        return bool(bad), str(bad)
    import itertools
    for n, kind, dtn, root in itertools.product((1, 3, 8), ("zero", "rankdef", "negative", "psd"), ("f32", "f64"), (2, 1.5)):
        bad = native_degenerate(n, kind, dtn, root, 0)
        if bad:
            return True, f"n={n} {kind} {dtn} root={root}: {bad}"
    bad = native_shapes()
    return bool(bad), bad or "native degenerate-input sweep passes"
