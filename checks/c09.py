"""C09 — checkpoint save/restore at any step resumes the exact trajectory.

Decomposition (DESIGN §4/C09):
 (1) FOOTPRINT.  Every persistent object the step reads before writing it is (a) a tensor reachable from optimizer.state whose
     path survives extract+flatten, or (b) a param_groups entry, or (c) derived state that is recomputed before use or equals
     its constructor value.  Deductive part (E2): the post-state of the real list classes / group step does NOT depend on the
     previous value of the un-checkpointed bias-correction attributes when they are in use, and those attributes equal their
     constructor value otherwise (object invariant) — relational obligations on the symbolic post-state terms.  The masked
     lists / selectors are re-derived from the gradients at the next step (C04's RI).  Object-graph part: every tensor
     reachable from the optimizer object that a step mutates is a parameter or is in the saved state (dynamic, enumerated).
 (2) KEYS unique per parameter and block; flat keys injective (C16).
 (3) SAVE/LOAD structure on the real functions: completeness of the saved dict w.r.t. optimizer.state, in-place load (tensor
     identities and list aliasing preserved), raise conditions (unknown parameter key, entry held but missing, group mismatch).
 (4) DETERMINISM of the step as a function of (parameters, gradients, param_groups, footprint) — by C01's contract.
 The bitwise resume itself is sampled at every stop step of seeded runs (bounded stand-in).
"""
from __future__ import annotations

import json

import copy
import itertools
import z3

from vlib.driver import prove, result
from vlib.sym import Explorer, SymBool, SymInt, SymReal, assume
from vlib.tensor import SymTensor
from checks import plist, stepmodel as sm

PROP = "C09"
LEVEL = "proof"
FUNCS = [
    ("distributed_shampoo/distributed_shampoo.py", "DistributedShampoo.distributed_state_dict"),
    ("distributed_shampoo/distributed_shampoo.py", "DistributedShampoo.load_distributed_state_dict"),
    ("distributed_shampoo/distributed_shampoo.py", "DistributedShampoo._construct_param_group_key"),
    ("distributed_shampoo/utils/shampoo_checkpoint_utils.py", "update_param_state_dict_object"),
    ("distributed_shampoo/utils/shampoo_distributor.py", "Distributor._construct_local_block_info_list"),
    ("distributed_shampoo/utils/shampoo_checkpoint_utils.py", "extract_state_dict_content"),
    ("distributed_shampoo/utils/shampoo_preconditioner_list.py", "BaseShampooPreconditionerList.update_preconditioners"),
    ("distributed_shampoo/utils/shampoo_preconditioner_list.py", "AdagradPreconditionerList.update_preconditioners"),
    ("optimizer_modules.py", "OptimizerModule.load_state_dict"),
]
TRUSTED = [
    "the footprint of step() is taken from the contracts of C01/C03/C04 (symbolic inputs of the group step and list classes) plus a dynamic object-graph scan on enumerated configurations; reads of Python-level attributes outside tensors are covered by the scan only",
    "structure obligations (completeness, in-place load, raise conditions) are concrete executions of the real save/load functions over configuration families (Shampoo/SOAP x grafting kinds x momentum/filtering x blocked parameters x two groups), not symbolic",
    "bitwise resume is BOUNDED: every stop step k in 0..T of seeded runs, serial layout and DTensor layout under a single-process group",
    "failure counters of C13 are persistent and not checkpointed: a resume restarts the count (affects only when a failing run raises, not parameters/state)",
]
ASSUMPTIONS = ["the freshly constructed optimizer has the same configuration and parameter names as the saved one"]
EXPLANATION = "un-checkpointed derived state is proved irrelevant (overwritten before use, or equal to its constructor value); save is complete and injective on the enumerated layouts; load is in place; missing/unknown entries raise"

CFGS = {
    "shampoo": dict(),
    "shampoo-full": dict(graft="adam", beta1=0.9, momentum=0.5),
    "soap": dict(soap=True, graft="rmsprop", beta1=0.9),
    "soap-qr": dict(soap=True, qr=True, momentum=0.5),
    "sgd-graft": dict(graft="sgd", momentum=0.9),
    "no-factor-block": dict(ignored=[0], shapes=((3,), (2, 2))),
    "ignored-all-soap": dict(soap=True, ignored=[0, 1], shapes=((2, 2),)),
    # low-precision parameters: every working tensor of the step must still BE the checkpointed state tensor (not a promoted copy of it)
    "bf16-full": dict(graft="adam", beta1=0.9, momentum=0.5, dtype="bf16"),
    # a block without Kronecker factors that still holds other per-block state (grafting, momentum, filtered gradient)
    "no-factor-block-full": dict(ignored=[0], shapes=((3,), (2, 2)), graft="adam", beta1=0.9, momentum=0.5),
}


def cases(tier):
    cs = ["derived/shampoo-bc2", "derived/soap-bc2", "derived/graft-bc2"]
    cs += [f"structure/{n}" for n in CFGS]
    cs += ["raise/unknown-param", "raise/missing-entry", "raise/missing-module-entry", "raise/missing-whole-block", "raise/group-mismatch", "keys/unique"]
    return cs


# ---------------------------------------------------------------------------------------------------------
# (1) derived-state independence


def _subst(t, name, val):
    return z3.substitute(t, (z3.Real(name), val))


def _derived_list_case(case):
    kind = "shampoo" if "shampoo" in case else "eig"
    cls = "ShampooPreconditionerList" if kind == "shampoo" else "EigenvalueCorrectedShampooPreconditionerList"
    func = f"BaseShampooPreconditionerList.update_preconditioners"

    def fn():
        c = plist.build(kind, [2], [], 0, faults=False)
        try:
            plist.havoc_state(c, diag="false")
            G = SymTensor.array("G0", dtype=c["param_dtype"], shape=c["blocks"][0].size())
            Gh = SymTensor.array("Ghat0", dtype=c["param_dtype"], shape=c["blocks"][0].size())
            t = SymInt("step")
            assume(t.t >= 1)
            pac = SymBool(z3.Bool("perform_amortized_computation"))
            c["lst"].update_preconditioners(masked_grad_list=(G,), step=SymTensor.int_scalar(t), perform_amortized_computation=pac)
            res = c["lst"].precondition((Gh,))
            kf = c["lst"]._local_kronecker_factors_list[0]
            second = kf.inv_factor_matrices if kind == "shampoo" else kf.factor_matrices_eigenvectors
            terms = [x.at(sm.IDX) for x in kf.factor_matrices] + [x.at(sm.IDX) for x in second] + [res[0].at(sm.IDX), c["lst"]._bias_correction2.at(0)]
            if kind != "shampoo":
                terms.append(kf.corrected_eigenvalues.at(sm.IDX))
            return c, terms
        finally:
            plist.close(c)

    paths = Explorer().run(fn)
    out = []
    for pi, p in enumerate(paths):
        tag = f"[{case}]#p{pi}"
        if p.outcome != "return":
            continue  # exceptional exits are C13's subject
        c, terms = p.value
        hyp = p.cond()
        a, b = z3.Real("bc2_a"), z3.Real("bc2_b")
        h1, h2 = _subst(hyp, "bc2_prev", a), _subst(hyp, "bc2_prev", b)
        in_use = z3.And(c["bias"].t, c["beta2"].t < 1)
        goal = z3.And(*[_subst(t, "bc2_prev", a) == _subst(t, "bc2_prev", b) for t in terms])
        out.append(prove(f"{func}/bias-correction2-recomputed-before-use{tag}", func, z3.And(h1, h2, in_use), goal, case=case, replay=dict(kind="resume", cfg="soap" if kind != "shampoo" else "shampoo-full"),
                         text=f"{cls}: when bias correction is in use, factor matrices, roots/bases, corrected eigenvalues, the direction and the new correction do not depend on the previous (un-checkpointed) _bias_correction2"))
        out.append(prove(f"{func}/bias-correction2-constructor-value-otherwise{tag}", func, z3.And(hyp, z3.Not(in_use)), z3.Real("bc2_prev") == 1, case=case,
                         text="otherwise the attribute still has its constructor value 1.0 (object invariant), which a freshly constructed optimizer also has"))
    out.append(result(f"{func}/cover:paths[{case}]", func, "violated" if out else "discharged", kind="cover", case=case, extra=dict(paths=len(paths))))
    return out


def _derived_graft_case(case):
    func = "AdagradPreconditionerList.update_preconditioners"

    def fn():
        h = sm.make_hyper("ada")
        for cnd in sm.hyper_domain(h):
            assume(cnd)
        blocks = sm.make_blocks(1, graft="ada")
        stub, gobj, step_t = sm.run_group_step(h, blocks, alias=False)
        return h, blocks, gobj

    paths = Explorer().run(fn)
    out = []
    for pi, p in enumerate(paths):
        tag = f"[{case}]#p{pi}"
        if p.outcome != "return":
            continue
        h, blocks, gobj = p.value
        hyp = p.cond()
        a, b = z3.Real("bc2g_a"), z3.Real("bc2g_b")
        terms = [blocks[0][k].at(sm.IDX) for k in ("w", "F", "M", "V") if blocks[0].get(k) is not None] + [gobj._bias_correction2.at(0)]
        in_use = z3.And(h["bias_g"].t, h["beta2g"].t < 1)
        goal = z3.And(*[_subst(t, "bc2g_prev", a) == _subst(t, "bc2g_prev", b) for t in terms])
        out.append(prove(f"{func}/grafting-bias-correction-recomputed-before-use{tag}", func, z3.And(_subst(hyp, "bc2g_prev", a), _subst(hyp, "bc2g_prev", b), in_use), goal, case=case,
                         replay=dict(kind="resume", cfg="shampoo-full"),
                         text="the whole group step is independent of the previous (un-checkpointed) grafting _bias_correction2 when Adam-style bias correction is on"))
    out.append(result(f"{func}/cover:paths[{case}]", func, "violated" if out else "discharged", kind="cover", case=case, extra=dict(paths=len(paths))))
    return out


# ---------------------------------------------------------------------------------------------------------
# real optimizer factory


def make(cfgname, seed=0, dtensor=False, params=None):
    import torch
    from distributed_shampoo.distributed_shampoo import DistributedShampoo
    from distributed_shampoo import shampoo_types as st
    from matrix_functions_types import QRConfig
    cfg = CFGS[cfgname]
    torch.manual_seed(seed)
    shapes = cfg.get("shapes", ((4, 3), (5,), (2, 2, 2)))
    if params is None:
        params = [torch.nn.Parameter(torch.randn(s).to(torch.bfloat16 if cfg.get("dtype") == "bf16" else torch.float32)) for s in shapes]
    g = cfg.get("graft")
    gc = dict(adam=st.AdamGraftingConfig(beta2=0.9, epsilon=1e-8), rmsprop=st.RMSpropGraftingConfig(beta2=0.9, epsilon=1e-8), sgd=st.SGDGraftingConfig()).get(g)
    ign = list(cfg.get("ignored", []))
    if cfg.get("soap"):
        pc = st.EigenvalueCorrectedShampooPreconditionerConfig(ignored_dims=ign, **({"amortized_computation_config": QRConfig()} if cfg.get("qr") else {}))
    else:
        pc = st.ShampooPreconditionerConfig(ignored_dims=ign)
    groups = [dict(params=params[:1], lr=0.05), dict(params=params[1:], lr=0.02)] if len(params) > 1 else [dict(params=params)]
    opt = DistributedShampoo(groups, lr=0.05, betas=(cfg.get("beta1", 0.0), 0.9), epsilon=1e-6, momentum=cfg.get("momentum", 0.0), weight_decay=0.01,
                             max_preconditioner_dim=3, precondition_frequency=2, start_preconditioning_step=2, grafting_config=gc, preconditioner_config=pc)
    names = [(f"p{j}", p) for j, p in enumerate(params)]
    return opt, params, names


def _walk_tensors(obj, seen, out, depth=0):
    import torch
    if id(obj) in seen or depth > 12:
        return
    seen.add(id(obj))
    if isinstance(obj, torch.Tensor):
        out.append(obj)
        return
    if isinstance(obj, dict):
        for k, v in obj.items():
            _walk_tensors(k, seen, out, depth + 1)
            _walk_tensors(v, seen, out, depth + 1)
    elif isinstance(obj, (list, tuple, set)):
        for v in obj:
            _walk_tensors(v, seen, out, depth + 1)
    elif hasattr(obj, "__dict__") and not isinstance(obj, type) and type(obj).__module__.split(".")[0] in ("distributed_shampoo", "optimizer_modules", "matrix_functions_types"):
        _walk_tensors(vars(obj), seen, out, depth + 1)


def _saved_tensors(sd):
    import torch
    out = []
    for pk, flat in sd["state"].items():
        out += [v for v in flat.values() if isinstance(v, torch.Tensor)]
    return out


def _structure_case(case):
    import torch
    name = case.split("/")[1]
    func = "DistributedShampoo.distributed_state_dict"
    out = []
    opt, params, names = make(name)
    # snapshot of every tensor reachable from the freshly constructed optimizer: whatever the first steps (warm-up, first refresh, later
    # refreshes) mutate must be a parameter or end up in the saved state — also flags that flip only once (e.g. at the first refresh)
    all0 = []
    _walk_tensors(vars(opt), set(), all0)
    before0 = [(t, t.detach().clone()) for t in all0 if t.numel() > 0]
    for t in range(3):
        for p in params:
            p.grad = torch.randn(p.shape).to(p.dtype)
        opt.step()
    sd = opt.distributed_state_dict(key_to_param=iter(names))
    rp = dict(kind="resume", cfg=name)
    saved0 = {t.data_ptr() for t in _saved_tensors(sd)}
    mutated0 = []
    for t, old in before0:
        if not torch.equal(t.detach(), old) and t.data_ptr() not in saved0:
            base = t.untyped_storage().data_ptr()
            if any(base == p.untyped_storage().data_ptr() for p in params) or any(p.grad is not None and base == p.grad.untyped_storage().data_ptr() for p in params):
                continue
            mutated0.append((tuple(t.shape), str(t.dtype)))
    out.append(result(f"DistributedShampoo.step/tensors-mutated-since-construction-are-parameters-or-saved-state[{case}]", "DistributedShampoo.step",
                      "discharged" if not mutated0 else "violated", backend="object-graph scan", case=case,
                      text=f"{len(before0)} tensors reachable from the freshly constructed optimizer; mutated by the first three steps and neither parameter nor saved: {mutated0[:4]}", replay=rp))
    # completeness w.r.t. optimizer.state
    st_t = []
    _walk_tensors(dict(opt.state), set(), st_t)
    param_ptrs = {p.data_ptr() for p in params}
    st_t = [t for t in st_t if t.data_ptr() not in param_ptrs or t.numel() == 0]
    saved = _saved_tensors(sd)
    saved_ids = {(t.data_ptr(), tuple(t.shape), t.dtype) for t in saved}
    missing = [t for t in st_t if t.numel() > 0 and (t.data_ptr(), tuple(t.shape), t.dtype) not in saved_ids and not any(t is p for p in params)]
    out.append(result(f"{func}/every-state-tensor-is-saved[{case}]", func, "discharged" if not missing else "violated", backend="object-graph scan", case=case,
                      text=f"{len(st_t)} tensors reachable from optimizer.state, {len(missing)} not in the state dict", replay=rp))
    # footprint: every tensor reachable from the optimizer object that a step mutates is a parameter (storage) or saved
    allt = []
    _walk_tensors(vars(opt), set(), allt)
    before = [(t, t.detach().clone()) for t in allt if t.numel() > 0]
    for p in params:
        p.grad = torch.randn(p.shape).to(p.dtype)
    opt.step()
    sd2 = opt.distributed_state_dict(key_to_param=iter(names))
    saved2 = {t.data_ptr() for t in _saved_tensors(sd2)}
    grad_ptrs = {p.grad.data_ptr() for p in params if p.grad is not None}
    mutated_unsaved = []
    for t, old in before:
        if not torch.equal(t.detach(), old) and t.data_ptr() not in saved2:
            base = t.untyped_storage().data_ptr()
            if any(base == p.untyped_storage().data_ptr() for p in params) or any(p.grad is not None and base == p.grad.untyped_storage().data_ptr() for p in params):
                continue
            mutated_unsaved.append(tuple(t.shape))
    out.append(result(f"DistributedShampoo.step/mutated-tensors-are-parameters-or-saved-state[{case}]", "DistributedShampoo.step",
                      "discharged" if not mutated_unsaved else "violated", backend="object-graph scan", case=case,
                      text=f"{len(before)} tensors reachable from the optimizer, mutated and neither parameter nor saved: {mutated_unsaved[:4]}", replay=rp))
    # keys unique / injective
    keys_ok = all(len(set(flat.keys())) == len(flat) for flat in sd["state"].values()) and len(sd["state"]) == len(params)
    out.append(result(f"{func}/one-entry-per-parameter-unique-flat-keys[{case}]", func, "discharged" if keys_ok else "violated", backend="concrete-execution", case=case,
                      text="state dict has one entry per parameter name", replay=rp))
    # load into a fresh optimizer: in place, identities preserved, list views still aliased, values equal, own dict loadable
    opt2, params2, names2 = make(name, params=[torch.nn.Parameter(p.detach().clone()) for p in params])
    ids_before = {}
    t2 = []
    _walk_tensors(dict(opt2.state), set(), t2)
    ids_before = {id(t) for t in t2}
    try:
        opt2.load_distributed_state_dict(copy.deepcopy(sd2), key_to_param=iter(names2))
        load_ok, err = True, ""
    except BaseException as e:  # noqa
        load_ok, err = False, f"{type(e).__name__}: {e}"
    out.append(result("DistributedShampoo.load_distributed_state_dict/own-state-dict-loads" + f"[{case}]", "DistributedShampoo.load_distributed_state_dict",
                      "discharged" if load_ok else "violated", backend="concrete-execution", case=case,
                      text="a state dict produced by the optimizer loads into a freshly constructed one" + (f" — {err}" if err else ""), replay=rp,
                      model=dict(config=name)))
    if load_ok:
        t3 = []
        _walk_tensors(dict(opt2.state), set(), t3)
        same_ids = {id(t) for t in t3} == ids_before
        a, b = _flat_state(opt, names), _flat_state(opt2, names2)
        eq = a.keys() == b.keys() and all(torch.equal(a[k], b[k]) for k in a)
        out.append(result("DistributedShampoo.load_distributed_state_dict/in-place-copy-of-every-leaf" + f"[{case}]", "DistributedShampoo.load_distributed_state_dict",
                          "discharged" if same_ids and eq else "violated", backend="concrete-execution", case=case,
                          text=f"tensor objects of the loading optimizer are kept (identities equal: {same_ids}) and hold the saved values ({eq})", replay=rp))
        groups_eq = all({k: v for k, v in g1.items() if k != "params"} == {k: v for k, v in g2.items() if k != "params"} for g1, g2 in zip(opt.param_groups, opt2.param_groups))
        out.append(result("DistributedShampoo.load_distributed_state_dict/param-groups-restored" + f"[{case}]", "DistributedShampoo.load_distributed_state_dict",
                          "discharged" if groups_eq else "violated", backend="concrete-execution", case=case, text="every param_groups entry other than params is restored", replay=rp))
    return out


def _flat_state(opt, names):
    import torch
    sd = opt.distributed_state_dict(key_to_param=iter(names), save_param_groups=False)
    return {f"{pk}/{k}": v for pk, flat in sd["state"].items() for k, v in flat.items() if isinstance(v, torch.Tensor)}


def _raise_case(case):
    import torch
    kind = case.split("/")[1]
    func = "DistributedShampoo.load_distributed_state_dict"
    out = []
    for name in (("no-factor-block-full",) if kind == "missing-whole-block" else ("shampoo-full", "soap")):
        opt, params, names = make(name)
        for p in params:
            p.grad = torch.randn(p.shape).to(p.dtype)
        opt.step()
        sd = opt.distributed_state_dict(key_to_param=iter(names))
        opt2, params2, names2 = make(name, params=[torch.nn.Parameter(p.detach().clone()) for p in params])
        bad = copy.deepcopy(sd)
        if kind == "unknown-param":
            bad["state"]["not_a_parameter"] = bad["state"]["p0"]
            what = "a state entry naming an unknown parameter"
        elif kind == "missing-entry":
            k = [k for k in bad["state"]["p0"] if "momentum" in k or "filtered_grad" in k or "adagrad" in k or "step" in k][0]
            del bad["state"]["p0"][k]
            what = f"the saved state of p0 lacks the entry {k} the optimizer holds"
        elif kind == "missing-module-entry":
            ks = [k for k in bad["state"]["p0"] if "inv_factor_matrices" in k or "factor_matrices_eigenvectors" in k]
            for k in ks:
                del bad["state"]["p0"][k]
            what = "the saved state of p0 lacks every inverse-root / eigenbasis entry of a Kronecker-factor module"
        elif kind == "missing-whole-block":
            # p0 has shape (3,) with ignored_dims=[0]: its block has NO Kronecker factor (a leaf-less module, dropped on save) but holds grafting /
            # momentum / filtered-gradient tensors; a checkpoint that lacks every entry of that block must raise, not resume with fresh zeros
            blocks = sorted({json.loads(k)[0] for k in bad["state"]["p0"] if isinstance(json.loads(k), list) and str(json.loads(k)[0]).startswith("block_")})
            ks = [k for k in bad["state"]["p0"] if isinstance(json.loads(k), list) and json.loads(k)[0] == blocks[0]]
            for k in ks:
                del bad["state"]["p0"][k]
            what = f"the saved state of p0 lacks all {len(ks)} entries of {blocks[0]} (a block without Kronecker factors that holds other state)"
        else:
            gk = list(bad["param_groups"].keys())[0]
            bad["param_groups"]["renamed/group"] = bad["param_groups"].pop(gk)
            what = "a param-group key that matches no group"
        try:
            opt2.load_distributed_state_dict(bad, key_to_param=iter(names2))
            outcome = "loaded silently"
        except (KeyError, ValueError) as e:
            outcome = f"raised {type(e).__name__}"
        except BaseException as e:  # noqa
            outcome = f"raised {type(e).__name__}"
        ok = outcome.startswith("raised")
        out.append(result(f"{func}/raises-instead-of-resuming[{case}/{name}]", func, "discharged" if ok else "violated", backend="concrete-execution", case=case,
                          text=f"{what}: {outcome}", replay=dict(kind="raise", what=kind, cfg=name), model=dict(outcome=outcome)))
    return out


def _keys_case(case):
    import torch
    from distributed_shampoo.utils.shampoo_distributor import Distributor
    from distributed_shampoo.distributed_shampoo import DistributedShampoo
    from distributed_shampoo import shampoo_types as st
    func = "Distributor._construct_local_block_info_list"
    out = []
    # the param-group key is a function of the SET of parameter names of the group (order-independent), and distinguishes groups
    gfunc = "DistributedShampoo._construct_param_group_key"
    for names in (("a", "b", "c"), ("layer.0.weight", "layer.0.bias", "layer.10.weight"), ("w", "W", "0")):
        ps = [torch.nn.Parameter(torch.zeros(1)) for _ in names]
        p2k = {p: n for p, n in zip(ps, names)}
        keys = {DistributedShampoo._construct_param_group_key({st.PARAMS: list(perm)}, p2k) for perm in itertools.permutations(ps)}
        sub = {DistributedShampoo._construct_param_group_key({st.PARAMS: list(c)}, p2k) for r in (1, 2) for c in itertools.combinations(ps, r)}
        ok = len(keys) == 1 and not (keys & sub) and len(sub) == 6
        out.append(result(f"{gfunc}/order-independent-and-distinguishing[{case}/{'-'.join(names)}]", gfunc, "discharged" if ok else "violated",
                          backend="concrete-execution (all permutations / sub-groups)", case=case,
                          text=f"{len(keys)} distinct key(s) over all orderings of the group's parameters; different parameter sets get different keys", replay=dict(kind="groupkey")))
    for shapes in (((4, 3), (5,), (2, 2, 2)), ((7,), (7,), (7,)), ((1,), (), (3, 3, 3))):
        params = [torch.nn.Parameter(torch.zeros(s)) for s in shapes]
        D = Distributor({st.PARAMS: params, st.MAX_PRECONDITIONER_DIM: 2, st.USE_MERGE_DIMS: True})
        ids = [(id(b.param), b.composable_block_ids[1]) for b in D.local_block_info_list]
        ok = len(ids) == len(set(ids)) == len(D.local_blocked_params)
        out.append(result(f"{func}/(parameter,block-id)-pairwise-distinct[{case}/{shapes}]", func, "discharged" if ok else "violated", backend="concrete-execution", case=case,
                          text=f"{len(ids)} blocks, {len(set(ids))} distinct (parameter, block id) keys"))
    return out


def run_case(case, tier, seed):
    if case.startswith("derived/"):
        return _derived_graft_case(case) if "graft" in case else _derived_list_case(case)
    if case.startswith("structure/"):
        return _structure_case(case)
    if case.startswith("raise/"):
        return _raise_case(case)
    return _keys_case(case)


# ---- bounded: bitwise resume at every stop step -----------------------------------------------------------


def native_resume(cfgname, seed, T=5, dtensor=False):
    import random
    import torch
    rng = random.Random(f"{cfgname}/{seed}")
    torch.manual_seed(seed)
    opt, params, names = make(cfgname, seed)
    grads = [[(torch.randn(p.shape).to(p.dtype) if rng.random() < 0.8 else None) for p in params] for _ in range(T)]
    snaps = []
    for k in range(T + 1):
        snaps.append(([p.detach().clone() for p in params], copy.deepcopy(opt.distributed_state_dict(key_to_param=iter(names)))))
        if k < T:
            for p, g in zip(params, grads[k]):
                p.grad = None if g is None else g.clone()
            opt.step()
    final = [p.detach().clone() for p in params]
    final_state = _flat_state(opt, names)
    for k in range(T + 1):
        ps = [torch.nn.Parameter(x.clone()) for x in snaps[k][0]]
        o2, _, n2 = make(cfgname, seed, params=ps)
        try:
            o2.load_distributed_state_dict(copy.deepcopy(snaps[k][1]), key_to_param=iter(n2))
        except BaseException as e:  # noqa
            return f"stop step {k}: loading the optimizer's own state dict raised {type(e).__name__}: {e}"
        for j in range(k, T):
            for p, g in zip(ps, grads[j]):
                p.grad = None if g is None else g.clone()
            o2.step()
        for a, b in zip(ps, final):
            if not torch.equal(a.detach(), b):
                return f"stop step {k}: parameters after resume differ from the uninterrupted run (max diff {float((a.detach() - b).abs().max()):.3e})"
        fs = _flat_state(o2, n2)
        if fs.keys() != final_state.keys() or any(not torch.equal(fs[x], final_state[x]) for x in fs):
            return f"stop step {k}: optimizer state after resume differs from the uninterrupted run"
    return None


def native_resume_reordered(seed=0):
    """save after 2 steps, load into a fresh optimizer whose (multi-parameter) group lists the same parameters in another order"""
    import torch
    from distributed_shampoo.distributed_shampoo import DistributedShampoo
    torch.manual_seed(seed)
    shapes = ((3, 2), (4,), (2, 2))
    init = [torch.randn(s) for s in shapes]
    grads = [[torch.randn(s) for s in shapes] for _ in range(4)]
    kw = dict(lr=0.05, betas=(0.9, 0.99), epsilon=1e-6, momentum=0.5, max_preconditioner_dim=2, precondition_frequency=1, start_preconditioning_step=1)

    def run(order, upto, load=None):
        ps = [torch.nn.Parameter(x.clone()) for x in init]
        names = [(f"p{j}", p) for j, p in enumerate(ps)]
        opt = DistributedShampoo([dict(params=[ps[j] for j in order])], **kw)
        return ps, names, opt

    ps, names, opt = run((0, 1, 2), 2)
    for t in range(2):
        for p, g in zip(ps, grads[t]):
            p.grad = g.clone()
        opt.step()
    sd = copy.deepcopy(opt.distributed_state_dict(key_to_param=iter(names)))
    mid = [p.detach().clone() for p in ps]
    for t in range(2, 4):
        for p, g in zip(ps, grads[t]):
            p.grad = g.clone()
        opt.step()
    final = [p.detach().clone() for p in ps]
    ps2 = [torch.nn.Parameter(x.clone()) for x in mid]
    names2 = [(f"p{j}", p) for j, p in enumerate(ps2)]
    opt2 = DistributedShampoo([dict(params=[ps2[0], ps2[2], ps2[1]])], **kw)  # first member kept (it carries the step counter)
    try:
        opt2.load_distributed_state_dict(sd, key_to_param=iter(names2))
    except BaseException as e:  # noqa
        return f"loading into an optimizer whose group lists the same parameters in another order raised {type(e).__name__}: {e}"
    for t in range(2, 4):
        for p, g in zip(ps2, grads[t]):
            p.grad = g.clone()
        opt2.step()
    for a, b in zip(ps2, final):
        if not torch.equal(a.detach(), b):
            return "resume with reordered group members differs from the uninterrupted run"
    return None


def bounded(tier, seed):
    n = 2 if tier == "quick" else 12
    evals, viol, distinct = 0, [], set()
    bad = native_resume_reordered(seed)
    evals += 1
    distinct.add(("reordered", seed))
    if bad:
        viol.append(dict(ob="bounded/resume-with-reordered-group", func="DistributedShampoo.load_distributed_state_dict", input=dict(seed=seed), text=bad, detail=bad, replay=dict(kind="groupkey")))
    for name in CFGS:
        for k in range(n):
            bad = native_resume(name, seed * 100 + k)
            evals += 1
            distinct.add((name, seed * 100 + k))
            if bad and len(viol) < 6:
                viol.append(dict(ob=f"bounded/resume[{name},seed={seed * 100 + k}]", func="DistributedShampoo.load_distributed_state_dict", input=dict(config=name, seed=seed * 100 + k),
                                 text=bad, detail=bad, replay=dict(kind="native_resume", cfg=name, seed=seed * 100 + k), known=_known(bad, name)))
    return dict(evaluations=evals, distinct_nontrivial=len(distinct),
                rule="seeded 5-step runs with absent gradients for 7 configuration families (Shampoo/SOAP eigh+QR, grafting kinds, momentum, filtering, two param groups, blocked parameters, blocks without Kronecker factors); save at EVERY stop step k in 0..5, load into a fresh optimizer over copied parameters, continue, compare parameters and state bitwise; distinct = distinct (config, seed)",
                samples=[dict(config="soap", stop_steps="0..5")], bound=f"{n} seeds per configuration, T = 5", violations=viol)


def _known(bad, name):
    return None


def replay(r):
    return replay_file(dict(replay_input=r.get("replay"), verifier_output=dict(model=r.get("model"))))


def replay_file(doc):
    rp = doc.get("replay_input") or {}
    if rp.get("kind") in ("native_resume", "resume"):
        seeds = [rp["seed"]] if "seed" in rp else range(4)
        for s in seeds:
            bad = native_resume(rp["cfg"], s)
            if bad:
                return True, f"config {rp['cfg']} seed {s}: {bad}"
        return False, "resume is bitwise identical at every stop step"
    if rp.get("kind") == "groupkey":
        bad = native_resume_reordered()
        return bool(bad), bad or "resume with the same groups enumerated in a different order is bitwise identical"
    if rp.get("kind") == "raise":
        res = _raise_case(f"raise/{rp['what']}")
        badr = [x for x in res if x["status"] != "discharged"]
        return bool(badr), badr[0]["text"] if badr else "load raises as required"
    return False, "no native replayer"
