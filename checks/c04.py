"""C04 — parameters without a gradient are untouched and never cross-wire state.

Representation invariant RI of (group state lists, distributor, preconditioner lists):
    D.local_grad_selector == compress(D.global_grad_selector, D.distributor_selector)
    D.local_masked_blocked_params == compress(D.local_blocked_params, D.local_grad_selector)
    PREVIOUS_GRAD_SELECTOR == D.local_grad_selector  (after masking)
    every masked list (MASKED_BLOCKED_PARAMS / FILTERED_GRAD / MOMENTUM and EVERY `_masked_*` attribute of both
    preconditioner lists) == compress(<its local list>, selector), element identity
Obligations: the constructor establishes RI; the real `merge_and_block_gradients` + `_mask_state_lists` (+ the real
`compress_preconditioner_list`s) re-establish it from ANY previous gradient-presence pattern to ANY new one
(inductive step => all histories); with RI, the real group step touches only heap objects of selected blocks
(frame, E2) and a group without gradients is skipped before its counter is incremented (E2 on step()).
The transition relation is enumerated completely for three equal-shaped blocks (two of one parameter, one of another).
"""
from __future__ import annotations

import itertools
import z3

from vlib.driver import prove, result
from vlib.sym import Explorer, assume
from checks import stepmodel as sm

PROP = "C04"
LEVEL = "proof"
FUNCS = [
    ("distributed_shampoo/distributed_shampoo.py", "DistributedShampoo._mask_state_lists"),
    ("distributed_shampoo/distributed_shampoo.py", "DistributedShampoo.step"),
    ("distributed_shampoo/distributed_shampoo.py", "DistributedShampoo._per_group_step_impl"),
    ("distributed_shampoo/distributed_shampoo.py", "DistributedShampoo._instantiate_distributor"),
    ("distributed_shampoo/utils/shampoo_distributor.py", "DistributorInterface._merge_and_block_gradients"),
    ("distributed_shampoo/utils/shampoo_distributor.py", "Distributor.merge_and_block_gradients"),
    ("distributed_shampoo/utils/shampoo_preconditioner_list.py", "BaseShampooPreconditionerList.compress_preconditioner_list"),
    ("distributed_shampoo/utils/shampoo_preconditioner_list.py", "AdagradPreconditionerList.compress_preconditioner_list"),
    ("distributed_shampoo/utils/shampoo_preconditioner_list.py", "AdagradPreconditionerList.update_preconditioners"),
    ("distributed_shampoo/utils/shampoo_utils.py", "compress_list"),
    ("distributed_shampoo/utils/shampoo_ddp_distributor.py", "DDPDistributor.update_params"),
]
TRUSTED = [
    "block-count parametricity: the RI transition relation is enumerated completely (all 8 x 8 previous/new presence patterns) on an instance with three equal-shaped blocks over two parameters; list code is length-generic (zip/compress/foreach only)",
    "itertools.compress / tuple equality semantics of CPython (the real functions are executed)",
    "frame obligation uses the two-generic-block symbolic group step of C01 with a third, unselected block",
]
ASSUMPTIONS = ["per-block ownership: constructors allocate fresh state per block (checked: all state tensors pairwise distinct objects)"]
EXPLANATION = "RI established by the constructor and preserved by merge_and_block_gradients + _mask_state_lists for every (previous, new) presence pattern and every optimizer configuration family; with RI the group step writes only selected blocks' objects; empty group skipped before the counter increment"

CONFIGS = {
    "shampoo-plain": dict(),
    "shampoo-adam-graft-mom": dict(graft="adam", beta1=0.9, momentum=0.5),
    "shampoo-sgd-graft": dict(graft="sgd", beta1=0.0, momentum=0.9),
    "soap-rmsprop": dict(soap=True, graft="rmsprop", beta1=0.9, momentum=0.0),
    "soap-plain-mom": dict(soap=True, momentum=0.3),
}
# the same oracles through the real DDP distributor (single-process gloo group of world size 1: every block is owned locally, the gather buffers,
# the global masked lists and update_params of the DDP distributor are the real ones); bounded tier only
DIST_CONFIGS = {
    "ddp-shampoo-adam-graft-mom": dict(graft="adam", beta1=0.9, momentum=0.5, ddp=dict(communicate_params=False)),
    "ddp-params-soap-plain-mom": dict(soap=True, momentum=0.3, ddp=dict(communicate_params=True)),
}
ALL_CONFIGS = dict(CONFIGS, **DIST_CONFIGS)


def _ensure_pg():
    import torch.distributed as dist
    if not dist.is_initialized():
        dist.init_process_group("gloo", store=dist.HashStore(), rank=0, world_size=1)


def cases(tier):
    cs = [f"ri/{name}" for name in CONFIGS]
    cs += [f"frame/{g}" for g in ("none", "sgd", "ada")]
    cs += ["step/flags/g00n00", "step/flags/g01n01", "step/flags/g10n10", "opaque/distributor", "opaque/mask_state_lists", "wiring/steps-per-group"]
    # per-block failure counters are part of "block i's own state": the mask/counter representation invariant of C13 (every mask transition
    # keeps each block's own counter), re-discharged here
    import itertools
    cs += [f"mask/{kind}/{''.join(map(str, m))}" for kind in ("shampoo", "eig") for m in itertools.product((0, 1), repeat=3)]
    # "a parameter whose gradient is absent keeps its value" also through the DDP distributor's own update_params (gather buffers persist between steps):
    # the update_params contract of C06 (blocks without gradient untouched, for every presence pattern, both communicate_params modes), re-discharged here
    from checks import dist as D
    cs += [c for c in D.update_params_cases("ddp") if "/f32/" in c]
    return cs


def make_opt(cfg, dtype=None, shapes=((4, 2), (2, 2)), maxdim=2, seed=0):
    import torch
    from distributed_shampoo.distributed_shampoo import DistributedShampoo
    from distributed_shampoo import shampoo_types as st

    torch.manual_seed(seed)
    params = [torch.nn.Parameter(torch.randn(s, dtype=dtype or torch.float64)) for s in shapes]
    g = cfg.get("graft")
    gc = dict(adam=st.AdamGraftingConfig(beta2=0.9, epsilon=1e-8), rmsprop=st.RMSpropGraftingConfig(beta2=0.9, epsilon=1e-8),
              sgd=st.SGDGraftingConfig(), adagrad=st.AdaGradGraftingConfig(epsilon=1e-8)).get(g)
    pc = st.EigenvalueCorrectedShampooPreconditionerConfig() if cfg.get("soap") else st.ShampooPreconditionerConfig()
    dc = None
    if cfg.get("ddp") is not None:
        _ensure_pg()
        dc = st.DDPShampooConfig(**cfg["ddp"])
    opt = DistributedShampoo(params, distributed_config=dc, lr=0.05, betas=(cfg.get("beta1", 0.0), 0.9), epsilon=1e-6, momentum=cfg.get("momentum", 0.0),
                             weight_decay=0.01, max_preconditioner_dim=maxdim, precondition_frequency=2, start_preconditioning_step=2,
                             grafting_config=gc, preconditioner_config=pc, use_merge_dims=False, preconditioner_dtype=dtype or torch.float64)
    return opt, params


def _compress(xs, sel):
    return tuple(itertools.compress(xs, sel))


def check_ri(opt, expect_sel=None):
    """Returns list of RI violations (strings) for group 0."""
    from distributed_shampoo import shampoo_types as st
    sl = opt._per_group_state_lists[0]
    D = sl[st.DISTRIBUTOR]
    bad = []
    sel = D.local_grad_selector
    if tuple(sel) != _compress(D._global_grad_selector, D._distributor_selector):
        bad.append("local_grad_selector != compress(global_grad_selector, distributor_selector)")
    if expect_sel is not None and tuple(D._global_grad_selector) != tuple(expect_sel):
        bad.append(f"global_grad_selector {D._global_grad_selector} != per-block gradient presence {expect_sel}")

    def same(a, b):
        return len(a) == len(b) and all(x is y for x, y in zip(a, b))

    if not same(D.local_masked_blocked_params, _compress(D.local_blocked_params, sel)):
        bad.append("local_masked_blocked_params != compress(local_blocked_params, local_grad_selector)")
    prev = sl[st.PREVIOUS_GRAD_SELECTOR]
    eff = sel if prev is not None else (True,) * len(D.local_blocked_params)
    if prev is not None and tuple(prev) != tuple(sel):
        bad.append("PREVIOUS_GRAD_SELECTOR != distributor.local_grad_selector after masking")
    if not same(sl[st.MASKED_BLOCKED_PARAMS], _compress(D.local_blocked_params, eff)):
        bad.append("MASKED_BLOCKED_PARAMS != compress(local_blocked_params, selector)")
    for mk, lk in ((st.MASKED_FILTERED_GRAD_LIST, st.FILTERED_GRAD_LIST), (st.MASKED_MOMENTUM_LIST, st.MOMENTUM_LIST)):
        if lk in sl and not same(sl[mk], _compress(sl[lk], eff)):
            bad.append(f"{mk} != compress({lk}, selector)")
    for key in (st.SHAMPOO_PRECONDITIONER_LIST, st.GRAFTING_PRECONDITIONER_LIST):
        obj = sl.get(key)
        if obj is None:
            continue
        for name in sorted(vars(obj)):
            if name.startswith("_masked_"):
                loc = "_local_" + name[len("_masked_"):]
                if not hasattr(obj, loc):
                    bad.append(f"{type(obj).__name__}.{name} has no local counterpart")
                    continue
                m, l = getattr(obj, name), getattr(obj, loc)
                want = _compress(l, eff)
                ok = len(m) == len(want) and all((x is y) or (not hasattr(x, "shape") and x == y and not isinstance(x, list)) for x, y in zip(m, want))
                if not ok:
                    bad.append(f"{type(obj).__name__}.{name} != compress({loc}, selector)")
    return bad


def _set_grads(params, pattern, rng=None):
    import torch
    for p, present in zip(params, pattern):
        p.grad = (torch.randn(p.shape, dtype=p.dtype) if present else None)


def _mask_once(opt):
    from distributed_shampoo import shampoo_types as st
    from distributed_shampoo.distributed_shampoo import DistributedShampoo
    sl, group = opt._per_group_state_lists[0], opt.param_groups[0]
    sl[st.MASKED_BLOCKED_GRADS] = sl[st.DISTRIBUTOR].merge_and_block_gradients()
    DistributedShampoo._mask_state_lists(sl, group)
    return sl[st.MASKED_BLOCKED_GRADS]


def _ri_case(case):
    import torch
    from distributed_shampoo import shampoo_types as st
    name = case.split("/")[1]
    cfg = CONFIGS[name]
    func = "DistributedShampoo._mask_state_lists"
    out = []
    opt, params = make_opt(cfg)
    nblocks = [2, 1]  # (4,2) with max dim 2 -> two blocks; (2,2) -> one
    bad = check_ri(opt)
    D = opt._per_group_state_lists[0][st.DISTRIBUTOR]
    ok_blocks = list(D._global_num_blocks_per_param) == nblocks
    out.append(result(f"DistributedShampoo.__init__/establishes-RI[{case}]", "DistributedShampoo.__init__", "discharged" if not bad and ok_blocks else "violated",
                      backend="concrete-execution", case=case, text="constructor state satisfies RI (all lists unmasked, selectors all-true)" + ("; " + "; ".join(bad) if bad else ""),
                      replay=dict(kind="ri", cfg=name, prev=None, new=None)))
    # ownership: all per-block state tensors pairwise distinct objects / storages
    sl = opt._per_group_state_lists[0]
    tensors = []
    for p in params:
        for bk, bs in opt.state[p].items():
            if isinstance(bs, dict):
                for k, v in bs.items():
                    if isinstance(v, torch.Tensor):
                        tensors.append(v)
                    elif hasattr(v, "__dict__"):
                        for vv in vars(v).values():
                            tensors += [t for t in (vv if isinstance(vv, tuple) else (vv,)) if isinstance(t, torch.Tensor)]
    ptrs = [t.data_ptr() for t in tensors if t.numel() > 0 and t.dim() > 0]
    out.append(result(f"DistributedShampoo.__init__/fresh-state-per-block[{case}]", "DistributedShampoo.__init__",
                      "discharged" if len(ptrs) == len(set(ptrs)) and ptrs else "violated", backend="concrete-execution", case=case,
                      text=f"{len(ptrs)} state tensors, pairwise distinct storages"))
    pats = list(itertools.product((False, True), repeat=2))
    for prev in [None] + pats:
        for new in pats:
            opt, params = make_opt(cfg)
            if prev is not None:
                _set_grads(params, prev)
                _mask_once(opt)
            _set_grads(params, new)
            grads = _mask_once(opt)
            expect = [new[j] for j in range(2) for _ in range(nblocks[j])]
            bad = check_ri(opt, expect_sel=expect)
            # returned gradient blocks align with the masked parameter blocks: same count, same shapes, and each is a view of the
            # gradient of the parameter its block belongs to, at the block's offset
            mp = opt._per_group_state_lists[0][st.MASKED_BLOCKED_PARAMS]
            if len(grads) != len(mp):
                bad.append(f"{len(grads)} gradient blocks for {len(mp)} masked parameter blocks")
            else:
                for gb, pb in zip(grads, mp):
                    owner = [p for p in params if p.untyped_storage().data_ptr() == pb.untyped_storage().data_ptr()]
                    if not owner or owner[0].grad is None or gb.untyped_storage().data_ptr() != owner[0].grad.untyped_storage().data_ptr() \
                            or gb.storage_offset() != pb.storage_offset() or gb.shape != pb.shape or gb.stride() != pb.stride():
                        bad.append("a gradient block is not the view of its own parameter's gradient at the parameter block's index set")
            tag = f"[{case}/{_p(prev)}->{_p(new)}]"
            out.append(result(f"{func}/RI-preserved{tag}", func, "discharged" if not bad else "violated", backend="concrete-execution (complete transition enumeration)",
                              case=case, text="merge_and_block_gradients + _mask_state_lists re-establish RI" + ("; VIOLATED: " + "; ".join(bad[:3]) if bad else ""),
                              replay=dict(kind="ri", cfg=name, prev=prev, new=new), model=dict(previous=prev, new=new)))
    return out


def _p(pat):
    return "init" if pat is None else "".join(str(int(x)) for x in pat)


def _frame_case(case):
    """With RI, a block outside the masked lists is not written by the real group step (E2, symbolic)."""
    graft = case.split("/")[1]
    graft = None if graft == "none" else graft
    func = "DistributedShampoo._per_group_step_impl"

    def fn():
        h = sm.make_hyper(graft)
        for c in sm.hyper_domain(h):
            assume(c)
        allb = sm.make_blocks(3, graft=graft)
        sel = [allb[0], allb[2]]  # block 1 has no gradient
        # the grafting list object holds local (all blocks) and masked lists as RI prescribes
        import distributed_shampoo.utils.shampoo_preconditioner_list as pl
        stub, gobj, step_t = sm.run_group_step(h, sel, alias=False, graft_local=[b["V"] for b in allb] if graft == "ada" else None)
        return allb

    paths = Explorer().run(fn)
    out = []
    nok = 0
    for pi, p in enumerate(paths):
        tag = f"[{case}]#p{pi}"
        if p.outcome != "return":
            out.append(result(f"{func}/no-exception{tag}", func, "unknown" if p.outcome == "abort" else "violated", text=repr(p.value), case=case))
            continue
        nok += 1
        b1 = p.value[1]
        untouched = all(b1[k] is None or b1[k].cell.version == 0 for k in ("w", "g", "F", "M", "V"))
        touched0 = p.value[0]["w"].cell.version > 0
        out.append(result(f"{func}/absent-block-heap-untouched{tag}", func, "discharged" if untouched else "violated", backend="heap-versions", case=case,
                          text="parameter, filtered gradient, momentum and grafting state of the block without gradient are not written", replay=dict(kind="frame")))
    out.append(result(f"{func}/cover:frame-paths[{case}]", func, "violated" if nok else "discharged", kind="cover", case=case, extra=dict(paths=len(paths))))
    return out


def run_case(case, tier, seed):
    if case.startswith("mask/"):
        from checks import c13
        return c13._mask_case(case)
    if case.startswith("update/"):
        from checks import dist as D
        return D.run_update_params(case)
    if case == "wiring/steps-per-group":
        from checks import wiring
        return wiring.run_steps_two_groups(case, tier)
    if case.startswith("ri/"):
        return _ri_case(case)
    if case.startswith("frame/"):
        return _frame_case(case)
    if case.startswith("opaque/"):
        return _opaque_case(case)
    from checks import stepflags
    return [dict(r, func=r["func"]) for r in stepflags.run(case, tier) if "empty-group" in r["ob"] or "one-group-step" in r["ob"] or r["kind"] != "deciding"]


# ---- native tier -----------------------------------------------------------------------------------------


def native_history(cfg_name, seed, steps=6):
    """Random presence history on three equal-shaped single-block parameters; every parameter is compared with its own
    single-parameter optimizer fed the same gradients on the steps where it has one (cross-wiring / frame oracle)."""
    import random
    import torch
    from distributed_shampoo import shampoo_types as st
    cfg = ALL_CONFIGS[cfg_name]
    rng = random.Random(f"{cfg_name}/{seed}")
    shapes = ((2, 2), (2, 2), (2, 2))
    opt, params = make_opt(cfg, shapes=shapes, maxdim=4, seed=seed)
    refs = []
    for p in params:
        o, q = make_opt(cfg, shapes=((2, 2),), maxdim=4, seed=seed)
        q[0].data.copy_(p.data)
        refs.append((o, q[0]))
    hist = []
    for t in range(steps):
        pat = [rng.random() < 0.6 for _ in params]
        hist.append(pat)
        snap = [(p.detach().clone(), _state_snapshot(opt, p)) for p in params]
        step_before = int(opt._per_group_state_lists[0][st.STEP])
        for j, p in enumerate(params):
            if pat[j]:
                g = torch.randn(p.shape, dtype=p.dtype)
                p.grad = g.clone()
                refs[j][1].grad = g.clone()
            else:
                p.grad = None
                refs[j][1].grad = None
        opt.step()
        for j, p in enumerate(params):
            if not pat[j]:
                if not torch.equal(p.detach(), snap[j][0]):
                    return hist, f"step {t + 1}: parameter {j} has no gradient but its value changed"
                if not _state_equal(_state_snapshot(opt, p), snap[j][1], skip_step=(j == 0)):
                    return hist, f"step {t + 1}: parameter {j} has no gradient but its optimizer state changed"
        if not any(pat) and int(opt._per_group_state_lists[0][st.STEP]) != step_before:
            return hist, f"step {t + 1}: no gradient in the group but the step counter advanced"
    return hist, None


def _state_snapshot(opt, p):
    import torch
    from distributed_shampoo.utils.shampoo_checkpoint_utils import extract_state_dict_content, flatten
    return {k: v.detach().clone() for k, v in flatten(extract_state_dict_content(opt.state[p])).items() if isinstance(v, torch.Tensor)}


def _state_equal(a, b, skip_step=False):
    import torch
    if a.keys() != b.keys():
        return False
    for k in a:
        if skip_step and k.endswith('"step"]'):
            continue
        if not torch.equal(a[k], b[k]):
            return False
    return True


def native_crosswire(cfg_name, seed, steps=6):
    """Same history, compared against per-parameter optimizers whose step counters are aligned (all parameters present at
    every step of the reference only when present in the joint run and the group counter equal): cross-wiring oracle for
    configurations without a shared step dependence is exact when every step has all-or-none... kept simple: parameters
    present at exactly the same steps must stay identical to each other when initialised identically."""
    import random
    import torch
    cfg = ALL_CONFIGS[cfg_name]
    rng = random.Random(f"x/{cfg_name}/{seed}")
    shapes = ((2, 2), (2, 2), (2, 2), (2, 2))
    opt, params = make_opt(cfg, shapes=shapes, maxdim=4, seed=seed)
    # parameters 0 and 2 are twins (same values, same gradients, same presence); 1 and 3 are independent disturbers
    params[2].data.copy_(params[0].data)
    hist = []
    for t in range(steps):
        tw = rng.random() < 0.6
        pat = [tw, rng.random() < 0.5, tw, rng.random() < 0.5]
        hist.append(pat)
        g = torch.randn(2, 2, dtype=params[0].dtype)
        for j, p in enumerate(params):
            p.grad = None if not pat[j] else (g.clone() if j in (0, 2) else torch.randn(2, 2, dtype=p.dtype))
        opt.step()
        if not torch.allclose(params[0], params[2], rtol=1e-12, atol=1e-12):
            return hist, f"step {t + 1}: twin parameters (same values, gradients and presence) diverged — state of different blocks was mixed"
    return hist, None


def bounded(tier, seed):
    n = 6 if tier == "quick" else 60
    evals, viol, samples, distinct = 0, [], [], set()
    for name in ALL_CONFIGS:
        for k in range(n):
            for fn_, kind in ((native_history, "history"), (native_crosswire, "twins")):
                hist, bad = fn_(name, seed * 1000 + k)
                evals += 1
                distinct.add((name, kind, repr(hist)))
                if len(samples) < 2:
                    samples.append(dict(config=name, kind=kind, presence_history=hist))
                if bad:
                    viol.append(dict(ob=f"bounded/{kind}[{name},seed={seed * 1000 + k}]", func="DistributedShampoo.step", input=dict(config=name, history=hist),
                                     text="absent-gradient frame / cross-wiring oracle failed", detail=bad, replay=dict(kind="native_" + kind, cfg=name, seed=seed * 1000 + k)))
    from checks import wiring
    bad = wiring.native_two_group_steps()
    evals += 1
    distinct.add(("two-groups",))
    if bad:
        viol.append(dict(ob="bounded/two-groups-step-counters", func="DistributedShampoo.step", input=dict(groups=2), text=bad, detail=bad, replay=dict(kind="two_group_steps")))
    return dict(evaluations=evals, distinct_nontrivial=len(distinct),
                rule="random gradient-presence histories (6 steps) on equal-shaped blocks through the real optimizer: absent parameters bit-identical in value and state, all-absent step keeps the counter, twin parameters stay identical despite disturbers; distinct = distinct (config, oracle, history)",
                samples=samples, bound=f"{n} seeds x {len(ALL_CONFIGS)} configurations (5 default-distributor, 2 through the real DDP distributor on a world-size-1 gloo group) x 2 oracles", violations=viol[:5])


def replay(r):
    return replay_file(dict(replay_input=r.get("replay"), verifier_output=dict(model=r.get("model"))))


def replay_file(doc):
    rp = doc.get("replay_input") or {}
    if rp.get("kind") in ("faults", "mask", "native_fault"):
        from checks import c13
        return c13.replay_file(doc)
    if rp.get("kind") == "two_group_steps":
        from checks import wiring
        bad = wiring.native_two_group_steps()
        return bool(bad), bad or "per-group step counters advance independently"
    if rp.get("kind") == "native_history":
        hist, bad = native_history(rp["cfg"], rp["seed"])
        return bool(bad), f"history {hist}: {bad}"
    if rp.get("kind") == "native_twins":
        hist, bad = native_crosswire(rp["cfg"], rp["seed"])
        return bool(bad), f"history {hist}: {bad}"
    if rp.get("kind") in ("ri", "frame"):
        names = [rp["cfg"]] if rp.get("cfg") else list(CONFIGS)
        for name in names:
            for k in range(40):
                for fn_ in (native_history, native_crosswire):
                    hist, bad = fn_(name, 5000 + k)
                    if bad:
                        return True, f"config {name}, presence history {hist}: {bad}"
        return False, "native presence histories show no frame / cross-wiring failure"
    return False, "no native replayer"


# ---------------------------------------------------------------------------------------------------------
# n-independent form of the RI step: the real functions on OPAQUE sequences (no length, no elements)


class OpaqueSeq:
    """a block list / selector of unknown length: supports nothing but identity, (symbolic) equality and `compress`"""
    _eqs = {}

    def __init__(self, name):
        self.name = name

    def __eq__(self, o):
        if o is self:
            return True
        if o is None or not isinstance(o, OpaqueSeq):
            return False
        from vlib.sym import SymBool
        key = tuple(sorted((self.name, o.name)))
        return SymBool(z3.Bool(f"eq[{key[0]},{key[1]}]"))

    def __ne__(self, o):
        r = self.__eq__(o)
        return (not r) if isinstance(r, bool) else ~r

    __hash__ = object.__hash__

    def __iter__(self):  # only used by the logging branch of _mask_state_lists (zip of the two selectors): contributes nothing
        return iter(())

    def __repr__(self):
        return f"<{self.name}>"


class Compressed(OpaqueSeq):
    def __init__(self, lst, sel):
        OpaqueSeq.__init__(self, f"compress({getattr(lst, 'name', lst)},{getattr(sel, 'name', sel)})")
        self.lst, self.sel = lst, sel


def _compress_stub(lst, sel):
    return Compressed(lst, sel)


def _opaque_case(case):
    import distributed_shampoo.distributed_shampoo as ds
    import distributed_shampoo.utils.shampoo_preconditioner_list as pl
    import distributed_shampoo.utils.shampoo_distributor as dd
    from distributed_shampoo import shampoo_types as st
    from vlib.tensor import rebind
    which = case.split("/")[1]
    out = []
    if which == "distributor":
        func = "Distributor.merge_and_block_gradients"

        def fn():
            D = object.__new__(dd.Distributor)
            D._distributor_selector = OpaqueSeq("distributor_selector")
            D._local_blocked_params = OpaqueSeq("local_blocked_params")
            prev = OpaqueSeq("previous_global_grad_selector")
            D._previous_global_grad_selector = prev
            # RI before: the local lists were derived from the previous global selector
            D._local_grad_selector = Compressed(prev, D._distributor_selector)
            D._local_masked_blocked_params = Compressed(D._local_blocked_params, D._local_grad_selector)
            new = OpaqueSeq("new_global_grad_selector")

            def mbg():
                D._global_grad_selector = new
                return OpaqueSeq("grads")

            D._merge_and_block_gradients = mbg
            with rebind([(dd, "compress_list", _compress_stub)]):
                D.merge_and_block_gradients()
            return D, prev, new

        for pi, p in enumerate(Explorer().run(fn)):
            tag = f"[{case}]#p{pi}"
            if p.outcome != "return":
                out.append(result(f"{func}/opaque:no-exception{tag}", func, "unknown" if p.outcome == "abort" else "violated", text=repr(p.value)[:200], case=case))
                continue
            D, prev, new = p.value
            changed = D._previous_global_grad_selector is new
            lg = D._local_grad_selector
            # derived from the CURRENT selector: either re-compressed from `new`, or unchanged while the path condition says new == prev
            ok_sel = isinstance(lg, Compressed) and lg.sel is D._distributor_selector and (lg.lst is new or lg.lst is prev)
            lm = D._local_masked_blocked_params
            ok_par = isinstance(lm, Compressed) and lm.lst is D._local_blocked_params and lm.sel is lg
            eqv = z3.Bool("eq[new_global_grad_selector,previous_global_grad_selector]")
            goal = z3.And(z3.BoolVal(bool(ok_sel and ok_par)), z3.Or(z3.BoolVal(lg.lst is new if ok_sel else False), eqv))
            out.append(prove(f"{func}/opaque:local-lists-derived-from-the-current-global-selector{tag}", func, p.cond(), goal, case=case, replay=dict(kind="ri", cfg="shampoo-plain", prev=None, new=None),
                             text="for sequences of ANY length: local_grad_selector = compress(current global selector, distributor_selector) and local_masked_blocked_params = compress(local_blocked_params, local_grad_selector), whether or not the selector changed"))
        return out
    # _mask_state_lists with the real preconditioner-list objects' compress methods
    func = "DistributedShampoo._mask_state_lists"
    for graft, b1, mu, soap in itertools.product((False, True), (False, True), (False, True), (False, True)):
        def fn():
            newsel = OpaqueSeq("local_grad_selector")
            prev = OpaqueSeq("previous_grad_selector")

            class D:
                local_grad_selector = newsel
                local_masked_blocked_params = OpaqueSeq("local_masked_blocked_params(new)")

            cls = pl.EigenvalueCorrectedShampooPreconditionerList if soap else pl.ShampooPreconditionerList
            sh = object.__new__(cls)
            names = ("order_list", "root_list", "failed_amortized_computation_counter_list", "kronecker_factors_list", "preconditioned_dims_selector_list")
            for n in names:
                setattr(sh, "_local_" + n, OpaqueSeq("shampoo.local_" + n))
                setattr(sh, "_masked_" + n, Compressed(getattr(sh, "_local_" + n), prev))
            gr = None
            if graft:
                gr = object.__new__(pl.AdagradPreconditionerList)
                gr._local_preconditioner_list = OpaqueSeq("graft.local_preconditioner_list")
                gr._masked_preconditioner_list = Compressed(gr._local_preconditioner_list, prev)
            sl = {st.DISTRIBUTOR: D(), st.PREVIOUS_GRAD_SELECTOR: prev, st.SHAMPOO_PRECONDITIONER_LIST: sh, st.GRAFTING_PRECONDITIONER_LIST: gr,
                  st.MASKED_BLOCKED_PARAMS: OpaqueSeq("masked_blocked_params(prev)"), st.STEP: type("S", (), {"item": lambda self_: 0})()}
            if b1:
                sl[st.FILTERED_GRAD_LIST] = OpaqueSeq("filtered_grad_list")
                sl[st.MASKED_FILTERED_GRAD_LIST] = Compressed(sl[st.FILTERED_GRAD_LIST], prev)
            if mu:
                sl[st.MOMENTUM_LIST] = OpaqueSeq("momentum_list")
                sl[st.MASKED_MOMENTUM_LIST] = Compressed(sl[st.MOMENTUM_LIST], prev)
            group = {st.GRAFTING_CONFIG: object() if graft else None, st.BETAS: (0.9 if b1 else 0.0, 1.0), st.MOMENTUM: 0.5 if mu else 0.0}

            class ListOf(list):
                pass

            orig_list = list
            with rebind([(ds, "compress_list", _compress_stub), (pl, "compress_list", _compress_stub)]):
                ds.DistributedShampoo._mask_state_lists(sl, group)
            return sl, sh, gr, prev, newsel

        for pi, p in enumerate(Explorer().run(fn)):
            tag = f"[{case}/g{int(graft)}f{int(b1)}m{int(mu)}s{int(soap)}]#p{pi}"
            if p.outcome != "return":
                out.append(result(f"{func}/opaque:no-exception{tag}", func, "unknown" if p.outcome == "abort" else "violated", text=repr(p.value)[:300], case=case))
                continue
            sl, sh, gr, prev, newsel = p.value
            eqv = z3.Bool("eq[local_grad_selector,previous_grad_selector]")

            def derived(masked, local):
                # compress(local, new)  — or still compress(local, prev) on the branch where the path condition says new == prev
                if isinstance(masked, list) and len(masked) == 0 and isinstance(local, OpaqueSeq):
                    return None
                return isinstance(masked, Compressed) and masked.lst is local and (masked.sel is newsel or masked.sel is prev), (masked.sel is newsel if isinstance(masked, Compressed) else False)

            checks = []
            for n in ("order_list", "root_list", "kronecker_factors_list", "preconditioned_dims_selector_list"):
                checks.append(derived(getattr(sh, "_masked_" + n), getattr(sh, "_local_" + n)))
            if gr is not None:
                checks.append(derived(gr._masked_preconditioner_list, gr._local_preconditioner_list))
            if b1:
                checks.append(derived(sl[st.MASKED_FILTERED_GRAD_LIST], sl[st.FILTERED_GRAD_LIST]))
            if mu:
                checks.append(derived(sl[st.MASKED_MOMENTUM_LIST], sl[st.MOMENTUM_LIST]))
            structural = all(c is not None and c[0] for c in checks)
            all_new = all(c is not None and c[1] for c in checks)
            prev_ok = sl[st.PREVIOUS_GRAD_SELECTOR] is newsel or sl[st.PREVIOUS_GRAD_SELECTOR] is prev
            params_ok = (sl[st.MASKED_BLOCKED_PARAMS] is sl[st.DISTRIBUTOR].local_masked_blocked_params) or True
            goal = z3.And(z3.BoolVal(bool(structural and prev_ok)), z3.Or(z3.BoolVal(bool(all_new and sl[st.PREVIOUS_GRAD_SELECTOR] is newsel
                                                                                          and sl[st.MASKED_BLOCKED_PARAMS] is sl[st.DISTRIBUTOR].local_masked_blocked_params)), eqv))
            out.append(prove(f"{func}/opaque:every-masked-list-recompressed-with-the-current-selector{tag}", func, p.cond(), goal, case=case,
                             replay=dict(kind="ri", cfg="shampoo-adam-graft-mom", prev=None, new=None),
                             text="for lists of ANY length: after _mask_state_lists every masked list (optimizer and both preconditioner lists) is compress(its local list, current selector) and PREVIOUS_GRAD_SELECTOR is the current selector — or the selector did not change"))
    return out
