"""C14 — block-to-rank assignment: deterministic balanced partition, disjoint buffers.

Engine E2 on the three copies (DDP, HSDP, HybridShard) of `_distribute_buffer_sizes`, `_split_local_dist_buffers`,
`_construct_distributed_buffers`: the real methods are executed on symbolic block byte sizes (ties included) with
`heapq` replaced by its contract (pop = lexicographically least (load, rank) pair, push = insert) and torch.split /
view by their view contracts over byte ranges.  The number of blocks is enumerated (n <= 3 quick, <= 4 thorough) and the
group size G in 1..3; every size is symbolic.  For ARBITRARY n the loop body of `_distribute_buffer_sizes` — extracted
mechanically from the real AST (the `for` body statements, nothing rewritten) — is proved to preserve the invariant
"every processed block has one rank in [0,G), heap loads = sums of assigned aligned sizes, spread <= largest block"
for G in 1..16 (inductive step; initiation and the sorted/enumerate loop header are checked structurally).
Graham's 4/3 bound follows from "is an LPT schedule" (cited theorem) and is validated exhaustively (bounded).
"""
from __future__ import annotations

import ast
import itertools
import os
import z3

from vlib.driver import REPO, prove, result
from vlib.sym import Explorer, ShadowAbort, SymBool, SymInt, assume, fresh_name
from vlib.tensor import rebind

PROP = "C14"
LEVEL = "proof"
COPIES = {
    "ddp": ("distributed_shampoo/utils/shampoo_ddp_distributor.py", "distributed_shampoo.utils.shampoo_ddp_distributor", "DDPDistributor", "_group_size"),
    "hsdp": ("distributed_shampoo/utils/shampoo_hsdp_distributor.py", "distributed_shampoo.utils.shampoo_hsdp_distributor", "HSDPDistributor", "_dist_group_size"),
    "hybrid": ("distributed_shampoo/utils/shampoo_hybrid_shard_distributor.py", "distributed_shampoo.utils.shampoo_hybrid_shard_distributor", "HybridShardDistributor", "_dist_group_size"),
}
FUNCS = [("distributed_shampoo/utils/shampoo_ddp_distributor.py", "DDPDistributor.__init__"), ("distributed_shampoo/utils/shampoo_ddp_distributor.py", "DDPDistributor._construct_global_block_info_list")] + [(f, f"{c}.{m}") for f, _, c, _ in COPIES.values() for m in ("_distribute_buffer_sizes", "_split_local_dist_buffers", "_construct_distributed_buffers", "_allocate_zeros_distributed_tensor")]
TRUSTED = [
    "ASSUMED contracts: heapq.heappop returns and removes the lexicographically least element, heappush inserts, heapify keeps the multiset (validated natively against the real heapq); sorted(key=, reverse=True) is CPython's (the real function is executed on symbolic keys)",
    "ASSUMED contracts: torch.split(buffer, sizes) returns consecutive views with the given lengths (requires sum == length); Tensor.split(k)[0] is the first min(k, len) bytes; view(dtype) requires byte offset and length multiples of the element size; views share storage",
    "number of blocks enumerated (n <= 3 quick / 4 thorough) and G in 1..3 for the whole-function obligations; the inductive step of the assignment loop is proved for arbitrary n and G in 1..16 on the mechanically extracted loop body",
    "Graham (1969): an LPT schedule has makespan <= (4/3 - 1/(3G)) OPT — cited theorem, validated exhaustively for n <= 7, G <= 4 (bounded)",
    "state placement (each rank allocates state only for blocks it owns) follows from _local_block_info_list = compress(global, owner == me), checked on the real DDP constructor under a single-process group natively (bounded)",
]
ASSUMPTIONS = ["block byte sizes >= 1"]
EXPLANATION = "alignment arithmetic, exactly-one owner in range, least-loaded choice, spread bound, buffer views inside the owner's segment / disjoint / large enough / aligned — for all sizes; see module docstring for what is enumerated"


def _cls(copy):
    import importlib
    f, modname, cname, attr = COPIES[copy]
    mod = importlib.import_module(modname)
    return mod, getattr(mod, cname), attr


# ---------------------------------------------------------------------------------------------------------
# heapq by contract


class HeapStub:
    def __init__(self):
        self.pops = []

    def heapify(self, lst):
        return None

    def heappop(self, lst):
        n = len(lst)
        if n == 0:
            raise IndexError("index out of range")
        k = z3.Int(fresh_name("pop"))
        assume(z3.And(k >= 0, k < n))
        T = lambda x: x.t if isinstance(x, SymInt) else z3.IntVal(int(x))
        vs = [T(e[0]) for e in lst]
        rs = [T(e[1]) for e in lst]

        def sel(xs):
            t = xs[-1]
            for j in range(n - 2, -1, -1):
                t = z3.If(k == j, xs[j], t)
            return t

        v, r = sel(vs), sel(rs)
        for j in range(n):
            assume(z3.Or(v < vs[j], z3.And(v == vs[j], r <= rs[j])))
        # uniqueness of the minimum (ranks in a heap are pairwise distinct) makes the choice deterministic
        new = []
        for j in range(n - 1):
            new.append((SymInt(z3.If(k <= j, vs[j + 1], vs[j])), SymInt(z3.If(k <= j, rs[j + 1], rs[j]))))
        self.pops.append(dict(v=v, r=r, loads=vs, ranks=rs))
        lst[:] = new
        return SymInt(z3.simplify(v)), SymInt(z3.simplify(r))

    def heappush(self, lst, item):
        lst.append(item)


def _T(x):
    return x.t if isinstance(x, SymInt) else z3.IntVal(int(x))


# ---------------------------------------------------------------------------------------------------------


def cases(tier):
    nmax = 3 if tier == "quick" else 4
    cs = []
    for copy in COPIES:
        for n in range(1, nmax + 1):
            for G in (1, 2, 3):
                cs.append(f"assign/{copy}/n{n}/G{G}")
        for G in (1, 2, 3, 4, 8, 16):
            cs.append(f"loopstep/{copy}/G{G}")
        for n in range(1, nmax + 1):
            for G in (1, 2):
                cs.append(f"buffers/{copy}/n{n}/G{G}")
        cs.append(f"structure/{copy}")
        cs.append(f"alloc/{copy}")
    cs.append("ctor/ddp")
    cs += [f"commdtype/{c}" for c in ("ddp", "hsdp", "hybrid")]  # "at least as large as the block IN THE COMMUNICATION DTYPE": which dtype that is
    return cs


def _assign_case(case):
    _, copy, ns, gs = case.split("/")
    n, G = int(ns[1:]), int(gs[1:])
    mod, C, attr = _cls(copy)
    func = f"{C.__name__}._distribute_buffer_sizes"

    def fn():
        b = [SymInt(f"b{i}") for i in range(n)]
        for x in b:
            assume(x.t >= 1)
        obj = object.__new__(C)
        setattr(obj, attr, G)
        hs = HeapStub()
        with rebind([(mod, "heapq", hs)]):
            res = obj._distribute_buffer_sizes(tuple(b))
        # processing order of an LPT schedule: stable descending by aligned size (the comparisons are decided on this path)
        order = None
        if isinstance(res, tuple) and len(res) == n and all(isinstance(x, tuple) and len(x) == 2 for x in res):
            order = sorted(range(n), key=lambda i: res[i][0] if isinstance(res[i][0], SymInt) else SymInt(_T(res[i][0])), reverse=True)
        return res, hs, order

    paths = Explorer().run(fn)
    out = []
    mv = {f"b{i}": z3.Int(f"b{i}") for i in range(n)}
    rp = dict(kind="assign", copy=copy, n=n, G=G)
    for pi, p in enumerate(paths):
        tag = f"[{case}]#p{pi}"
        if p.outcome != "return":
            out.append(result(f"{func}/no-exception{tag}", func, "unknown" if p.outcome == "abort" else "violated", text=repr(p.value)[:200], case=case, replay=rp))
            continue
        res, hs, order = p.value
        hyp = p.cond()
        ok = isinstance(res, tuple) and len(res) == n and all(isinstance(x, tuple) and len(x) == 2 for x in res)
        if not ok:
            out.append(result(f"{func}/result-shape{tag}", func, "violated", text="result is not a tuple of n (size, rank) pairs", case=case, replay=rp))
            continue
        a = [_T(x[0]) for x in res]
        r = [_T(x[1]) for x in res]
        b = [z3.Int(f"b{i}") for i in range(n)]
        out.append(prove(f"{func}/aligned-size=ceil64{tag}", func, hyp, z3.And(*[z3.And(a[i] >= b[i], a[i] % 64 == 0, a[i] < b[i] + 64) for i in range(n)]),
                         model_vars=mv, case=case, replay=rp, text="buffer size of block i is the smallest multiple of 64 >= its byte size"))
        out.append(prove(f"{func}/exactly-one-owner-in-range{tag}", func, hyp, z3.And(*[z3.And(r[i] >= 0, r[i] < G) for i in range(n)]), model_vars=mv,
                         case=case, replay=rp, text="every block gets one rank in [0, G)"))
        # LPT: replay the processing order (stable descending by aligned size — the comparisons are already decided on this path)
        desc = z3.And(*[a[order[j]] >= a[order[j + 1]] for j in range(n - 1)]) if n > 1 else z3.BoolVal(True)
        loads = [z3.IntVal(0)] * G
        least, tiebreak = [], []
        for i in order:
            cur = loads
            li = cur[0]
            for g in range(1, G):
                li = z3.If(r[i] == g, cur[g], li)
            least.append(z3.And(*[li <= cur[g] for g in range(G)]))
            tiebreak.append(z3.And(*[z3.Implies(cur[g] == li, r[i] <= g) for g in range(G)]))
            loads = [z3.If(r[i] == g, cur[g] + a[i], cur[g]) for g in range(G)]
        out.append(prove(f"{func}/largest-first-to-least-loaded{tag}", func, hyp, z3.And(desc, *least), model_vars=mv, case=case, replay=rp,
                         text="blocks are placed in non-increasing aligned size, each on a rank whose load is minimal at that moment (LPT)"))
        out.append(prove(f"{func}/tie-break-lowest-rank{tag}", func, hyp, z3.And(*tiebreak), kind="auxiliary", model_vars=mv, case=case,
                         text="auxiliary: among equally loaded ranks the lowest index is taken"))
        mx, mn, amax = loads[0], loads[0], a[0]
        for g in range(1, G):
            mx = z3.If(loads[g] > mx, loads[g], mx)
            mn = z3.If(loads[g] < mn, loads[g], mn)
        for i in range(1, n):
            amax = z3.If(a[i] > amax, a[i], amax)
        out.append(prove(f"{func}/load-spread<=largest-block{tag}", func, hyp, mx - mn <= amax, model_vars=mv, case=case, replay=rp,
                         text="difference between any two ranks' loads is at most the largest single (aligned) block"))
    out.append(result(f"{func}/cover:paths[{case}]", func, "violated" if paths else "discharged", kind="cover", case=case, extra=dict(paths=len(paths))))
    out.append(prove(f"{func}/canary:all-on-rank-0[{case}]", func, z3.BoolVal(True), z3.Int("b0") < 0, kind="canary", case=case))
    return out


# ---- inductive step of the assignment loop, arbitrary n --------------------------------------------------


def _function_ast(copy, name):
    f = COPIES[copy][0]
    src = open(os.path.join(REPO, f)).read()
    tree = ast.parse(src)
    for cls in ast.walk(tree):
        if isinstance(cls, ast.ClassDef) and cls.name == COPIES[copy][2]:
            for fn in cls.body:
                if isinstance(fn, ast.FunctionDef) and fn.name == name:
                    return fn, src
    return None, src


def _loopstep_case(case):
    _, copy, gs = case.split("/")
    G = int(gs[1:])
    func = f"{COPIES[copy][2]}._distribute_buffer_sizes"
    fn_ast, src = _function_ast(copy, "_distribute_buffer_sizes")
    out = []
    loops = [s for s in fn_ast.body if isinstance(s, ast.For)] if fn_ast else []
    if len(loops) != 1:
        return [result(f"{func}/loop-found[{case}]", func, "unknown", text="expected exactly one top-level for loop", case=case)]
    loop = loops[0]
    hdr = ast.unparse(loop.iter).replace(" ", "").replace("\n", "")
    tgt = ast.unparse(loop.target).replace(" ", "")
    hdr_ok = hdr in ("sorted(enumerate(aligned_buffer_sizes),key=operator.itemgetter(1),reverse=True)",) and tgt in ("(index,aligned_buffer_size)", "index,aligned_buffer_size")
    out.append(result(f"{func}/loop-header-is-stable-descending-enumeration[{case}]", func, "discharged" if hdr_ok else "unknown", backend="AST pattern",
                      case=case, text=f"for {tgt} in {hdr}"))
    # compile the real body statements as a function of the loop-carried state (no statement is altered)
    body_fn = ast.FunctionDef(name="__loop_body__", args=ast.arguments(posonlyargs=[], args=[ast.arg(arg=a) for a in ("allocated_buffer_sizes", "buffer_size_ranks", "index", "aligned_buffer_size")],
                                                                        kwonlyargs=[], kw_defaults=[], defaults=[]),
                              body=loop.body, decorator_list=[], lineno=1, col_offset=0)
    m = ast.Module(body=[body_fn], type_ignores=[])
    ast.fix_missing_locations(m)

    class Ranks:
        """buffer_size_ranks: symbolic-length list; only item assignment at a symbolic index is used by the body"""

        def __init__(self):
            self.writes = []

        def __setitem__(self, k, v):
            self.writes.append((k, v))

    def fn():
        hs = HeapStub()
        env = {"heapq": hs, "operator": __import__("operator")}
        exec(compile(m, f"<loop body of {func}>", "exec"), env)
        # havoc: heap = one (load, rank) entry per rank, in arbitrary heap order (the contract does not depend on it)
        loads = [SymInt(f"load{g}") for g in range(G)]
        amax = SymInt("amax")
        a = SymInt("a_k")
        idx = SymInt("index_k")
        for x in loads:
            assume(x.t >= 0)
        assume(z3.And(a.t >= 1, a.t <= amax.t))  # sorted descending: the current block is no larger than the first (largest) one
        mx, mn = loads[0].t, loads[0].t
        for g in range(1, G):
            mx = z3.If(loads[g].t > mx, loads[g].t, mx)
            mn = z3.If(loads[g].t < mn, loads[g].t, mn)
        assume(mx - mn <= amax.t)  # invariant: spread <= largest block
        heap = [(loads[g], g) for g in range(G)]
        ranks = Ranks()
        env["__loop_body__"](heap, ranks, idx, a)
        return heap, ranks, loads, a, idx, amax

    paths = Explorer().run(fn)
    mv = {f"load{g}": z3.Int(f"load{g}") for g in range(G)}
    mv.update(a_k=z3.Int("a_k"), amax=z3.Int("amax"))
    for pi, p in enumerate(paths):
        tag = f"[{case}]#p{pi}"
        if p.outcome != "return":
            out.append(result(f"{func}/loop-body/no-exception{tag}", func, "unknown" if p.outcome == "abort" else "violated", text=repr(p.value)[:200], case=case))
            continue
        heap, ranks, loads, a, idx, amax = p.value
        hyp = p.cond()
        ok = len(heap) == G and len(ranks.writes) == 1 and ranks.writes[0][0] is idx
        if not ok:
            out.append(result(f"{func}/loop-body/shape{tag}", func, "violated", text="heap size changed or block not recorded exactly once at its own index", case=case))
            continue
        size_w, r = _T(ranks.writes[0][1][0]), _T(ranks.writes[0][1][1])
        L0 = [x.t for x in loads]
        # ghost loads after the step: the chosen rank gains the block
        L1 = [z3.If(r == g, L0[g] + a.t, L0[g]) for g in range(G)]
        hv, hr = [_T(e[0]) for e in heap], [_T(e[1]) for e in heap]
        # heap holds exactly one entry per rank with the ghost load (as a multiset: every rank g appears with load L1[g])
        heap_ok = z3.And(*[z3.Or(*[z3.And(hr[j] == g, hv[j] == L1[g]) for j in range(G)]) for g in range(G)])
        lr = L0[0]
        for g in range(1, G):
            lr = z3.If(r == g, L0[g], lr)
        least = z3.And(*[lr <= L0[g] for g in range(G)])
        mx, mn = L1[0], L1[0]
        for g in range(1, G):
            mx = z3.If(L1[g] > mx, L1[g], mx)
            mn = z3.If(L1[g] < mn, L1[g], mn)
        out.append(prove(f"{func}/loop-invariant-preserved{tag}", func, hyp,
                         z3.And(r >= 0, r < G, size_w == a.t, least, heap_ok, mx - mn <= amax.t), model_vars=mv, case=case, replay=dict(kind="assign", copy=copy, n=4, G=min(G, 4)),
                         text="one iteration: the block is recorded at its own index with its aligned size and a rank in [0,G) of minimal load; heap = ghost loads; spread <= largest block stays true"))
    out.append(result(f"{func}/cover:loop-paths[{case}]", func, "violated" if paths else "discharged", kind="cover", case=case, extra=dict(paths=len(paths))))
    return out


def _structure_case(case):
    """purity: the assignment reads nothing but its argument, the group size, heapq and operator (=> identical on all ranks)"""
    copy = case.split("/")[1]
    func = f"{COPIES[copy][2]}._distribute_buffer_sizes"
    fn_ast, src = _function_ast(copy, "_distribute_buffer_sizes")
    if fn_ast is None:
        return [result(f"{func}/found[{case}]", func, "unknown", text="function not found", case=case)]
    assigned = {a.arg for a in fn_ast.args.args}
    for n in ast.walk(fn_ast):
        if isinstance(n, ast.Name) and isinstance(n.ctx, ast.Store):
            assigned.add(n.id)
    loaded = {n.id for n in ast.walk(fn_ast) if isinstance(n, ast.Name) and isinstance(n.ctx, ast.Load)}
    attrs = {ast.unparse(n) for n in ast.walk(fn_ast) if isinstance(n, ast.Attribute) and isinstance(n.value, ast.Name) and n.value.id == "self"}
    import builtins
    pure_builtins = {b for b in dir(builtins)} - {"open", "input", "id", "hash", "globals", "locals", "vars", "eval", "exec", "__import__"}
    free = loaded - assigned - pure_builtins - {"heapq", "operator", "self"}
    ok = not free and attrs <= {"self." + COPIES[copy][3]}
    return [result(f"{func}/pure-function-of-sizes-and-group-size[{case}]", func, "discharged" if ok else "violated", backend="AST free-variable scan", case=case,
                   text=f"free names {sorted(free)}, self attributes {sorted(attrs)}", replay=dict(kind="assign", copy=copy, n=3, G=2))]


# ---- buffers ---------------------------------------------------------------------------------------------


class Bytes:
    """byte range [lo, hi) of the gather buffer (int8 storage)"""

    def __init__(self, lo, hi, obl, dtype_size=1, shape=None):
        self.lo, self.hi, self.obl, self.dtype_size, self._shape = lo, hi, obl, dtype_size, shape

    def size(self, d=0):
        return self.hi - self.lo

    def split(self, k):
        # Tensor.split(int): first chunk = first min(k, len) bytes
        self.obl.append(("split-size-positive", _T(k) >= 1))
        n = self.hi - self.lo
        first = SymInt(z3.If(_T(k) <= _T(n), _T(k), _T(n)))
        return (Bytes(self.lo, self.lo + first, self.obl),)

    def view(self, arg):
        import torch
        if isinstance(arg, torch.dtype):
            sz = torch.empty((), dtype=arg).element_size()
            self.obl.append(("view(dtype)-aligned", z3.And(_T(self.lo) % sz == 0, (_T(self.hi) - _T(self.lo)) % sz == 0)))
            return Bytes(self.lo, self.hi, self.obl, dtype_size=sz)
        shape = tuple(arg)
        numel = 1
        for s in shape:
            numel = numel * s
        self.obl.append(("view(shape)-numel", _T(numel) * self.dtype_size == _T(self.hi) - _T(self.lo)))
        return Bytes(self.lo, self.hi, self.obl, self.dtype_size, shape)


class BufTorch:
    def __init__(self, obl):
        import torch
        self.obl = obl
        self.int8 = torch.int8
        self.Tensor = torch.Tensor

    def zeros(self, n, dtype=None, device=None):
        return Bytes(0, n, self.obl)

    def split(self, buf, sizes):
        if isinstance(sizes, (list, tuple)):
            tot = 0
            for s in sizes:
                tot = tot + s
            self.obl.append(("split-sizes-sum-to-length", _T(tot) == _T(buf.hi) - _T(buf.lo)))
            out, pos = [], buf.lo
            for s in sizes:
                out.append(Bytes(pos, pos + s, self.obl))
                pos = pos + s
            return tuple(out)
        # int chunk size over the whole gather buffer: G equal segments (the caller passes max_buffer_size_sum)
        k = sizes
        G = self.G
        self.obl.append(("segments-tile-the-buffer", _T(k) * G == _T(buf.hi) - _T(buf.lo)))
        return tuple(Bytes(buf.lo + g * k, buf.lo + (g + 1) * k, self.obl) for g in range(G))


class Block:
    def __init__(self, numel):
        self._numel = numel
        self.shape = (numel,)
        self.device = "cpu"

    def numel(self):
        return self._numel


def _buffers_case(case):
    import torch
    _, copy, ns, gs = case.split("/")
    n, G = int(ns[1:]), int(gs[1:])
    mod, C, attr = _cls(copy)
    func = f"{C.__name__}._construct_distributed_buffers"
    out = []
    for dt in (torch.float32, torch.bfloat16):
        es = torch.empty((), dtype=dt).element_size()

        def fn():
            numel = [SymInt(f"numel{i}") for i in range(n)]
            a = [SymInt(f"a{i}") for i in range(n)]
            r = [SymInt(f"r{i}") for i in range(n)]
            for i in range(n):
                # postcondition of _distribute_buffer_sizes (proved above) is the precondition here
                assume(z3.And(numel[i].t >= 1, a[i].t >= numel[i].t * es, a[i].t % 64 == 0, a[i].t < numel[i].t * es + 64, r[i].t >= 0, r[i].t < G))
            obl = []
            ft = BufTorch(obl)
            ft.G = G
            obj = object.__new__(C)
            setattr(obj, attr, G)
            obj._global_blocked_params = tuple(Block(x) for x in numel)
            me = SymInt("my_rank")
            assume(z3.And(me.t >= 0, me.t < G))
            sel = tuple(SymBool(r[i].t == me.t) for i in range(n))
            obj._distributor_selector = sel

            class FakeRanks(tuple):
                pass

            with rebind([(mod, "torch", ft), (mod, "compress_list", lambda xs, s: tuple(xs))]):
                obj._construct_distributed_buffers(tuple((a[i], r[i]) for i in range(n)), dt, 0)
            return obj, obl, numel, a, r

        paths = Explorer().run(fn)
        mv = {}
        for i in range(n):
            mv.update({f"numel{i}": z3.Int(f"numel{i}"), f"a{i}": z3.Int(f"a{i}"), f"r{i}": z3.Int(f"r{i}")})
        rp = dict(kind="buffers", copy=copy, n=n, G=G)
        for pi, p in enumerate(paths):
            tag = f"[{case}/{str(dt).split('.')[-1]}]#p{pi}"
            if p.outcome != "return":
                out.append(prove(f"{func}/no-exception{tag}", func, p.cond(), z3.BoolVal(False), model_vars=mv, text=f"{type(p.value).__name__}: {p.value}"[:200], case=case, replay=rp)
                           if p.outcome == "raise" else result(f"{func}/supported{tag}", func, "unknown", text=str(p.value), case=case))
                continue
            obj, obl, numel, a, r = p.value
            hyp = p.cond()
            for oi, (nm, g) in enumerate(obl):
                out.append(prove(f"{func}/torch-precondition:{nm}{tag}/o{oi}", func, hyp, g, model_vars=mv, case=case, replay=rp, text=f"{nm} holds at the call"))
            bufs = obj._global_dist_blocked_buffers
            total = obj._global_dist_buffer
            seg = _T(total.hi) / G  # segment length = max_buffer_size_sum
            goals = [z3.BoolVal(len(bufs) == n)]
            if len(bufs) == n:
                for i in range(n):
                    lo, hi = _T(bufs[i].lo), _T(bufs[i].hi)
                    before = z3.Sum(*[z3.If(r[k].t == r[i].t, a[k].t, 0) for k in range(i)]) if i else z3.IntVal(0)
                    goals += [lo == r[i].t * seg + before, hi - lo == numel[i].t * es, hi <= (r[i].t + 1) * seg, lo >= r[i].t * seg, lo % 64 == 0]
                    for k in range(i):
                        lk, hk = _T(bufs[k].lo), _T(bufs[k].hi)
                        goals.append(z3.Or(hk <= lo, hi <= lk))
            goals.append(_T(obj._local_dist_buffer.lo) == 0 * seg)
            out.append(prove(f"{func}/views-inside-owner-segment-disjoint-large-enough-aligned{tag}", func, hyp, z3.And(*goals), model_vars=mv, case=case, replay=rp,
                             text="block i's buffer starts at owner*max + sum of earlier same-owner aligned sizes, has numel*dtype_size bytes (<= its aligned size), lies inside its owner's segment, 64-byte aligned offset, overlaps no other view"))
    return out


def _alloc_case(case):
    """State placement: the device mesh a block's optimizer state is replicated on consists exactly of the ranks whose rank WITHIN
    their communication group equals the block's owner (so within a group the state lives on exactly one rank), and the 2-D mesh
    requested is the one the constructor already created.  Real `_allocate_zeros_distributed_tensor`, torch.distributed stubbed."""
    import torch
    copy = case.split("/")[1]
    mod, C, attr = _cls(copy)
    func = f"{C.__name__}._allocate_zeros_distributed_tensor"
    out = []
    configs = [([3, 11, 19, 27, 35, 43], 3), ([0, 1, 2, 3], 2), ([0, 1, 2, 3], 4), ([5, 7], 1), ([0, 4, 8, 12, 16, 20, 24, 28], 4)]
    for ranks, gsize in configs:
        for owner in range(gsize):
            obj = object.__new__(C)
            setattr(obj, attr, gsize)
            log = {}

            if copy == "ddp":
                world = len(ranks)
                obj._global_size = world

                def gdm(device_type, mesh, mesh_dim_names=None):
                    log["mesh"] = tuple(mesh)
                    return ("mesh", tuple(mesh))

                def dz(size, dtype=None, device_mesh=None, placements=None):
                    log["state_mesh"] = device_mesh
                    return "dt"

                with rebind([(mod, "get_device_mesh", gdm), (mod, "dtensor_zeros", dz)]):
                    obj._allocate_zeros_distributed_tensor((2, 2), torch.float32, torch.device("cpu"), group_source_rank=owner)
                got = set(log["state_mesh"][1])
                want = {r for r in range(world) if r % gsize == owner}
                ok = got == want
                txt = f"world {world}, group size {gsize}, owner {owner}: state mesh {sorted(got)}, ranks with that group rank {sorted(want)}"
            else:
                class Mesh:
                    @staticmethod
                    def get_group(d):
                        return "replicate-group"

                if copy == "hsdp":
                    obj._hsdp_device_mesh = Mesh()
                else:
                    obj._hybrid_shard_device_mesh = Mesh()

                class Dist:
                    @staticmethod
                    def get_process_group_ranks(g):
                        return list(ranks)

                class MR:
                    @staticmethod
                    def _get_all_submeshes(mesh2d, dim):
                        rows = mesh2d[1]
                        return [tuple(r[j] for r in rows) for j in range(len(rows[0]))] if dim == "replicate" else list(rows)

                def gdm(device_type, mesh, mesh_dim_names=None):
                    log["mesh"] = tuple(tuple(r) for r in mesh)
                    log["names"] = mesh_dim_names
                    return ("mesh", log["mesh"])

                def dz(size, dtype=None, device_mesh=None, placements=None):
                    log["state_mesh"] = device_mesh
                    return "dt"

                with rebind([(mod, "dist", Dist), (mod, "get_device_mesh", gdm), (mod, "dtensor_zeros", dz), (mod, "_mesh_resources", MR)]):
                    try:
                        obj._allocate_zeros_distributed_tensor((2, 2), torch.float32, torch.device("cpu"), group_source_rank=owner)
                    except BaseException as e:  # noqa
                        log["err"] = f"{type(e).__name__}: {e}"
                want_mesh = tuple(tuple(ranks[i:i + gsize]) for i in range(0, len(ranks), gsize))  # what the constructor created (cache hit)
                want = {row[owner] for row in want_mesh}
                got = set(log.get("state_mesh") or ())
                ok = "err" not in log and log.get("mesh") == want_mesh and got == want and log.get("names") == ("replicate", "shard")
                txt = f"replicate ranks {ranks}, comms group size {gsize}, owner {owner}: 2-D mesh {log.get('mesh')}, state mesh {sorted(got)}, expected {sorted(want)} {log.get('err', '')}"
            out.append(result(f"{func}/state-lives-exactly-on-the-ranks-with-the-owner's-group-rank[{case}/{len(ranks)}x{gsize}/o{owner}]", func,
                              "discharged" if ok else "violated", backend="concrete-execution (torch.distributed stubbed)", case=case, text=txt,
                              replay=dict(kind="alloc", copy=copy)))
    return out


def _ctor_case(case):
    """The REAL DDPDistributor.__init__ executed for every (world size 1..8, divisor group size, rank) with torch.distributed
    replaced by a stub namespace (no process group needed): all ranks compute the same assignment; rank r's distributor selector,
    local blocks, block-info list (the blocks it allocates state for) and local buffer are exactly those of the blocks whose
    owner is r's group rank; every block has exactly one owner per group."""
    import torch
    from distributed_shampoo import shampoo_types as st
    mod, C, attr = _cls("ddp")
    func = "DDPDistributor.__init__"
    out = []
    # two block-size families: (a) all blocks far below the 64-byte alignment; (b) block sizes whose aligned size in the communication dtype
    # (bf16, 2 bytes) and in the parameter dtype (f32, 4 bytes) differ — an assignment computed from anything but the communication-buffer
    # sizes then disagrees with the buffer layout
    for world, fam in [(w, f) for w in range(1, 9) for f in ("a", "b")]:
        shapes, maxdim = ([(4, 2), (2, 2), (6,), (3, 2), (5, 3)], 2) if fam == "a" else ([(4,), (17,), (4,), (4,), (33,), (3, 11), (20,)], 1024)
        for gsize in [g for g in range(1, world + 1) if world % g == 0]:
            per_rank = {}
            for rank in range(world):
                class Dist:
                    ProcessGroup = object

                    class distributed_c10d:
                        class GroupMember:
                            WORLD = "WORLD"

                    @staticmethod
                    def get_world_size():
                        return world

                    @staticmethod
                    def new_subgroups(group_size=None):
                        return ("SUBGROUP", None)

                    @staticmethod
                    def get_rank(group=None):
                        return rank % gsize if group == "SUBGROUP" else rank

                params = [torch.nn.Parameter(torch.zeros(s)) for s in shapes]
                cfg = st.DDPShampooConfig(communication_dtype=st.CommunicationDType.BF16, num_trainers_per_group=(gsize if gsize != world else -1))
                try:
                    with rebind([(mod, "dist", Dist)]):
                        D = C({st.PARAMS: params, st.MAX_PRECONDITIONER_DIM: maxdim, st.USE_MERGE_DIMS: False}, cfg)
                except BaseException as e:  # noqa
                    per_rank[rank] = f"{type(e).__name__}: {e}"
                    continue
                n = len(D._global_blocked_params)
                owners = None
                sel = tuple(D._distributor_selector)
                infos = [(bi.composable_block_ids, bi.group_source_rank) for bi in D._local_block_info_list]
                seg = D._global_dist_buffer.numel() // gsize
                es = D._global_dist_buffer.element_size()
                misaligned = [i for i, b in enumerate(D._global_dist_blocked_buffers) if (b.storage_offset() * b.element_size()) % 64 != 0] + \
                    (["segment"] if (seg * es) % 64 != 0 else [])
                per_rank[rank] = dict(n=n, sel=sel, infos=infos, nlocal=len(D._local_blocked_params), seg=seg, misaligned=misaligned,
                                      lb=(D._local_dist_buffer.storage_offset(), D._local_dist_buffer.numel()),
                                      bufown=[b.storage_offset() * b.element_size() // max(seg, 1) for b in D._global_dist_blocked_buffers])
            errs = [v for v in per_rank.values() if isinstance(v, str)]
            ok, txt = not errs, ""
            if errs:
                txt = errs[0][:200]
            else:
                own = per_rank[0]["bufown"]  # owner of block i as read off the buffer layout (C14 buffers obligation)
                n = per_rank[0]["n"]
                for rank, v in per_rank.items():
                    gr = rank % gsize
                    want_sel = tuple(o == gr for o in own)
                    if v["misaligned"]:
                        ok, txt = False, f"rank {rank}: gather-buffer slots are not 64-byte aligned in size (block views / segment starting off a 64-byte boundary: {v['misaligned'][:4]})"
                    elif v["bufown"] != own:
                        ok, txt = False, f"rank {rank} computed a different assignment than rank 0"
                    elif v["sel"] != want_sel or v["nlocal"] != sum(want_sel) or len(v["infos"]) != sum(want_sel) or any(o != gr for _, o in v["infos"]):
                        ok, txt = False, f"rank {rank}: local selection / state block-info list is not exactly the blocks owned by group rank {gr}"
                    elif v["lb"] != (gr * v["seg"], v["seg"]):
                        ok, txt = False, f"rank {rank}: local_dist_buffer is not segment {gr}"
                if ok and (set(own) - set(range(gsize)) or len(own) != n):
                    ok, txt = False, "owner outside the group"
            out.append(result(f"{func}/selection-and-state-exactly-for-owned-blocks;all-ranks-agree[{case}/world{world}-group{gsize}-sizes-{fam}]", func,
                              "discharged" if ok else "violated", backend="concrete-execution of the real constructor (torch.distributed stubbed), all ranks", case=case,
                              text=txt or f"world {world}, group size {gsize}: every rank agrees on the owners; rank r selects / allocates state for exactly the blocks owned by r mod {gsize}",
                              replay=dict(kind="ctor")))
    return out


def run_case(case, tier, seed):
    if case.startswith("commdtype/"):
        from checks import dist as _D
        return _D.run_comm_dtype(case)
    if case.startswith("ctor/"):
        return _ctor_case(case)
    if case.startswith("alloc/"):
        return _alloc_case(case)
    if case.startswith("assign/"):
        return _assign_case(case)
    if case.startswith("loopstep/"):
        return _loopstep_case(case)
    if case.startswith("structure/"):
        return _structure_case(case)
    return _buffers_case(case)


# ---- native tier -----------------------------------------------------------------------------------------


def _native_assign(copy, sizes, G):
    mod, C, attr = _cls(copy)
    obj = object.__new__(C)
    setattr(obj, attr, G)
    return obj._distribute_buffer_sizes(tuple(sizes))


def _opt_makespan(a, G):
    best = [10 ** 18]
    loads = [0] * G

    def rec(i):
        if i == len(a):
            best[0] = min(best[0], max(loads))
            return
        seen = set()
        for g in range(G):
            if loads[g] in seen:
                continue
            seen.add(loads[g])
            if loads[g] + a[i] >= best[0]:
                continue
            loads[g] += a[i]
            rec(i + 1)
            loads[g] -= a[i]

    rec(0)
    return best[0]


def native_assign_check(copy, sizes, G, check_opt=True):
    res = _native_assign(copy, sizes, G)
    if len(res) != len(sizes):
        return "result length differs"
    a = [x[0] for x in res]
    r = [x[1] for x in res]
    for b, ai, ri in zip(sizes, a, r):
        if not (ai >= b and ai % 64 == 0 and ai < b + 64):
            return f"aligned size {ai} of a {b}-byte block is not the next multiple of 64"
        if not (0 <= ri < G):
            return f"rank {ri} outside [0,{G})"
    if _native_assign(copy, list(sizes), G) != res:
        return "assignment is not deterministic"
    loads = [sum(ai for ai, ri in zip(a, r) if ri == g) for g in range(G)]
    if a and max(loads) - min(loads) > max(a):
        return f"load spread {max(loads) - min(loads)} exceeds the largest block {max(a)} (loads {loads})"
    # is an LPT schedule
    order = sorted(range(len(a)), key=lambda i: a[i], reverse=True)
    cur = [0] * G
    for i in order:
        if cur[r[i]] != min(cur):
            return "a block was not placed on a least-loaded rank in largest-first order"
        cur[r[i]] += a[i]
    if check_opt and a and len(a) <= 8:
        opt = _opt_makespan(sorted(a, reverse=True), G)
        if 3 * max(loads) > 4 * opt:
            return f"makespan {max(loads)} exceeds 4/3 of the optimum {opt}"
    return None


def native_buffers_check(copy, numels, G, dt_name, seed=0):
    """real `_distribute_buffer_sizes` + `_construct_distributed_buffers` on real tensors (no process group needed)"""
    import torch
    from distributed_shampoo.utils.shampoo_utils import get_dtype_size
    mod, C, attr = _cls(copy)
    dt = dict(f32=torch.float32, bf16=torch.bfloat16, f16=torch.float16)[dt_name]
    obj = object.__new__(C)
    setattr(obj, attr, G)
    obj._global_blocked_params = tuple(torch.zeros(n) for n in numels)
    bsr = obj._distribute_buffer_sizes(tuple(n * get_dtype_size(dt) for n in numels))
    for me in range(G):
        obj._distributor_selector = tuple(r == me for _, r in bsr)
        obj._construct_distributed_buffers(bsr, dt, me)
        base = obj._global_dist_buffer
        seg = base.numel() // G
        spans = []
        for (a, r), buf, n in zip(bsr, obj._global_dist_blocked_buffers, numels):
            if buf.untyped_storage().data_ptr() != base.untyped_storage().data_ptr():
                return "a block buffer is not a view of the gather buffer"
            lo = buf.storage_offset() * buf.element_size()
            hi = lo + buf.numel() * buf.element_size()
            if buf.dtype != dt or buf.numel() != n:
                return "block buffer has the wrong dtype or size"
            if not (r * seg <= lo and hi <= (r + 1) * seg):
                return f"buffer of a block owned by rank {r} lies outside that rank's segment"
            if hi - lo > a or lo % 64:
                return "buffer larger than its aligned size or misaligned"
            spans.append((lo, hi))
        spans.sort()
        if any(x[1] > y[0] for x, y in zip(spans, spans[1:])):
            return "two block buffers overlap"
        lb = obj._local_dist_buffer
        if lb.storage_offset() != me * seg or lb.numel() != seg:
            return "local_dist_buffer is not this rank's segment"
    return None


def native_state_placement(world, group):
    """real DDP optimizer on simulated ranks: every block's optimizer state lives on exactly one rank of each group"""
    import torch
    from checks import dist as D
    from distributed_shampoo import shampoo_types as st

    def fn(rank):
        from distributed_shampoo.distributed_shampoo import DistributedShampoo
        params = [torch.nn.Parameter(torch.zeros(4, 2)), torch.nn.Parameter(torch.zeros(2, 2)), torch.nn.Parameter(torch.zeros(6)), torch.nn.Parameter(torch.zeros(3, 2))]
        opt = DistributedShampoo(params, lr=0.1, betas=(0.9, 0.99), epsilon=1e-6, momentum=0.5, max_preconditioner_dim=2, use_merge_dims=False,
                                 grafting_config=st.AdaGradGraftingConfig(epsilon=1e-8),
                                 distributed_config=st.DDPShampooConfig(num_trainers_per_group=group))
        Dd = opt._per_group_state_lists[0][st.DISTRIBUTOR]
        keys = set()
        for j, p in enumerate(params):
            for bk, bs in opt.state[p].items():
                if isinstance(bs, dict) and bk.startswith("block_"):
                    keys.add((j, bk))
        owned = {(bi.composable_block_ids[0], bi.composable_block_ids[1]) for bi in Dd.local_block_info_list}
        total = len(Dd._global_blocked_params)
        return keys, owned, total, rank % (group if group != -1 else world)

    res = D.threaded(world, fn, timeout=120)
    gsize = group if group != -1 else world
    for g0 in range(0, world, gsize):
        ranks = list(range(g0, g0 + gsize))
        allk = [res[r][0] for r in ranks]
        union = set().union(*allk)
        if sum(len(k) for k in allk) != len(union):
            return f"group {ranks}: some block's state is allocated on more than one rank"
        if len(union) != res[ranks[0]][2]:
            return f"group {ranks}: {res[ranks[0]][2]} blocks but state for {len(union)}"
        for r in ranks:
            if res[r][0] != res[r][1]:
                return f"rank {r}: state keys {sorted(res[r][0])} differ from the blocks it owns {sorted(res[r][1])}"
    return None


def bounded(tier, seed):
    import random
    rng = random.Random(seed)
    evals, viol, distinct = 0, [], set()
    for world, group in ((2, -1), (4, 2), (3, -1)) if tier != "quick" else ((2, -1), (4, 2)):
        try:
            bad = native_state_placement(world, group)
        except TimeoutError:
            # the simulated ranks did not finish even after repeated attempts: says nothing about WHERE state is placed (process-group
            # creation hanging is known finding F6 of C06) — this sample is inconclusive and not counted
            continue
        except BaseException as e:  # noqa
            bad = f"{type(e).__name__}: {str(e)[:300]}"
        evals += 1
        distinct.add(("placement", world, group))
        if bad:
            viol.append(dict(ob=f"bounded/state-placement[world={world},group={group}]", func="DDPDistributor.__init__", input=dict(world=world, group=group), text=bad, detail=bad,
                             replay=dict(kind="placement", world=world, group=group)))
    pool = [1, 20, 63, 64, 65, 128, 500, 4096]
    nmax = 5 if tier == "quick" else 7
    for copy in COPIES:
        for G in (1, 2, 3, 4, 16):
            combos = []
            for n in range(1, nmax + 1):
                allc = list(itertools.product(pool, repeat=n)) if len(pool) ** n <= 600 else [tuple(rng.choice(pool) for _ in range(n)) for _ in range(150 if tier == "quick" else 1500)]
                combos += allc
            for sizes in combos:
                bad = native_assign_check(copy, sizes, G, check_opt=(G <= 4))
                evals += 1
                distinct.add((sizes, G))
                if bad and len(viol) < 5:
                    viol.append(dict(ob=f"bounded/assign[{copy},{sizes},G={G}]", func=f"{COPIES[copy][2]}._distribute_buffer_sizes", input=dict(sizes=sizes, G=G),
                                     text=bad, detail=bad, replay=dict(kind="native_assign", copy=copy, sizes=list(sizes), G=G)))
        for k in range(30 if tier == "quick" else 300):
            G = rng.choice([1, 2, 3, 4])
            numels = [rng.choice([1, 3, 16, 17, 100, 1000]) for _ in range(rng.randint(G, 6))]
            dtn = rng.choice(["f32", "bf16", "f16"])
            bad = native_buffers_check(copy, numels, G, dtn)
            evals += 1
            distinct.add((tuple(numels), G, dtn))
            if bad and len(viol) < 5:
                viol.append(dict(ob=f"bounded/buffers[{copy},{numels},G={G},{dtn}]", func=f"{COPIES[copy][2]}._construct_distributed_buffers",
                                 input=dict(numels=numels, G=G, dtype=dtn), text=bad, detail=bad, replay=dict(kind="native_buffers", copy=copy, numels=numels, G=G, dt=dtn)))
    return dict(evaluations=evals, distinct_nontrivial=len(distinct),
                rule="real assignment on byte-size tuples from a pool with ties and misaligned sizes (exhaustive for small n, random above), G in {1,2,3,4,16}: alignment, range, determinism, LPT, spread, 4/3 of the brute-force optimum; real buffer construction on real tensors: storage, segment containment, disjointness, alignment; distinct = distinct inputs",
                samples=[dict(sizes=(128, 20, 20, 20, 20), G=2)], bound=f"n <= {nmax}, sizes from {pool}", violations=viol)


def replay(r):
    return replay_file(dict(replay_input=r.get("replay"), verifier_output=dict(model=r.get("model"))))


def replay_file(doc):
    rp = doc.get("replay_input") or {}
    m = (doc.get("verifier_output") or {}).get("model") or {}
    if rp.get("kind") == "commdtype":
        from checks import dist as _D
        bad = _D.native_comm_dtype(rp["copy"])
        return bool(bad), bad or "communication dtype mapping holds on the real constructor"
    if rp.get("kind") == "native_assign":
        bad = native_assign_check(rp["copy"], tuple(rp["sizes"]), rp["G"])
        return bool(bad), f"sizes {rp['sizes']} G={rp['G']}: {bad}"
    if rp.get("kind") == "ctor":
        res = _ctor_case("ctor/ddp")
        badr = [x for x in res if x["status"] != "discharged"]
        return bool(badr), badr[0]["text"] if badr else "constructor selections agree with ownership on all ranks"
    if rp.get("kind") == "alloc":
        res = _alloc_case(f"alloc/{rp['copy']}")
        badr = [x for x in res if x["status"] != "discharged"]
        return bool(badr), badr[0]["text"] if badr else "state meshes are as specified"
    if rp.get("kind") == "placement":
        bad = native_state_placement(rp["world"], rp["group"])
        return bool(bad), f"{rp}: {bad}"
    if rp.get("kind") == "native_buffers":
        bad = native_buffers_check(rp["copy"], rp["numels"], rp["G"], rp["dt"])
        return bool(bad), f"{rp}: {bad}"
    if rp.get("kind") == "assign":
        tries = []
        if m and all(f"b{i}" in m for i in range(rp["n"])):
            tries.append(tuple(int(m[f"b{i}"]) for i in range(rp["n"])))
        pool = [1, 20, 63, 64, 65, 128, 500]
        for n in range(1, 5):
            tries += list(itertools.product(pool, repeat=n))[:400]
        for sizes in tries:
            for G in sorted({rp["G"], 2, 3}):
                bad = native_assign_check(rp["copy"], sizes, G)
                if bad:
                    return True, f"sizes {sizes} G={G}: {bad}"
        return False, "native assignment checks pass on the model and on small size tuples"
    if rp.get("kind") == "buffers":
        import random
        rng = random.Random(1)
        for k in range(200):
            G = rng.choice([1, 2, 3])
            numels = [rng.choice([1, 3, 16, 17, 100, 1000]) for _ in range(rng.randint(G, 5))]
            for dtn in ("f32", "bf16"):
                bad = native_buffers_check(rp["copy"], numels, G, dtn)
                if bad:
                    return True, f"numels {numels} G={G} {dtn}: {bad}"
        return False, "native buffer checks pass"
    return False, "no native replayer"
