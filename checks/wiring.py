"""C01 wiring obligations on the real constructor helpers: `_instantiate_shampoo_preconditioner_list`,
`_instantiate_steps`, `_instantiate_momentum`, `_instantiate_filtered_grads` executed on symbolic group
hyperparameters with a stub distributor; plus the inheritance of the optimizer-level resolved beta3 / start step by a
param group that leaves them unset (real constructor, real torch.optim.Optimizer.__init__)."""
from __future__ import annotations

import z3

from vlib.driver import prove, result
from vlib.sym import Explorer, SymBool, SymInt, SymReal, assume
from vlib.tensor import FakeTorch, SymTensor, rebind


def run(case, tier):
    import torch
    import distributed_shampoo.distributed_shampoo as ds
    import distributed_shampoo.utils.shampoo_preconditioner_list as pl
    from distributed_shampoo import shampoo_types as st
    from distributed_shampoo.utils.shampoo_block_info import BlockInfo
    out = []
    func = "DistributedShampoo._instantiate_*"

    def fn():
        allocs = []

        def alloc(size, dtype, device):
            t = SymTensor(z3.K(z3.IntSort(), z3.RealVal(0)), dtype=dtype, shape=tuple(size))
            allocs.append(t)
            return t

        blks = [SymTensor.array(f"blk{b}", dtype=torch.bfloat16, shape=[SymInt(f"n{b}_0"), SymInt(f"n{b}_1")]) for b in range(2)]
        infos = tuple(BlockInfo(param=blks[b], composable_block_ids=(b, f"block_{b}"), allocate_zeros_tensor=alloc, get_tensor=lambda t: t) for b in range(2))

        class D:
            local_blocked_params = tuple(blks)
            local_block_info_list = infos

        mu, b1 = SymReal("momentum"), SymReal("beta1")
        group = {st.MOMENTUM: mu, st.BETAS: (b1, SymReal("beta2")), st.EPSILON: SymReal("epsilon"), st.INV_ROOT_OVERRIDE: 0, st.USE_BIAS_CORRECTION: SymBool(z3.Bool("bias")),
                 st.PRECONDITIONER_DTYPE: torch.float32, st.PRECONDITIONER_CONFIG: st.ShampooPreconditionerConfig(), st.PARAMS: blks}
        assume(z3.And(z3.Real("beta2") > 0, z3.Real("beta2") <= 1, z3.Real("epsilon") > 0))
        opt = object.__new__(ds.DistributedShampoo)
        opt.state = {blks[0]: {}, blks[1]: {}}
        sl = {st.DISTRIBUTOR: D()}
        opt._per_group_state_lists = [sl]
        opt.param_groups = [group]
        ft = FakeTorch()
        with rebind([(ds, "torch", ft), (pl, "torch", ft)]):
            opt._instantiate_shampoo_preconditioner_list()
            n_shampoo = len(allocs)
            opt._instantiate_steps()
            opt._instantiate_momentum()
            n_mom = len(allocs)
            opt._instantiate_filtered_grads()
        return opt, sl, group, allocs, n_shampoo, n_mom, blks

    paths = Explorer().run(fn)
    for pi, p in enumerate(paths):
        tag = f"[{case}]#p{pi}"
        if p.outcome != "return":
            out.append(result(f"{func}/no-exception{tag}", func, "unknown" if p.outcome == "abort" else "violated", text=repr(p.value)[:300], case=case))
            continue
        opt, sl, group, allocs, n_sh, n_mom, blks = p.value
        hyp = p.cond()
        mu, b1 = z3.Real("momentum"), z3.Real("beta1")
        lst = sl[st.SHAMPOO_PRECONDITIONER_LIST]
        ok = (lst._beta2 is group[st.BETAS][1] and lst._epsilon is group[st.EPSILON] and lst._use_bias_correction is group[st.USE_BIAS_CORRECTION]
              and lst._factor_matrix_dtype is group[st.PRECONDITIONER_DTYPE] and lst._preconditioner_config is group[st.PRECONDITIONER_CONFIG] and lst._inv_root_override == 0)
        out.append(result(f"DistributedShampoo._instantiate_shampoo_preconditioner_list/constructor-arguments-are-the-group's{tag}", "DistributedShampoo._instantiate_shampoo_preconditioner_list",
                          "discharged" if ok else "violated", backend="identity-check", case=case,
                          text="beta2 = betas[1], epsilon, inv_root_override, bias-correction flag, preconditioner dtype and config are the group's own entries"))
        step_t = sl.get(st.STEP)
        ok = isinstance(step_t, SymTensor) and step_t.scalar and opt.state[blks[0]].get(st.STEP) is step_t
        goal = (step_t.v == 0) if ok else z3.BoolVal(False)
        out.append(prove(f"DistributedShampoo._instantiate_steps/zero-counter-stored-under-first-parameter{tag}", "DistributedShampoo._instantiate_steps", hyp, goal, case=case,
                         text="one int64 step counter per group, initialised to 0, stored under the group's first parameter for checkpointing"))
        has_m, has_f = st.MOMENTUM_LIST in sl, st.FILTERED_GRAD_LIST in sl
        g1 = z3.And(z3.BoolVal(has_m) == (mu != 0), z3.BoolVal(has_f) == (b1 != 0))
        out.append(prove(f"{func}/momentum-and-filtered-gradient-buffers-exist-iff-nonzero{tag}", func, hyp, g1, model_vars=dict(momentum=mu, beta1=b1), case=case,
                         text="momentum buffers exist iff momentum != 0; filtered-gradient buffers exist iff beta1 != 0"))
        goals, ok2 = [], True
        for key, lkey, mkey, rng in ((st.MOMENTUM, st.MOMENTUM_LIST, st.MASKED_MOMENTUM_LIST, allocs[n_sh:n_mom]), (st.FILTERED_GRAD, st.FILTERED_GRAD_LIST, st.MASKED_FILTERED_GRAD_LIST, allocs[n_mom:])):
            if lkey not in sl:
                ok2 = ok2 and len(rng) == 0
                continue
            L = sl[lkey]
            ok2 = ok2 and len(L) == 2 and len(rng) == 2 and sl[mkey] is L
            for b in range(2):
                t = L[b]
                ok2 = ok2 and t is rng[b] and t.dtype == torch.bfloat16 and opt.state[blks[b]][f"block_{b}"].get(key) is t and len(t.size()) == 2
                if len(t.size()) == 2:
                    goals += [t.at(z3.Int("idx")) == 0, t.size()[0].t == z3.Int(f"n{b}_0"), t.size()[1].t == z3.Int(f"n{b}_1")]
        out.append(prove(f"{func}/fresh-zero-buffers-of-block-shape-and-dtype-under-state[param][block]{tag}", func, hyp, z3.And(z3.BoolVal(bool(ok2)), *goals), case=case,
                         text="each buffer is a fresh zero tensor of its block's shape and dtype, stored under state[param][block_id][key]; the masked list initially is the local list"))
    return out


def run_defaults(case, tier):
    """a group that leaves beta3 / start_preconditioning_step unset inherits the optimizer-level RESOLVED values (real constructor)"""
    import torch
    from distributed_shampoo.distributed_shampoo import DistributedShampoo
    out = []
    func = "DistributedShampoo.__init__"
    for b3, start, freq in ((-1.0, -1, 3), (0.5, 7, 3), (-1.0, 5, 5), (0.25, -1, 1)):
        p1, p2 = torch.nn.Parameter(torch.zeros(2)), torch.nn.Parameter(torch.zeros(2))
        opt = DistributedShampoo([dict(params=[p1]), dict(params=[p2], lr=0.5, momentum=0.25)], lr=0.1, betas=(0.9, 0.99), beta3=b3, precondition_frequency=freq,
                                 start_preconditioning_step=start, epsilon=1e-6)
        want_b3 = 0.9 if b3 == -1.0 else b3
        want_start = freq if start == -1 else start
        ok = all(g["beta3"] == want_b3 and g["start_preconditioning_step"] == want_start for g in opt.param_groups)
        ok = ok and opt.param_groups[1]["lr"] == 0.5 and opt.param_groups[1]["momentum"] == 0.25 and opt.param_groups[0]["lr"] == 0.1 and opt.param_groups[0]["momentum"] == 0.0
        out.append(result(f"{func}/groups-inherit-resolved-beta3-and-start[{case}/b3={b3},start={start},freq={freq}]", func, "discharged" if ok else "violated",
                          backend="concrete-execution (real torch.optim.Optimizer.__init__)", case=case,
                          text=f"every group: beta3 = {want_b3}, start = {want_start}; group-level lr/momentum overrides kept"))
    return out


def run_steps_two_groups(case, tier=None):
    """The real `_instantiate_steps` on TWO parameter groups: every group gets its OWN zero step counter (distinct tensor objects), stored
    under that group's first parameter — a shared counter would make a group without gradients advance with the others."""
    import distributed_shampoo.distributed_shampoo as ds
    from distributed_shampoo import shampoo_types as st
    func = "DistributedShampoo._instantiate_steps"
    out = []
    ft = FakeTorch()
    opt = object.__new__(ds.DistributedShampoo)
    firsts = [object(), object()]

    class Info:
        def __init__(self, p):
            self.param = p

    class D:
        def __init__(self, p):
            self.local_block_info_list = (Info(p),)

    opt.state = {firsts[0]: {}, firsts[1]: {}}
    sls = [{st.DISTRIBUTOR: D(firsts[0])}, {st.DISTRIBUTOR: D(firsts[1])}]
    opt._per_group_state_lists = sls
    opt.param_groups = [{st.PARAMS: [firsts[0]]}, {st.PARAMS: [firsts[1]]}]
    try:
        with rebind([(ds, "torch", ft)]):
            opt._instantiate_steps()
    except BaseException as e:  # noqa
        return [result(f"{func}/two-groups-supported[{case}]", func, "unknown", text=f"{type(e).__name__}: {e}"[:300], case=case)]
    s0, s1 = sls[0].get(st.STEP), sls[1].get(st.STEP)
    ok = isinstance(s0, SymTensor) and isinstance(s1, SymTensor) and s0 is not s1 and s0.cell is not s1.cell
    stored = ok and opt.state[firsts[0]].get(st.STEP) is s0 and opt.state[firsts[1]].get(st.STEP) is s1
    zero = ok and z3.is_true(z3.simplify(z3.And(s0.v == 0, s1.v == 0)))
    out.append(result(f"{func}/one-step-counter-PER-GROUP-no-sharing[{case}]", func, "discharged" if (ok and stored and zero) else "violated", backend="heap-identity", case=case,
                      replay=dict(kind="two_group_steps"),
                      text="the step counters of two parameter groups are distinct zero tensors (no aliasing), each stored under its own group's first parameter",
                      model=dict(distinct=bool(ok), stored_under_own_first_parameter=bool(stored), zero=bool(zero))))
    return out


def native_two_group_steps():
    """Two parameter groups, the second without any gradient on some steps: its step counter must not advance."""
    import torch
    from distributed_shampoo.distributed_shampoo import DistributedShampoo
    from distributed_shampoo import shampoo_types as st
    torch.manual_seed(0)
    a, b = torch.nn.Parameter(torch.randn(3, 2)), torch.nn.Parameter(torch.randn(4))
    opt = DistributedShampoo([dict(params=[a]), dict(params=[b])], lr=0.01, precondition_frequency=1, start_preconditioning_step=1)
    want = [0, 0]
    for pres in ((True, True), (True, False), (False, True), (True, False), (False, False), (True, True)):
        a.grad = torch.randn_like(a) if pres[0] else None
        b.grad = torch.randn_like(b) if pres[1] else None
        opt.step()
        want = [want[0] + int(pres[0]), want[1] + int(pres[1])]
        got = [int(sl[st.STEP]) for sl in opt._per_group_state_lists]
        if got != want:
            return f"after presence history ending in {pres}: per-group step counters {got}, expected {want} (a group without gradients must not advance)"
    return None
