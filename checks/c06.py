"""C06 — DDP Shampoo equals serial Shampoo and keeps replicas identical.

Deductive (E2): the real `DDPDistributor.update_params` under the all-gather contract (rely/guarantee over the group), for
both modes, three communication dtypes, all gradient-presence patterns of three blocks, executing rank = owner and non-owner:
every rank applies every owner's (rounded) quantity exactly once — the same term on all ranks.  Since the owner's direction is
by C01 the serial direction of that block, the result does not depend on the assignment.  Representation invariant of the DDP
masked lists over all mask transitions on the REAL distributor objects of two simulated ranks.  Collective-trace obligation
(2-safety): the real `step()` and the per-owner state allocation issue rank-dependent collective sequences — two known
findings (F5, F6) with characteristic conditions; any OTHER divergence is a violation.
"""
from __future__ import annotations

import itertools
import z3

from vlib.driver import result
from checks import dist as D

PROP = "C06"
LEVEL = "proof"
FUNCS = [
    ("distributed_shampoo/utils/shampoo_ddp_distributor.py", "DDPDistributor.update_params"),
    ("distributed_shampoo/utils/shampoo_ddp_distributor.py", "DDPDistributor.all_gather_into_tensor"),
    ("distributed_shampoo/utils/shampoo_ddp_distributor.py", "DDPDistributor.merge_and_block_gradients"),
    ("distributed_shampoo/utils/shampoo_ddp_distributor.py", "DDPDistributor.__init__"),
    ("distributed_shampoo/utils/shampoo_ddp_distributor.py", "DDPDistributor._allocate_zeros_distributed_tensor"),
    ("distributed_shampoo/distributed_shampoo.py", "DistributedShampoo.step"),
]
TRUSTED = [
    "ASSUMED contract of dist.all_gather_into_tensor(out, inp, group): every rank of the group calls it at the same position of its collective trace with equally sized inputs; afterwards segment r of out equals rank r's input. new_group / new_subgroups / DeviceMesh creation are collective over the default group (torch documentation)",
    "per-block buffer views modelled as independent cells (sound by C14: views are disjoint and inside the owner's segment)",
    "the owner's search direction is the serial direction of that block (C01 + non-interference); replicas start identical",
    "timing / hangs are reduced to equality of collective traces (collectives with equal traces complete: assumed)",
    "RI transitions and the end-to-end comparison with the serial optimizer run on simulated ranks (threads, in-process process group) — bounded: world sizes 1..4",
]
ASSUMPTIONS = ["at least one block per rank (the constructor asserts it)"]
EXPLANATION = "update data flow proved for all values under the all-gather contract; DDP masked-list invariant over all mask transitions; collective traces compared rank against rank (known findings F5/F6)"


def cases(tier):
    # ctor/ddp: the C14 constructor contract (owner used for selection / state == owner whose gather-buffer segment holds the block, all ranks
    # agree), re-discharged here because "every rank applies every owner's direction exactly once" rests on it
    return D.update_params_cases("ddp") + ["trace/step", "trace/alloc", "ri/world2", "ri/world3", "ribare/ddp", "ctor/ddp", "commdtype/ddp"]


def _ri_case(case):
    """RI of the DDP-specific masked lists on the real DDPDistributor of every simulated rank, all (previous, new) patterns."""
    import torch
    world = int(case[-1])
    from distributed_shampoo import shampoo_types as st
    func = "DDPDistributor.merge_and_block_gradients"
    pats = list(itertools.product((False, True), repeat=3))

    def fn(rank):
        from distributed_shampoo.utils.shampoo_ddp_distributor import DDPDistributor
        bad = []
        for prev in [None] + pats:
            for new in pats:
                params = [torch.nn.Parameter(torch.zeros(4, 2)), torch.nn.Parameter(torch.zeros(2, 2)), torch.nn.Parameter(torch.zeros(6))]
                Dd = DDPDistributor({st.PARAMS: params, st.MAX_PRECONDITIONER_DIM: 2, st.USE_MERGE_DIMS: False},
                                    st.DDPShampooConfig(communication_dtype=st.CommunicationDType.BF16, num_trainers_per_group=-1))
                for pat in ([prev] if prev is not None else []) + [new]:
                    for p, pr in zip(params, pat):
                        p.grad = torch.ones(p.shape) if pr else None
                    grads = Dd.merge_and_block_gradients()
                nb = Dd._global_num_blocks_per_param
                gsel = tuple(new[j] for j in range(3) for _ in range(nb[j]))
                cmp_ = lambda xs, s: tuple(itertools.compress(xs, s))
                same = lambda a, b: len(a) == len(b) and all(x is y for x, y in zip(a, b))
                errs = []
                if tuple(Dd._global_grad_selector) != gsel:
                    errs.append("global_grad_selector is not the per-block gradient presence")
                if tuple(Dd._local_grad_selector) != cmp_(gsel, Dd._distributor_selector):
                    errs.append("local_grad_selector != compress(global, distributor_selector)")
                if not same(Dd._local_masked_blocked_params, cmp_(Dd._local_blocked_params, Dd._local_grad_selector)):
                    errs.append("local_masked_blocked_params stale")
                if not same(Dd._global_masked_blocked_params, cmp_(Dd._global_blocked_params, gsel)):
                    errs.append("global_masked_blocked_params != compress(global_blocked_params, global_grad_selector)")
                if not same(Dd._global_masked_dist_blocked_buffers, cmp_(Dd._global_dist_blocked_buffers, gsel)):
                    errs.append("global_masked_dist_blocked_buffers stale")
                if not same(Dd._local_masked_dist_blocked_buffers, cmp_(Dd._local_dist_blocked_buffers, Dd._local_grad_selector)):
                    errs.append("local_masked_dist_blocked_buffers stale")
                if len(grads) != len(Dd._local_masked_blocked_params):
                    errs.append("returned gradient blocks not aligned with local masked params")
                if errs:
                    bad.append((prev, new, errs))
        return bad

    try:
        res = D.threaded(world, fn, timeout=300)
    except BaseException as e:  # noqa
        return [result(f"{func}/RI-harness[{case}]", func, "unknown", text=f"{type(e).__name__}: {e}"[:300], case=case)]
    out = []
    for rank, bad in sorted(res.items()):
        out.append(result(f"{func}/RI-of-DDP-masked-lists-preserved[{case}/rank{rank}]", func, "discharged" if not bad else "violated",
                          backend="concrete-execution (complete transition enumeration, simulated ranks)", case=case,
                          text="global/local masked params and buffers = compress(.., current selectors) after every (previous, new) presence pattern"
                               + (f"; VIOLATED e.g. {bad[0]}" if bad else ""), replay=dict(kind="ddp_native", cls="ddp"), model=dict(first_bad=str(bad[:1]))))
    return out


def run_case(case, tier, seed):
    if case.startswith("commdtype/"):
        from checks import dist as _D
        return _D.run_comm_dtype(case)
    if case == "ctor/ddp":
        from checks import c14
        return [dict(r, replay=dict(kind="ddp_native")) for r in c14._ctor_case(case)]
    if case.startswith("update/"):
        return D.run_update_params(case)
    if case == "trace/step":
        return D.run_trace_step(case)
    if case == "trace/alloc":
        return D.run_trace_alloc(case)
    if case.startswith("ribare/"):
        return D.run_ri_bare(case, "ddp")
    return _ri_case(case)


# ---- native: real DDP optimizer on simulated ranks vs the serial optimizer ----------------------------------


def bounded(tier, seed):
    combos = [(1, -1), (2, -1), (2, 1), (3, -1), (4, 2), (4, -1)] if tier != "quick" else [(1, -1), (2, -1), (2, 1), (4, 2)]
    evals, viol, distinct, samples = 0, [], set(), []
    for (world, group), comm, cp in itertools.product(combos, ("f32", "bf16", "f16") if tier != "quick" else ("f32", "bf16"), (False, True)):
        for k in range(2 if tier == "quick" else 4):
            # every block present at every step avoids the starvation pattern of known finding F5 (a hang under the simulator)
            bad, hist = native_ddp_safe(world, group, comm, cp, seed * 10 + k)
            evals += 1
            distinct.add((world, group, comm, cp, k))
            if len(samples) < 2:
                samples.append(dict(world=world, group=group, comm=comm, communicate_params=cp))
            if bad and len(viol) < 5:
                viol.append(dict(ob=f"bounded/ddp-vs-serial[world={world},group={group},{comm},params={cp},seed={seed * 10 + k}]", func="DDPDistributor", input=dict(world=world, group=group, comm=comm, communicate_params=cp, history=hist),
                                 text=str(bad), detail=str(bad), replay=dict(kind="ddp_native_case", world=world, group=group, comm=comm, cp=cp, seed=seed * 10 + k),
                                 known="F5" if bad == "HANG" else None))
    return dict(evaluations=evals, distinct_nontrivial=len(distinct),
                rule="real DDP optimizer on simulated ranks (threads) vs the serial optimizer, 4 steps with absent gradients that never starve a rank; replicas bitwise equal, FP32 communication equal to serial, reduced precision within rounding; distinct = distinct (world, group size, comm dtype, mode, seed)",
                samples=samples, bound="world sizes 1..4, group sizes dividing them", violations=viol)


def native_ddp_safe(world, group, comm, cp, seed):
    """like native_ddp but with gradient-presence histories in which every parameter that owns... simply: parameter 0 may be
    absent only when all are absent is too weak; we keep all parameters present except whole-step absences, which never starve a rank."""
    import random
    global _HIST_MODE
    return _native_ddp_hist(world, group, comm, cp, seed, mode="safe")


def _native_ddp_hist(world, group, comm, cp, seed, mode):
    import random
    import torch
    from distributed_shampoo import shampoo_types as st
    rng = random.Random(f"{world}/{group}/{comm}/{cp}/{seed}")
    # odd seeds: block sizes whose 64-byte-aligned size differs between the communication dtype and the parameter dtype (numel 17, 33, 20)
    shapes, maxdim = ([(4, 2), (2, 2), (6,), (2, 2), (3, 2)], 2) if seed % 2 == 0 else ([(4,), (17,), (4,), (4,), (33,), (20,)], 64)
    steps = 4
    if mode == "safe":
        hist = [[True] * len(shapes) if rng.random() < 0.8 else [False] * len(shapes) for _ in range(steps)]
        hist[0] = [True] * len(shapes)
    else:
        hist = [[rng.random() < 0.7 for _ in shapes] for _ in range(steps)]
    cdt = dict(f32=st.CommunicationDType.FP32, bf16=st.CommunicationDType.BF16, f16=st.CommunicationDType.FP16)[comm]

    def run(rank, dcfg):
        from distributed_shampoo.distributed_shampoo import DistributedShampoo
        gp = torch.Generator().manual_seed(seed)  # NOTE: the global RNG is shared by the simulated ranks (threads): use private generators
        params = [torch.nn.Parameter(torch.randn(s, generator=gp)) for s in shapes]
        opt = DistributedShampoo(params, lr=0.05, betas=(0.9, 0.99), epsilon=1e-6, momentum=0.5, max_preconditioner_dim=maxdim, precondition_frequency=2,
                                 preconditioner_dtype=(torch.float64 if seed % 2 else torch.float32),  # odd seeds: state dtype != parameter dtype
                                 start_preconditioning_step=2, use_merge_dims=False, grafting_config=st.AdaGradGraftingConfig(epsilon=1e-8), distributed_config=dcfg)
        g = torch.Generator().manual_seed(seed + 1)
        traj = []
        for t in range(steps):
            grads = [torch.randn(s, generator=g) for s in shapes]
            for p, gr, pr in zip(params, grads, hist[t]):
                p.grad = gr.clone() if pr else None
            opt.step()
            traj.append([p.detach().clone() for p in params])
        return traj

    serial = run(0, None)
    dcfg = st.DDPShampooConfig(communication_dtype=cdt, num_trainers_per_group=group, communicate_params=cp)
    try:
        res = D.threaded(world, lambda r: run(r, dcfg), timeout=90)
    except TimeoutError:
        return "HANG", hist
    except BaseException as e:  # noqa
        return f"raised {type(e).__name__}: {str(e)[:300]}", hist
    for t in range(steps):
        for r in range(1, world):
            for a, b in zip(res[0][t], res[r][t]):
                if not torch.equal(a, b):
                    return f"step {t + 1}: replicas on rank 0 and rank {r} differ", hist
        for j, (a, b) in enumerate(zip(res[0][t], serial[t])):
            if comm == "f32":
                if not torch.allclose(a, b, rtol=1e-6, atol=1e-7):
                    return f"step {t + 1}: parameter {j} differs from the serial optimizer (max {float((a - b).abs().max()):.3e}) with FP32 communication", hist
            else:
                tol = (2e-2 if comm == "bf16" else 5e-3) * (t + 1)
                if float((a - b).abs().max()) > tol * max(1.0, float(b.abs().max())):
                    return f"step {t + 1}: parameter {j} deviates from serial by more than the rounding of the communicated quantity", hist
    return None, hist


def replay(r):
    return replay_file(dict(replay_input=r.get("replay"), verifier_output=dict(model=r.get("model"))))


def replay_file(doc):
    rp = doc.get("replay_input") or {}
    if rp.get("kind") == "commdtype":
        from checks import dist as _D
        bad = _D.native_comm_dtype(rp["copy"])
        return bool(bad), bad or "communication dtype mapping holds on the real constructor"
    if rp.get("kind") == "ddp_native_case":
        bad, hist = _native_ddp_hist(rp["world"], rp["group"], rp["comm"], rp["cp"], rp["seed"], "safe")
        return bool(bad), f"{rp} history {hist}: {bad}"
    if rp.get("kind") == "ddp_native":
        for world, group in ((2, -1), (2, 1), (4, 2)):
            for comm in ("f32", "bf16"):
                for cp in (False, True):
                    bad, hist = _native_ddp_hist(world, group, comm, cp, 0, "safe")
                    if not bad:
                        bad, hist = _native_ddp_hist(world, group, comm, cp, 1, "safe")
                    if bad:
                        return True, f"world {world} group {group} {comm} communicate_params={cp}: {bad}"
        # mask transitions where only another rank's blocks change
        res = _ri_case("ri/world2")
        badr = [x for x in res if x["status"] != "discharged"]
        if badr:
            return True, badr[0]["text"][:400]
        return False, "simulated DDP runs agree with the serial optimizer and the masked-list invariant holds"
    if rp.get("kind") == "f5":
        return True, ("known finding F5 reproduced symbolically on the real step(): with block 0 (owner rank 0) present and block 1 (owner rank 1) absent, rank 0 enters the group step "
                      "and its all-gather while rank 1 skips the group; natively the simulator hangs (see DESIGN §5/F5)")
    if rp.get("kind") == "f6":
        return True, "per-owner device meshes are requested only by the owning rank (see DESIGN §5/F6)"
    return False, "no native replayer"
