"""Shared harnesses for the distributed configurations (C06 DDP, C07 HSDP/FSDP, C08 HybridShard/FullyShard).

E2 part: the real `update_params` of DDPDistributor / HSDPDistributor / HybridShardDistributor executed on symbolic block
tensors, with the all-gather replaced by its contract (rely/guarantee over the ranks of the group): at the call, every owner
has written round_comm(quantity) of each of its gradient-carrying blocks into that block's buffer view; after the call every
rank sees every owner's data.  The per-block buffer views are modelled as independent cells — sound because C14 proves they
are disjoint and lie in the owner's segment.  Trace part: the decision of `step()` to enter the group step (which contains
the collective) and the process-group creations of `_allocate_zeros_distributed_tensor`, per rank.
"""
from __future__ import annotations

import itertools
import threading
import z3

from vlib.driver import prove, result
from vlib.sym import Explorer, SymBool, SymInt, SymReal, assume
from vlib.tensor import FakeTorch, SymTensor, lam, rebind, uf

IDX = z3.Int("idx")

CLASSES = {
    "ddp": ("distributed_shampoo.utils.shampoo_ddp_distributor", "DDPDistributor", "_dist_group"),
    "hsdp": ("distributed_shampoo.utils.shampoo_hsdp_distributor", "HSDPDistributor", "_comms_dist_group"),
    "hybrid": ("distributed_shampoo.utils.shampoo_hybrid_shard_distributor", "HybridShardDistributor", "_comms_dist_group"),
}


def _real_step(ds):
    """the real `DistributedShampoo.step` function body: torch.optim.Optimizer.__init__ patches the CLASS attribute `step` with a
    profiling/hook wrapper the first time any optimizer is constructed in the process; the harness object is a bare instance
    without hook tables, so the wrapper (functools.wraps) is peeled off and the original function is called."""
    import inspect
    return inspect.unwrap(ds.DistributedShampoo.step)


def _cls(name):
    import importlib
    m, c, g = CLASSES[name]
    mod = importlib.import_module(m)
    return mod, getattr(mod, c), g


def _dt(n):
    import torch
    return dict(f32=torch.float32, bf16=torch.bfloat16, f16=torch.float16)[n]


def update_params_cases(name):
    cs = []
    for comm in ("f32", "bf16", "f16"):
        for mode in ("updates", "params"):
            for pres in itertools.product("01", repeat=3):
                cs.append(f"update/{name}/{comm}/{mode}/{''.join(pres)}")
    return cs


def run_update_params(case):
    import torch
    _, name, comm, mode, pres = case.split("/")
    mod, C, gattr = _cls(name)
    func = f"{C.__name__}.update_params"
    comm_dt = _dt(comm)
    present = [ch == "1" for ch in pres]
    owners = [0, 1, 0]  # block -> group rank; the executing rank is 0 and, in a second run, 1
    out = []
    for me in (0, 1):
        def fn():
            NB = 3
            params = [SymTensor.array(f"w{b}", dtype=torch.float32) for b in range(NB)]
            bufs = [SymTensor.array(f"buf{b}", dtype=comm_dt) for b in range(NB)]  # arbitrary stale content
            dirs = [SymTensor.array(f"dir{b}", dtype=torch.float32) for b in range(NB)]
            obj = object.__new__(C)
            obj._communicate_params = mode == "params"
            gsel = [b for b in range(NB) if present[b]]
            lsel = [b for b in gsel if owners[b] == me]
            # the FULL representation invariant the constructor + merge_and_block_gradients establish (every list the class keeps, mutually
            # consistent), not only the lists today's update_params reads: code that consults other parts of the invariant stays decidable
            mine = [b for b in range(NB) if owners[b] == me]
            obj._global_blocked_params = tuple(params)
            obj._global_dist_blocked_buffers = tuple(bufs)
            obj._distributor_selector = tuple(owners[b] == me for b in range(NB))
            obj._global_grad_selector = tuple(present)
            obj._previous_global_grad_selector = tuple(present)
            obj._local_grad_selector = tuple(present[b] for b in mine)
            obj._local_blocked_params = tuple(params[b] for b in mine)
            obj._local_dist_blocked_buffers = tuple(bufs[b] for b in mine)
            obj._global_num_blocks_per_param = (1,) * NB
            obj._global_masked_blocked_params = tuple(params[b] for b in gsel)
            obj._global_masked_dist_blocked_buffers = tuple(bufs[b] for b in gsel)
            obj._local_masked_blocked_params = tuple(params[b] for b in lsel)
            obj._local_masked_dist_blocked_buffers = tuple(bufs[b] for b in lsel)
            obj._global_dist_buffer, obj._local_dist_buffer = object(), object()
            setattr(obj, gattr, "GROUP")
            log = []
            rnd = uf("round_to_" + str(comm_dt).split(".")[-1], z3.RealSort(), z3.RealSort())
            narrow = comm_dt != torch.float32

            class Dist:
                @staticmethod
                def all_gather_into_tensor(outb, inb, group=None):
                    log.append((outb is obj._global_dist_buffer, inb is obj._local_dist_buffer, group))
                    # contract: segment r of the gather buffer now holds what rank r wrote: for every gradient-carrying block of
                    # ANOTHER owner, its view holds that owner's guarantee round_comm(direction) resp. round_comm(param + direction)
                    for b in gsel:
                        if owners[b] != me:
                            w0 = z3.Array(f"w{b}", z3.IntSort(), z3.RealSort())
                            d0 = z3.Array(f"dir{b}", z3.IntSort(), z3.RealSort())
                            q = (lambda i, w0=w0, d0=d0: z3.Select(w0, i) + z3.Select(d0, i)) if mode == "params" else (lambda i, d0=d0: z3.Select(d0, i))
                            bufs[b].cell.set(lam(lambda i, q=q: rnd(q(i)) if narrow else q(i)), "all_gather")

            from vlib import tensor as _vt
            _vt.ROUND_NARROWING["on"] = True  # the communication buffer stores the rounded value
            try:
                with rebind([(mod, "torch", FakeTorch()), (mod, "dist", Dist)]):
                    obj.update_params(tuple(dirs[b] for b in lsel))
            finally:
                _vt.ROUND_NARROWING["on"] = False
            return params, log

        paths = Explorer().run(fn)
        for pi, p in enumerate(paths):
            tag = f"[{case}/me{me}]#p{pi}"
            if p.outcome != "return":
                out.append(result(f"{func}/no-exception{tag}", func, "unknown" if p.outcome == "abort" else "violated", text=repr(p.value)[:200], case=case,
                                  replay=dict(kind="ddp_native", cls=name)))
                continue
            params, log = p.value
            hyp = p.cond()
            rnd = uf("round_to_" + str(comm_dt).split(".")[-1], z3.RealSort(), z3.RealSort())
            narrow = comm_dt != torch.float32
            goals = []
            for b in range(3):
                w0 = z3.Select(z3.Array(f"w{b}", z3.IntSort(), z3.RealSort()), IDX)
                d0 = z3.Select(z3.Array(f"dir{b}", z3.IntSort(), z3.RealSort()), IDX)
                if not present[b]:
                    goals.append(z3.BoolVal(params[b].cell.version == 0))
                elif mode == "updates":
                    goals.append(params[b].at(IDX) == w0 + (rnd(d0) if narrow else d0))
                else:
                    goals.append(params[b].at(IDX) == (rnd(w0 + d0) if narrow else w0 + d0))
            any_present = any(present)
            coll_ok = len(log) == 1 and log[0] == (True, True, "GROUP")
            goals.append(z3.BoolVal(coll_ok))
            out.append(prove(f"{func}/every-rank-applies-every-owner's-(rounded)-update-once{tag}", func, hyp, z3.And(*goals), case=case,
                             replay=dict(kind="ddp_native", cls=name),
                             text="after update_params every gradient-carrying block equals param + round_comm(direction) (or round_comm(param + direction)) of its OWNER — the same term on owner and non-owner, "
                                  "so replicas agree bit-for-bit and, with a communication dtype at least as precise as the parameters, equal the serial result; blocks without gradient untouched; exactly one all-gather of (global buffer, local buffer, group)"))
    return out


# ---------------------------------------------------------------------------------------------------------
# collective trace: the decision to enter the group step must not depend on the rank


def run_trace_step(case):
    """Two ranks of one group, two blocks (block 0 owned by rank 0, block 1 by rank 1), symbolic gradient presence: the real
    `step()` enters the group step (and thereby the all-gather) on a rank iff that rank's LOCAL masked gradient list is non-empty."""
    import distributed_shampoo.distributed_shampoo as ds
    from distributed_shampoo import shampoo_types as st
    func = "DistributedShampoo.step"
    out = []

    def fn():
        g = [SymBool(z3.Bool("grad_present_block0")), SymBool(z3.Bool("grad_present_block1"))]
        entered = []
        for rank in (0, 1):
            class D:
                local_grad_selector = ("sel", rank)
                local_masked_blocked_params = ()

                def merge_and_block_gradients(self_):
                    # DDP distributor contract (C04/C06 RI): local masked gradients = blocks owned by this rank that have a gradient
                    return (SymTensor.array("grad"),) if bool(g[rank]) else ()

            d = D()
            sl = {st.DISTRIBUTOR: d, st.PREVIOUS_GRAD_SELECTOR: d.local_grad_selector, st.STEP: SymTensor.int_scalar(SymInt("t0"))}
            group = {st.LR: SymReal("lr"), st.BETAS: (SymReal("b1"), SymReal("b2")), st.BETA3: SymReal("b3"), st.WEIGHT_DECAY: SymReal("wd"), st.MOMENTUM: SymReal("mu"),
                     st.DAMPENING: SymReal("dm"), st.GRAFTING_CONFIG: None, st.PRECONDITION_FREQUENCY: 1, st.START_PRECONDITIONING_STEP: 1,
                     st.USE_DECOUPLED_WEIGHT_DECAY: True, st.USE_BIAS_CORRECTION: True, st.USE_NESTEROV: False, st.PARAMS: []}
            opt = object.__new__(ds.DistributedShampoo)
            opt._per_group_state_lists, opt.param_groups, opt._device = [sl], [group], "cpu"
            calls = []
            opt._per_group_step = lambda *a: calls.append(1)
            assume(z3.Int("t0") >= 0)
            with rebind([(ds, "torch", FakeTorch())]):
                _real_step(ds)(opt)
            entered.append(len(calls))
        return entered

    paths = Explorer().run(fn)
    g0, g1 = z3.Bool("grad_present_block0"), z3.Bool("grad_present_block1")
    known = [("F5", z3.Xor(g0, g1))]
    for pi, p in enumerate(paths):
        if p.outcome != "return":
            out.append(result(f"{func}/trace:no-exception[{case}]#p{pi}", func, "unknown" if p.outcome == "abort" else "violated", text=repr(p.value)[:200], case=case))
            continue
        e = p.value
        out.append(prove(f"{func}/collective-trace-equal-on-all-ranks[{case}]#p{pi}", func, p.cond(), z3.BoolVal(e[0] == e[1]),
                         model_vars=dict(grad_present_block0=g0, grad_present_block1=g1), known=known, case=case, replay=dict(kind="f5"),
                         text=f"both ranks of the group enter the group step (all-gather) the same number of times: rank0 {e[0]}, rank1 {e[1]}"))
    return out


def run_trace_alloc(case):
    """Process-group creations issued by the per-owner state allocation of DDPDistributor: rank r requests a device mesh only
    for blocks it owns, so the sequence of (collective) mesh creations differs between ranks unless all owners coincide."""
    import torch
    mod, C, _ = _cls("ddp")
    func = "DDPDistributor._allocate_zeros_distributed_tensor"
    out = []
    for world, gsize in ((4, 2), (2, 2), (4, 4), (2, 1)):
        traces = {}
        for rank in range(world):
            log = []
            obj = object.__new__(C)
            obj._group_size, obj._global_size = gsize, world

            def gdm(device_type, mesh, mesh_dim_names=None):
                log.append(tuple(mesh))
                return ("mesh", tuple(mesh))

            with rebind([(mod, "get_device_mesh", gdm), (mod, "dtensor_zeros", lambda *a, **k: "dt")]):
                # blocks 0..gsize-1 are owned by group ranks 0..gsize-1 (at least one block per rank, as the constructor asserts)
                for owner in range(gsize):
                    if owner == rank % gsize:
                        obj._allocate_zeros_distributed_tensor((2, 2), torch.float32, torch.device("cpu"), group_source_rank=owner)
            traces[rank] = log
        same = len({tuple(v) for v in traces.values()}) == 1
        # all ranks must create the same meshes in the same order (new_group is collective over the default group)
        st = "discharged" if same else "known"
        out.append(result(f"{func}/process-group-creations-equal-on-all-ranks[{case}/world{world}-group{gsize}]", func, st, backend="trace comparison over all ranks",
                          case=case, text=f"device meshes requested per rank: {traces}", extra=({"known": ["F6"]} if not same else {}),
                          replay=dict(kind="f6", world=world, gsize=gsize), model=dict(traces={str(k): v for k, v in traces.items()})))
    return out


# ---------------------------------------------------------------------------------------------------------
# native multi-rank simulation (threads)


def threaded(world, fn, timeout=120, attempts=3):
    """runs fn(rank) on `world` simulated ranks (threads, in-process process group); returns {rank: result} or raises TimeoutError on a
    PERSISTENT hang.  The thread simulator itself occasionally dead-locks under CPU load (observed on the unchanged tree inside the
    lazy, non-collective process-group creation of get_device_mesh — the mechanism of known finding F6), so a run that does not finish
    is repeated (fresh threads, fresh in-process world) before it is reported."""
    last = None
    for k in range(max(1, attempts)):
        try:
            return _threaded_once(world, fn, timeout if k == 0 else max(30, timeout // 2))
        except TimeoutError as e:
            last = e
    raise last


def _threaded_once(world, fn, timeout):
    import torch
    from torch.testing._internal.common_distributed import spawn_threads_and_init_comms
    import torch.distributed as dist
    res, errs = {}, {}

    @spawn_threads_and_init_comms(world_size=world)
    def body(self):
        r = dist.get_rank()
        try:
            res[r] = fn(r)
        except BaseException as e:  # noqa
            import traceback
            errs[r] = "".join(traceback.format_exception(type(e), e, e.__traceback__))[-800:]
            raise

    done = threading.Event()
    box = {}

    def run():
        try:
            body(None)
        except BaseException as e:  # noqa
            box["exc"] = e
        finally:
            done.set()

    th = threading.Thread(target=run, daemon=True)
    th.start()
    if not done.wait(timeout):
        raise TimeoutError("simulated ranks did not finish (a collective is not matched on all ranks)")
    if errs:
        raise RuntimeError(f"rank errors: {errs}")
    return res


# ---------------------------------------------------------------------------------------------------------
# representation invariant of the DDP-style masked lists on a bare object of the real class (no process group needed)


def run_ri_bare(case, name):
    """The real `merge_and_block_gradients` of DDPDistributor / HSDPDistributor / HybridShardDistributor re-establishes
    masked = compress(unmasked, current selectors) for the five masked lists, from ANY previous global gradient-presence pattern
    to ANY new one, for every ownership pattern of three blocks (complete transition enumeration; `_merge_and_block_gradients`
    is replaced by its contract: it sets `_global_grad_selector` to the per-block presence)."""
    mod, C, _ = _cls(name)
    func = f"{C.__name__}.merge_and_block_gradients"
    pats = list(itertools.product((False, True), repeat=3))
    out = []
    for own in [p for p in pats if any(p)]:
        bad = []
        for prev in [None] + pats:
            for new in pats:
                obj = object.__new__(C)
                gp = tuple(object() for _ in range(3))
                gb = tuple(object() for _ in range(3))
                obj._global_blocked_params, obj._global_dist_blocked_buffers = gp, gb
                obj._distributor_selector = tuple(own)
                cmp_ = lambda xs, s: tuple(itertools.compress(xs, s))
                obj._local_blocked_params, obj._local_dist_blocked_buffers = cmp_(gp, own), cmp_(gb, own)
                # constructor state: everything unmasked
                obj._global_masked_blocked_params, obj._global_masked_dist_blocked_buffers = gp, gb
                obj._local_masked_blocked_params, obj._local_masked_dist_blocked_buffers = obj._local_blocked_params, obj._local_dist_blocked_buffers
                obj._local_grad_selector = (True,) * sum(own)
                obj._global_grad_selector = (True,) * 3
                obj._previous_global_grad_selector = None
                cur = {}

                def mbg():
                    obj._global_grad_selector = tuple(cur["pat"])
                    return ()

                obj._merge_and_block_gradients = mbg
                for pat in ([prev] if prev is not None else []) + [new]:
                    cur["pat"] = pat
                    obj.merge_and_block_gradients()
                same = lambda a, b: len(a) == len(b) and all(x is y for x, y in zip(a, b))
                lsel = cmp_(new, own)
                errs = []
                if tuple(obj._local_grad_selector) != lsel:
                    errs.append("local_grad_selector")
                if not same(obj._local_masked_blocked_params, cmp_(obj._local_blocked_params, lsel)):
                    errs.append("local_masked_blocked_params")
                if not same(obj._global_masked_blocked_params, cmp_(gp, new)):
                    errs.append("global_masked_blocked_params")
                if not same(obj._global_masked_dist_blocked_buffers, cmp_(gb, new)):
                    errs.append("global_masked_dist_blocked_buffers")
                if not same(obj._local_masked_dist_blocked_buffers, cmp_(obj._local_dist_blocked_buffers, lsel)):
                    errs.append("local_masked_dist_blocked_buffers")
                if errs:
                    bad.append((prev, new, errs))
        o = "".join(str(int(x)) for x in own)
        out.append(result(f"{func}/masked-lists=compress(lists,current-selectors)-after-any-transition[{case}/own{o}]", func, "discharged" if not bad else "violated",
                          backend="concrete-execution of the real method (complete transition enumeration)", case=case,
                          text="all five masked lists are re-derived from the CURRENT global/local selectors, also when only blocks owned by another rank change"
                               + (f"; VIOLATED e.g. previous {bad[0][0]} -> new {bad[0][1]}: stale {bad[0][2]}" if bad else ""),
                          replay=dict(kind="ddp_native", cls=name), model=dict(first_bad=str(bad[:1]))))
    return out


# ---------------------------------------------------------------------------------------------------------
# communication dtype of the gather buffers: the documented mapping, independent of the parameters' dtypes


def run_comm_dtype(case):
    """case = commdtype/<ddp|hsdp|hybrid>.  The REAL optimizer constructor with the real distributor on a single-process gloo group of world
    size 1 (HashStore, no network), for a MIXED-dtype parameter group (bfloat16 first, then float32): the gather-buffer views have the dtype
    the configuration names — DEFAULT and FP32 -> float32 (so float32 parameters equal the serial optimizer exactly), FP16 -> float16,
    BF16 -> bfloat16 — and never a dtype derived from the parameters."""
    import torch
    import torch.distributed as dist
    from distributed_shampoo import shampoo_types as st
    from distributed_shampoo.distributed_shampoo import DistributedShampoo
    from vlib.driver import result
    name = case.split("/")[1]
    func = dict(ddp="DDPDistributor.__init__", hsdp="HSDPDistributor.__init__", hybrid="HybridShardDistributor.__init__")[name]
    out = []
    try:
        if not dist.is_initialized():
            dist.init_process_group("gloo", store=dist.HashStore(), rank=0, world_size=1)
        mesh = None
        if name != "ddp":
            from torch.distributed.device_mesh import init_device_mesh
            mesh = init_device_mesh("cpu", (1, 1), mesh_dim_names=("replicate", "shard"))
    except BaseException as e:  # noqa
        return [result(f"{func}/communication-dtype-mapping[{case}]", func, "unknown", case=case, text=f"no single-process group available: {e!r}"[:300])]
    want = {st.CommunicationDType.DEFAULT: torch.float32, st.CommunicationDType.FP32: torch.float32, st.CommunicationDType.FP16: torch.float16,
            st.CommunicationDType.BF16: torch.bfloat16}
    for order in (("bf16", "f32", "f32"), ("f32", "bf16", "f16"), ("f16", "f32")):
        for cdt in st.CommunicationDType:
            dts = [dict(bf16=torch.bfloat16, f32=torch.float32, f16=torch.float16)[d] for d in order]
            ps = [torch.nn.Parameter(torch.randn(4, 3).to(dt)) for dt in dts]
            try:
                if name == "ddp":
                    cfg = st.DDPShampooConfig(communication_dtype=cdt)
                elif name == "hsdp":
                    from torch.distributed.fsdp import ShardingStrategy
                    ps = [torch.nn.Parameter(p.detach().reshape(-1)) for p in ps]
                    meta = {f: st.FSDPParameterMetadata(fqn=f"p{j}", shape=torch.Size((4, 3)), numel=12, start_idx=0, end_idx=12, sharding_strategy=ShardingStrategy.HYBRID_SHARD)
                            for j, f in enumerate(ps)}
                    cfg = st.HSDPShampooConfig(param_to_metadata=meta, device_mesh=mesh, communication_dtype=cdt)
                else:
                    from torch.distributed.tensor import Replicate, Shard, distribute_tensor
                    ps = [torch.nn.Parameter(distribute_tensor(p.detach(), mesh, [Replicate(), Shard(0)])) for p in ps]
                    cfg = st.HybridShardShampooConfig(device_mesh=mesh, communication_dtype=cdt)
                opt = DistributedShampoo(ps, lr=0.01, max_preconditioner_dim=8, distributed_config=cfg, preconditioner_dtype=torch.float64)
                got = {b.dtype for b in opt._per_group_state_lists[0][st.DISTRIBUTOR]._global_dist_blocked_buffers}
                ok, why = got == {want[cdt]}, f"gather-buffer dtypes {sorted(map(str, got))}"
                # state allocated through the distributor's allocation function keeps the requested dtype (factor matrices: preconditioner_dtype)
                fdt = set()

                def walk(x, depth=0):
                    if depth > 6:
                        return
                    if hasattr(x, "factor_matrices"):
                        fdt.update(t.dtype for t in x.factor_matrices)
                    elif isinstance(x, dict):
                        for v in x.values():
                            walk(v, depth + 1)

                walk(dict(opt.state))
                if ok and fdt != {torch.float64}:
                    ok, why = False, f"factor matrices allocated with dtypes {sorted(map(str, fdt))} although preconditioner_dtype=float64"
            except BaseException as e:  # noqa
                ok, why = False, f"raised {type(e).__name__}: {e}"[:200]
            out.append(result(f"{func}/communication-dtype-mapping[{case}/{'-'.join(order)}/{cdt.name}]", func, "discharged" if ok else "violated",
                              backend="concrete-execution of the real constructor (single-process gloo group, world size 1)", case=case,
                              text=f"parameters {order}, communication_dtype={cdt.name}: every gather-buffer view is {want[cdt]} (DEFAULT = FP32 = float32, whatever the parameters' dtypes); state allocated by the distributor has the requested dtype — {why}",
                              replay=dict(kind="commdtype", copy=name)))
    return out


def native_comm_dtype(name):
    bad = [r for r in run_comm_dtype(f"commdtype/{name}") if r["status"] == "violated"]
    return (bad[0]["text"] if bad else None)
