"""C02 — warm-up equals the grafted torch.optim optimizer; afterwards its step norm is kept.

Deductive part (E2): the real `_per_group_step_impl` (+ real Adagrad/SGD grafting lists, real default
`update_params`) is executed on symbolic tensors under the hyperparameter correspondence of each grafting target
with `use_grafting_method` true, and its parameter delta / carried state are proved equal to the documented
torch.optim update (PyTorch's documented single-tensor algorithms, restated below as `torch_*` — an ASSUMED
contract that the bounded tier validates against the real torch.optim classes on every run).  The wiring of
grafting configs to (beta2, epsilon, bias correction) is an obligation on the real `_instantiate_grafting`.
Norm transfer: for t >= start the direction is P_shampoo * (||P_graft|| / (||P_shampoo|| + 1e-16)).
"""
from __future__ import annotations

import z3

from vlib.driver import prove, result
from vlib.sym import Explorer, SymBool, SymInt, SymReal, assume, POW, SQRT, real_sqrt
from vlib.tensor import ARR, FakeTorch, NORM, SymTensor, lam, rebind
from checks import stepmodel as sm
from checks.stepmodel import IDX

PROP = "C02"
LEVEL = "proof"
FUNCS = [
    ("distributed_shampoo/distributed_shampoo.py", "DistributedShampoo._per_group_step_impl"),
    ("distributed_shampoo/distributed_shampoo.py", "DistributedShampoo.step"),
    ("distributed_shampoo/distributed_shampoo.py", "DistributedShampoo._precondition_and_grafting"),
    ("distributed_shampoo/distributed_shampoo.py", "DistributedShampoo._compute_filtered_grad_list"),
    ("distributed_shampoo/distributed_shampoo.py", "DistributedShampoo._update_momentum"),
    ("distributed_shampoo/distributed_shampoo.py", "DistributedShampoo._instantiate_grafting"),
    ("distributed_shampoo/distributed_shampoo.py", "DistributedShampoo._apply_decoupled_weight_decay"),
    ("distributed_shampoo/distributed_shampoo.py", "DistributedShampoo._add_l2_regularization"),
    ("distributed_shampoo/utils/shampoo_preconditioner_list.py", "AdagradPreconditionerList.__init__"),
    ("distributed_shampoo/utils/shampoo_preconditioner_list.py", "AdagradPreconditionerList.update_preconditioners"),
    ("distributed_shampoo/utils/shampoo_preconditioner_list.py", "AdagradPreconditionerList.precondition"),
    ("distributed_shampoo/utils/shampoo_preconditioner_list.py", "SGDPreconditionerList.precondition"),
]
TRUSTED = [
    "oracle = the REAL torch.optim._single_tensor_{sgd,adagrad,rmsprop,adam,adamw} functions shadow-executed on the same symbolic state (their torch ops by the same pointwise contracts as the repo's); the optimizer classes' state bookkeeping around them (step counters, buffer creation) is validated natively",
    "correspondence side conditions (stated as preconditions): SGD dampening = 0 (torch initialises the momentum buffer with the first gradient), Adagrad lr_decay = 0 and initial_accumulator_value = 0, RMSprop centered = False and momentum = 0, per-parameter step count = group step count, second-moment state >= 0",
    "axiom instances: b^t = b * b^(t-1); 0 < b^t < 1 for 0 < b < 1, t >= 1; sqrt(x) >= 0 and sqrt(x)^2 = x for x >= 0; Frobenius-norm homogeneity ||c A|| = |c| ||A||",
    "machine arithmetic treated as mathematical; blocking/merging transparency inherited from C05 (directions are pointwise)",
    "Shampoo list by contract [P]; block-count parametricity (two generic blocks)",
]
ASSUMPTIONS = ["hyperparameters in the constructor domain (C17)"]
EXPLANATION = "parameter delta and carried state of one real group step equal the documented torch.optim step for every grafting target, all values, every flag path (warm-up); exact rescaling formula afterwards"

from vlib.sym import as_real
GUARD = as_real(1e-16).t  # the exact value of the double 1e-16 used by the code
TARGETS = ("sgd", "adagrad", "rmsprop", "adam", "adamw")


def cases(tier):
    cs = [f"warmup/{t}" for t in TARGETS] + ["norm_transfer/sgd", "norm_transfer/ada", "wiring/grafting"]
    # contract of DistributedShampoo.step the trajectory claim relies on (every group with gradients gets exactly one group step with its
    # own hyperparameters, groups without gradients are skipped and do not stop the loop): the C01 step/flags cases, re-discharged here
    cs += [f"step/flags/g{a}{b}n{c}{d}" for a in "01" for b in "01" for c in "01" for d in "01"]
    # contract of precondition() the norm transfer relies on: it returns the direction WITHOUT writing the filtered gradient it is given (the
    # grafted method's norm is computed from that same gradient afterwards) — also for blocks without any preconditioned dimension
    cs += ["plist/shampoo/o1/ign0/int0", "plist/eig/o1/ign0/int0", "plist/shampoo/o2/ign-/int", "plist/eig/o2/ign-/int"]
    return cs


def _R(n):
    return z3.Real(n)


def torch_update(target, b):
    """Documented torch.optim update for one element of block b: returns dict(w=..., state...) as z3 terms."""
    w, g = z3.Select(z3.Array(f"w{b}", z3.IntSort(), z3.RealSort()), IDX), z3.Select(z3.Array(f"g{b}", z3.IntSort(), z3.RealSort()), IDX)
    F = z3.Select(z3.Array(f"F{b}", z3.IntSort(), z3.RealSort()), IDX)
    M = z3.Select(z3.Array(f"M{b}", z3.IntSort(), z3.RealSort()), IDX)
    V = z3.Select(z3.Array(f"V{b}", z3.IntSort(), z3.RealSort()), IDX)
    lr, wd, mu, eps = _R("lr"), _R("weight_decay"), _R("momentum"), _R("graft_epsilon")
    b1, b2 = _R("beta1"), _R("graft_beta2")
    t = z3.Int("step")
    nest = z3.Bool("use_nesterov")
    if target == "sgd":  # torch.optim.SGD (dampening = 0): g~ = g + wd w; buf = mu buf + g~; d = g~ + mu buf if nesterov else buf
        gt = g + wd * w
        buf = mu * M + gt
        d = z3.If(mu != 0, z3.If(nest, gt + mu * buf, buf), gt)
        return dict(w=w - lr * d, M=z3.If(mu != 0, buf, M))
    if target == "adagrad":  # state_sum += g~^2 ; w -= lr * g~ / (sqrt(state_sum) + eps)
        gt = g + wd * w
        s = V + gt * gt
        return dict(w=w - lr * gt / (SQRT(s) + eps), V=s)
    if target == "rmsprop":  # square_avg = alpha sq + (1-alpha) g~^2 ; w -= lr * g~ / (sqrt(square_avg) + eps)
        gt = g + wd * w
        s = b2 * V + (1 - b2) * gt * gt
        return dict(w=w - lr * gt / (SQRT(s) + eps), V=s)
    # adam / adamw
    if target == "adam":
        gt, w0 = g + wd * w, w
    else:
        gt, w0 = g, w * (1 - lr * wd)
    m = b1 * F + (1 - b1) * gt
    v = b2 * V + (1 - b2) * gt * gt
    bc1 = 1 - POW(b1, z3.ToReal(t))
    bc2 = 1 - POW(b2, z3.ToReal(t))
    denom = SQRT(v) / SQRT(bc2) + eps
    return dict(w=w0 - (lr / bc1) * (m / denom), F=m, V=v)


def torch_oracle(target, h, NB):
    """Shadow-executes the REAL torch.optim single-tensor function of the grafted method on the same symbolic pre-state
    (fresh proxies over the same array constants).  Returns per block dict(w=..., F/V/M=...) of SymTensors."""
    import torch
    from torch.optim import adagrad, adam, adamw, rmsprop, sgd
    ft = FakeTorch()
    out = []
    mods = [(m, "torch", ft) for m in (sgd, adagrad, rmsprop, adam, adamw)]
    with rebind(mods):
        for b in range(NB):
            w, g = SymTensor.array(f"w{b}", torch.float32), SymTensor.array(f"g{b}", torch.float32)
            F, M, V = SymTensor.array(f"F{b}", torch.float32), SymTensor.array(f"M{b}", torch.float32), SymTensor.array(f"V{b}", torch.float32)
            step_t = SymTensor.int_scalar(SymInt(h["t"].t - 1))
            r = dict(w=w)
            if target == "sgd":
                sgd._single_tensor_sgd([w], [g], [M], None, None, weight_decay=h["wd"], momentum=h["mu"], lr=h["lr"], dampening=h["damp"],
                                       nesterov=h["nesterov"], maximize=False, has_sparse_grad=False)
                r["M"] = M
            elif target == "adagrad":
                adagrad._single_tensor_adagrad([w], [g], [V], [step_t], None, None, lr=h["lr"], weight_decay=h["wd"], lr_decay=0.0, eps=h["eps_g"],
                                               has_sparse_grad=False, maximize=False, differentiable=False, has_complex=False)
                r["V"] = V
            elif target == "rmsprop":
                rmsprop._single_tensor_rmsprop([w], [g], [V], [], [], [step_t], lr=h["lr"], alpha=h["beta2g"], eps=h["eps_g"], weight_decay=h["wd"], momentum=0.0,
                                               centered=False, maximize=False, differentiable=False, capturable=False, has_complex=False)
                r["V"] = V
            else:
                fn_ = adam._single_tensor_adam if target == "adam" else adamw._single_tensor_adamw
                fn_([w], [g], [F], [V], [], [step_t], None, None, amsgrad=False, has_complex=False, beta1=h["beta1"], beta2=h["beta2g"], lr=h["lr"],
                    weight_decay=h["wd"], eps=h["eps_g"], maximize=False, capturable=False, differentiable=False)
                r["F"], r["V"] = F, V
            out.append(r)
    return out


def _correspondence(target, h):
    """Hyperparameter correspondence (README examples) + warm-up + side conditions."""
    c = [h["use_graft"].t if isinstance(h["use_graft"], SymBool) else z3.BoolVal(True)]
    t = z3.Int("step")
    b1, b2 = _R("beta1"), _R("graft_beta2")
    if target == "sgd":
        c += [h["beta1"].t == 0, z3.Not(h["decoupled"].t), h["damp"].t == 0]
    elif target == "adagrad":
        c += [h["beta1"].t == 0, z3.Not(h["decoupled"].t), h["mu"].t == 0, h["beta2g"].t == 1]
    elif target == "rmsprop":
        c += [h["beta1"].t == 0, z3.Not(h["decoupled"].t), h["mu"].t == 0, h["beta2g"].t < 1, z3.Not(h["bias_g"].t)]
    else:
        c += [h["beta1"].t != 0, h["beta3"].t == h["beta1"].t, h["bias"].t, h["bias_g"].t, h["beta2g"].t < 1, h["mu"].t == 0,
              h["decoupled"].t == (target == "adamw")]
        # axiom instances of integer powers
        c += [POW(b1, z3.ToReal(t)) == b1 * POW(b1, z3.ToReal(t - 1)), POW(b1, z3.ToReal(t)) < 1, POW(b1, z3.ToReal(t)) > 0,
              POW(b2, z3.ToReal(t)) > 0, POW(b2, z3.ToReal(t)) < 1]
    return c


def _warmup_case(case):
    target = case.split("/")[1]
    graft = "sgd" if target == "sgd" else "ada"
    func = "DistributedShampoo._per_group_step_impl"
    NB = 2

    def fn():
        h = sm.make_hyper(graft)
        for c in sm.hyper_domain(h) + _correspondence(target, h):
            assume(c)
        blocks = sm.make_blocks(NB, graft=graft)
        # a third block of the group WITHOUT gradient this step: present in the local (unmasked) grafting list only.  torch.optim skips a
        # parameter whose grad is None entirely, so its second-moment state must not be touched (not even decayed).
        inactive = SymTensor.array("V_inactive") if graft == "ada" else None
        local = [blocks[0]["V"], inactive] + [b["V"] for b in blocks[1:]] if inactive is not None else None
        stub, gobj, step_t = sm.run_group_step(h, blocks, alias=False, graft_local=local)
        oracle = torch_oracle(target, h, NB)
        return h, blocks, oracle, inactive

    paths = Explorer().run(fn)
    out = []
    mv = {n: z3.Real(n) for n in ("lr", "beta1", "beta3", "weight_decay", "momentum", "dampening", "graft_beta2", "graft_epsilon", "bc2g_prev")}
    mv.update({n: z3.Bool(n) for n in ("use_decoupled_weight_decay", "use_bias_correction", "use_nesterov", "use_grafting_method",
                                        "perform_amortized_computation", "graft_bias_correction")})
    mv["step"] = z3.Int("step")
    for b in range(NB):
        for nm in ("w", "g", "F", "M", "V"):
            mv[f"{nm}{b}[idx]"] = z3.Select(z3.Array(f"{nm}{b}", z3.IntSort(), z3.RealSort()), IDX)
    okp = 0
    for pi, p in enumerate(paths):
        tag = f"[{case}]#p{pi}"
        if p.outcome != "return":
            out.append(result(f"{func}/no-exception{tag}", func, "unknown" if p.outcome == "abort" else "violated", text=repr(p.value), case=case))
            continue
        okp += 1
        h, blocks, oracle, inactive = p.value
        hyp = p.cond()
        if inactive is not None:
            out.append(prove(f"{func}/warmup.state-of-a-parameter-without-gradient-untouched{tag}", func, hyp,
                             inactive.at(IDX) == z3.Select(z3.Array("V_inactive", z3.IntSort(), z3.RealSort()), IDX),
                             model_vars=mv, case=case, replay=dict(kind="warmup", target=target),
                             text="a block of the group without gradient this step keeps its grafting second-moment state bit-for-bit (torch.optim skips parameters whose grad is None)"))
        for b in range(NB):
            # sqrt axiom instances for the oracle's sqrt terms
            tu = torch_update(target, b)
            orc = oracle[b]
            ax = []
            V = z3.Select(z3.Array(f"V{b}", z3.IntSort(), z3.RealSort()), IDX)
            if target in ("adam", "adamw"):
                # instance of the lemma sqrt(a/b) = sqrt(a)/sqrt(b) (a >= 0, b > 0), which is discharged separately below
                b2c, tt = _R("graft_beta2"), z3.Int("step")
                gt = (z3.Select(z3.Array(f"g{b}", z3.IntSort(), z3.RealSort()), IDX) + (_R("weight_decay") * z3.Select(z3.Array(f"w{b}", z3.IntSort(), z3.RealSort()), IDX) if target == "adam" else 0))
                vv = b2c * V + (1 - b2c) * gt * gt
                bc2 = 1 - POW(b2c, z3.ToReal(tt))
                ax.append(SQRT(vv / bc2) == SQRT(vv) / SQRT(bc2))
                ax.append(z3.And(SQRT(vv / bc2) >= 0, SQRT(vv) >= 0, SQRT(bc2) > 0))
            hyp_b = z3.And(hyp, V >= 0, *ax)
            rp = dict(kind="warmup", target=target)
            out.append(prove(f"{func}/warmup.parameter=real-torch.optim.{target}-step{tag}/b{b}", func, hyp_b, blocks[b]["w"].at(IDX) == orc["w"].at(IDX),
                             model_vars=mv, text=f"parameter after a warm-up step equals the one produced by the REAL torch.optim._single_tensor_{target} executed on the same symbolic state",
                             case=case, replay=rp, timeout_s=20))
            for nm, label in (("F", "exp_avg"), ("V", "second-moment state"), ("M", "momentum_buffer")):
                if nm in orc and blocks[b].get(nm) is not None:
                    out.append(prove(f"{func}/warmup.{label}=real-torch.optim.{target}-state{tag}/b{b}", func, hyp_b, blocks[b][nm].at(IDX) == orc[nm].at(IDX),
                                     kind="auxiliary", model_vars=mv, text=f"carried state {label} equals torch's (auxiliary: state correspondence invariant)", case=case, replay=rp, timeout_s=20))
            out.append(prove(f"{func}/warmup.parameter=torch.optim.{target}{tag}/b{b}", func, hyp_b, blocks[b]["w"].at(IDX) == tu["w"], kind="auxiliary",
                             model_vars=mv, text=f"(auxiliary cross-check) parameter equals the documented torch.optim {target} rule", case=case, replay=rp, timeout_s=20))
            for nm, label in (("F", "exp_avg"), ("V", "second-moment state"), ("M", "momentum_buffer")):
                if nm in tu and blocks[b].get(nm) is not None:
                    out.append(prove(f"{func}/warmup.{label}=torch.optim.{target}{tag}/b{b}", func, hyp_b, blocks[b][nm].at(IDX) == tu[nm],
                                     kind="auxiliary", model_vars=mv, text=f"carried state {label} corresponds (auxiliary: state correspondence invariant)",
                                     case=case, replay=rp, timeout_s=20))
    if target in ("adam", "adamw"):
        a, bb, sa, sb, sq = z3.Real("a"), z3.Real("b"), z3.Real("sqrt_a"), z3.Real("sqrt_b"), z3.Real("sqrt_a_over_b")
        out.append(prove(f"{func}/lemma:sqrt-of-quotient[{case}]", func,
                         z3.And(a >= 0, bb > 0, sa >= 0, sa * sa == a, sb >= 0, sb * sb == bb, sq >= 0, sq * sq == a / bb),
                         z3.And(sq == sa / sb, sb > 0), text="sqrt(a/b) = sqrt(a)/sqrt(b) for a >= 0, b > 0 (from the defining axioms of sqrt)", case=case))
    out.append(result(f"{func}/cover:warmup-paths[{case}]", func, "violated" if okp else "discharged", kind="cover", case=case, extra=dict(paths=len(paths))))
    if okp:
        p = [q for q in paths if q.outcome == "return"][0]
        out.append(prove(f"{func}/canary:warmup-is-noop[{case}]", func, p.cond(), p.value[1][0]["w"].at(IDX) == mv["w0[idx]"], kind="canary", case=case))
    return out


def _sqrt_args(t, acc=None, seen=None):
    acc = [] if acc is None else acc
    seen = set() if seen is None else seen
    if t.get_id() in seen:
        return acc
    seen.add(t.get_id())
    if z3.is_app(t) and t.decl().name() == "sqrt":
        acc.append(t.arg(0))
    for c in t.children():
        _sqrt_args(c, acc, seen)
    return acc


def _norm_case(case):
    graft = "sgd" if case.endswith("sgd") else "ada"
    func = "DistributedShampoo._precondition_and_grafting"
    NB = 2

    def fn():
        h = sm.make_hyper(graft)
        for c in sm.hyper_domain(h):
            assume(c)
        assume(z3.Not(h["use_graft"].t))  # t >= start_preconditioning_step
        assume(h["wd"].t == 0)
        assume(h["mu"].t == 0)
        assume(h["lr"].t > 0)
        blocks = sm.make_blocks(NB, graft=graft)
        glog = []
        stub, gobj, step_t = sm.run_group_step(h, blocks, alias=False, graft_log=glog)
        return h, blocks, stub, glog

    paths = Explorer().run(fn)
    out = []
    okp = 0
    for pi, p in enumerate(paths):
        tag = f"[{case}]#p{pi}"
        if p.outcome != "return":
            out.append(result(f"{func}/no-exception{tag}", func, "unknown" if p.outcome == "abort" else "violated", text=repr(p.value), case=case))
            continue
        okp += 1
        h, blocks, stub, glog = p.value
        hyp = p.cond()
        pre = [e for e in stub.log if e[0] == "precondition"]
        if not pre or len(glog) != 1:
            out.append(result(f"{func}/shampoo-direction-used{tag}", func, "violated", text="Shampoo precondition() not called after warm-up", case=case))
            continue
        for b in range(NB):
            ghat = pre[0][1][b]  # filtered gradient handed to the Shampoo list (array term)
            psh = sm.PSH[b](ghat)
            s = sm.spec_state(b, graft)
            sp = sm.spec_step(sm.SymAlg, h, s, sm.psh_spec(b, False))
            # grafted method's direction for the same input, from the spec (equal to the code's by C01)
            if graft == "sgd":
                pgr = ghat
            else:
                V1, bc2 = sp["V"], sp["bc2g"]
                bc2t = bc2.t if isinstance(bc2, SymReal) else bc2.at(IDX)
                pgr = lam(lambda i: z3.Select(ghat, i) / (real_sqrt(V1.at(i) / bc2t) + h["eps_g"].t))
            pgr_code = glog[0][b]  # array term of the grafted direction the real code computed
            out.append(prove(f"{func}/grafted-direction-is-the-grafted-method's{tag}/b{b}", func, hyp,
                             z3.Select(pgr_code, IDX) == z3.Select(pgr, IDX), text="the norm is taken of the grafted method's direction for the same filtered gradient",
                             case=case, replay=dict(kind="norm", graft=graft), timeout_s=20))
            w0 = z3.Array(f"w{b}", z3.IntSort(), z3.RealSort())
            delta = lam(lambda i: (z3.Select(w0, i) - blocks[b]["w"].at(i)) / h["lr"].t)  # the applied direction
            c = NORM(pgr_code) / (NORM(psh) + GUARD)
            out.append(prove(f"{func}/direction=shampoo*graft-norm/(shampoo-norm+1e-16){tag}/b{b}", func, hyp,
                             z3.Select(delta, IDX) == z3.Select(psh, IDX) * c, text="applied direction is the Shampoo direction rescaled by ||graft|| / (||shampoo|| + 1e-16)",
                             case=case, replay=dict(kind="norm", graft=graft), timeout_s=20))
    # norm transfer as a lemma over the rescaling formula (Frobenius-norm homogeneity is an assumed axiom instance)
    c, nps, npg, nd = z3.Real("c"), z3.Real("norm_psh"), z3.Real("norm_pgr"), z3.Real("norm_dir")
    out.append(prove(f"{func}/lemma:norm-transfer[{case}]", func,
                     z3.And(nps >= 0, npg >= 0, c == npg / (nps + GUARD), nd == z3.If(c >= 0, c, -c) * nps),
                     nd * (nps + GUARD) == npg * nps, text="||c P_sh|| = |c| ||P_sh||  =>  ||direction|| (||P_sh|| + 1e-16) = ||P_graft|| ||P_sh||  (norm kept up to the guard)",
                     case=case))
    out.append(result(f"{func}/cover:post-warmup-paths[{case}]", func, "violated" if okp else "discharged", kind="cover", case=case, extra=dict(paths=len(paths))))
    return out


def _wiring_case(case):
    """Real `_instantiate_grafting` (+ real AdagradPreconditionerList.__init__): config type -> (beta2, epsilon, bias correction)."""
    import torch
    import distributed_shampoo.distributed_shampoo as ds
    import distributed_shampoo.utils.shampoo_preconditioner_list as pl
    from distributed_shampoo import shampoo_types as st
    from distributed_shampoo.utils.shampoo_block_info import BlockInfo

    func = "DistributedShampoo._instantiate_grafting"
    out = []
    for name in ("none", "sgd", "adagrad", "rmsprop", "adam"):
        def fn():
            eps, b2 = SymReal("cfg_epsilon"), SymReal("cfg_beta2")
            cfg = dict(none=lambda: None, sgd=lambda: st.SGDGraftingConfig(), adagrad=lambda: st.AdaGradGraftingConfig(epsilon=eps),
                       rmsprop=lambda: st.RMSpropGraftingConfig(epsilon=eps, beta2=b2), adam=lambda: st.AdamGraftingConfig(epsilon=eps, beta2=b2))[name]()
            blk = SymTensor.array("blk0", dtype=torch.float32, shape=[SymInt("n0"), SymInt("n1")])
            allocs = []

            def alloc(size, dtype, device):
                t = SymTensor(z3.K(z3.IntSort(), z3.RealVal(0)), dtype=dtype, shape=tuple(size))
                allocs.append(t)
                return t

            class D:
                local_blocked_params = (blk,)
                local_block_info_list = (BlockInfo(param=blk, composable_block_ids=(0, "block_0"), allocate_zeros_tensor=alloc, get_tensor=lambda t: t),)

            opt = object.__new__(ds.DistributedShampoo)
            opt.state = {blk: {}}
            sl = {st.DISTRIBUTOR: D()}
            opt._per_group_state_lists = [sl]
            opt.param_groups = [{st.GRAFTING_CONFIG: cfg}]
            with rebind([(ds, "torch", FakeTorch()), (pl, "torch", FakeTorch())]):
                opt._instantiate_grafting()
            return sl[st.GRAFTING_PRECONDITIONER_LIST], allocs, opt.state[blk]

        paths = Explorer().run(fn)
        for pi, p in enumerate(paths):
            tag = f"[{case}/{name}]#p{pi}"
            if p.outcome == "raise" and isinstance(p.value, ValueError):
                continue  # config __post_init__ rejected the values (C17)
            if p.outcome != "return":
                out.append(result(f"{func}/no-exception{tag}", func, "unknown" if p.outcome == "abort" else "violated", text=repr(p.value), case=case))
                continue
            g, allocs, pstate = p.value
            hyp = p.cond()
            if name == "none":
                ok, goal = g is None, z3.BoolVal(True)
            elif name == "sgd":
                ok, goal = type(g) is pl.SGDPreconditionerList, z3.BoolVal(True)
            else:
                ok = type(g) is pl.AdagradPreconditionerList and len(allocs) == 1 and allocs[0].dtype == torch.float32 and \
                    g._masked_preconditioner_list[0] is allocs[0] and pstate.get("block_0", {}).get(pl.ADAGRAD) is allocs[0]
                want_b2 = z3.RealVal(1) if name == "adagrad" else z3.Real("cfg_beta2")
                b2 = g._beta2.t if isinstance(g._beta2, SymReal) else z3.RealVal(str(g._beta2))
                bias = g._use_bias_correction
                goal = z3.And(b2 == want_b2, g._epsilon.t == z3.Real("cfg_epsilon") if isinstance(g._epsilon, SymReal) else z3.BoolVal(False),
                              z3.BoolVal(bias is (name == "adam")))
            out.append(prove(f"{func}/config-to-(beta2,epsilon,bias-correction){tag}", func, hyp, z3.And(z3.BoolVal(bool(ok)), goal),
                             model_vars=dict(cfg_epsilon=z3.Real("cfg_epsilon"), cfg_beta2=z3.Real("cfg_beta2")), case=case,
                             text=f"{name}: Adagrad -> beta2=1; RMSprop/Adam -> config beta2; bias correction only for Adam; epsilon = config epsilon; fresh zero state per block in block dtype",
                             replay=dict(kind="wiring")))
    out.append(prove(f"{func}/canary[{case}]", func, z3.BoolVal(True), z3.Real("cfg_beta2") == 1, kind="canary", case=case))
    return out


def run_case(case, tier, seed):
    if case.startswith("step/flags"):
        from checks import stepflags
        return stepflags.run(case, tier)
    if case.startswith("plist/"):
        from checks import plist
        return plist.run_list_case(case, tier, PROP)
    if case.startswith("warmup/"):
        return _warmup_case(case)
    if case.startswith("norm_transfer/"):
        return _norm_case(case)
    return _wiring_case(case)


# ---- native tier: the real optimizer against the real torch.optim classes -------------------------------


def _native_traj(target, seed, steps=4):
    import torch
    from distributed_shampoo.distributed_shampoo import DistributedShampoo
    from distributed_shampoo import shampoo_types as st
    import random
    rng = random.Random(f"{target}/{seed}")
    torch.manual_seed(seed)
    shapes = [rng.choice([(5,), (3, 4), (2, 3, 2), (6, 2), (1, 4), ()]) for _ in range(rng.choice([1, 2, 3]))]
    lr = rng.choice([0.1, 0.01])
    wd = rng.choice([0.0, 0.1])
    mom = rng.choice([0.0, 0.5, 0.9]) if target == "sgd" else 0.0
    nest = rng.choice([False, True]) if mom else False
    b1, b2, eps = rng.choice([0.9, 0.5]), rng.choice([0.999, 0.9, 0.5]), rng.choice([1e-8, 1e-3])
    maxdim = rng.choice([2, 3, 1024])
    merge = rng.choice([True, False])
    p1 = [torch.nn.Parameter(torch.randn(s, dtype=torch.float64)) for s in shapes]
    p2_list = [torch.nn.Parameter(p.detach().clone()) for p in p1]
    # several parameter groups with the same hyperparameters behave like one (the reference keeps a single group)
    groups = 2 if len(shapes) >= 2 and rng.random() < 0.7 else 1
    def mk_p2():
        return list(p2_list) if groups == 1 else [dict(params=p2_list[:1]), dict(params=p2_list[1:])]

    p2 = mk_p2()
    common = dict(lr=lr, weight_decay=wd, max_preconditioner_dim=maxdim, use_merge_dims=merge, start_preconditioning_step=steps + 2,
                  precondition_frequency=steps + 2, preconditioner_dtype=torch.float64)
    if target == "sgd":
        ref = torch.optim.SGD(p1, lr=lr, momentum=mom, nesterov=nest, weight_decay=wd)
        okw = dict(betas=(0.0, 1.0), momentum=mom, use_nesterov=nest, use_decoupled_weight_decay=False, grafting_config=st.SGDGraftingConfig(), **common)
    elif target == "adagrad":
        ref = torch.optim.Adagrad(p1, lr=lr, eps=eps, weight_decay=wd)
        okw = dict(betas=(0.0, 1.0), use_decoupled_weight_decay=False, grafting_config=st.AdaGradGraftingConfig(epsilon=eps), **common)
    elif target == "rmsprop":
        ref = torch.optim.RMSprop(p1, lr=lr, alpha=b2, eps=eps, weight_decay=wd)
        okw = dict(betas=(0.0, b2), use_bias_correction=False, use_decoupled_weight_decay=False, grafting_config=st.RMSpropGraftingConfig(beta2=b2, epsilon=eps), **common)
    else:
        cls = torch.optim.Adam if target == "adam" else torch.optim.AdamW
        ref = cls(p1, lr=lr, betas=(b1, b2), eps=eps, weight_decay=wd)
        okw = dict(betas=(b1, b2), use_bias_correction=True, use_decoupled_weight_decay=(target == "adamw"), grafting_config=st.AdamGraftingConfig(beta2=b2, epsilon=eps), **common)
    opt = DistributedShampoo(p2, **okw)
    names = [(f"p{j}", q) for j, q in enumerate(p2_list)]
    # odd seeds: the Shampoo side is checkpointed and restored into a freshly constructed optimizer in the middle of the warm-up (the
    # correspondence with torch.optim must survive a save / load: everything the grafted method needs is in the state dict)
    reload_at = steps // 2 if seed % 2 == 1 else None
    # gradient-presence pattern: torch.optim skips a parameter whose grad is None entirely, and so must the grafted warm-up.  For the
    # bias-corrected Adam variants every gradient is present (Shampoo keeps one step counter per group — the property's own restriction).
    if target in ("adam", "adamw"):
        presence = [[True] * len(shapes) for _ in range(steps)]
    else:
        presence = [[rng.random() < 0.7 for _ in shapes] for _ in range(steps)]
        presence[0] = [True] * len(shapes)
        if len(shapes) >= 2 and steps >= 3:
            presence[1][0] = False                      # the first parameter (= the whole first group, see below) has no gradient at step 2 ...
            presence[1][1] = True                       # ... while a later group does
            presence[2][0] = True
    cfgd = dict(target=target, shapes=shapes, lr=lr, wd=wd, momentum=mom, nesterov=nest, betas=(b1, b2), eps=eps, maxdim=maxdim, merge=merge,
                presence=presence, groups=groups)
    for t in range(steps):
        for j, (a, b) in enumerate(zip(p1, p2_list)):
            g = torch.randn(a.shape, dtype=torch.float64)
            a.grad, b.grad = (g.clone(), g.clone()) if presence[t][j] else (None, None)
        if reload_at is not None and t == reload_at:
            import copy as _copy
            sd = _copy.deepcopy(opt.distributed_state_dict(key_to_param=iter(names)))
            opt = DistributedShampoo(mk_p2(), **okw)
            opt.load_distributed_state_dict(sd, key_to_param=iter(names))
            for j, (a, b) in enumerate(zip(p1, p2_list)):
                b.grad = a.grad.clone() if a.grad is not None else None
        ref.step()
        opt.step()
        for j, (a, b) in enumerate(zip(p1, p2_list)):
            # lr and the bias corrections are float32 tensors in the real step: 1 - beta2^t with beta2 = 0.999 carries a relative error of
            # ~5e-5 in float32, i.e. up to ~3e-5 * lr per step in the parameter (torch.optim computes them in float64)
            if not torch.allclose(a, b, rtol=2e-5, atol=max(2e-6, 3e-4 * lr)):
                return cfgd, f"step {t + 1}: parameter {j} differs from torch.optim.{target} by {float((a - b).abs().max()):.3e}"
    return cfgd, None


def _native_norm(seed, force=None):
    import torch
    from distributed_shampoo.distributed_shampoo import DistributedShampoo
    from distributed_shampoo import shampoo_types as st
    import random
    rng = random.Random(f"norm/{seed}")
    torch.manual_seed(1000 + seed)
    gname = rng.choice(["sgd", "adagrad", "rmsprop", "adam"])
    gc = dict(sgd=st.SGDGraftingConfig(), adagrad=st.AdaGradGraftingConfig(epsilon=1e-8), rmsprop=st.RMSpropGraftingConfig(beta2=0.9, epsilon=1e-8),
              adam=st.AdamGraftingConfig(beta2=0.9, epsilon=1e-8))[gname]
    shape = rng.choice([(4, 6), (5,), (3, 2, 2)])
    maxdim = rng.choice([2, 3, 1024])
    # Shampoo or eigenvalue-corrected Shampoo, optionally with an ignored dimension (1-D blocks then have no preconditioned dimension at all)
    soap = rng.random() < 0.4
    ignored = rng.choice([[], [0]])
    merge = True
    if force is not None:
        # blocks WITHOUT any preconditioned dimension (precondition() hands the gradient itself back): every dimension ignored, or an order-0 block
        gname, shape, ignored, merge, soap = force
        gc = dict(sgd=st.SGDGraftingConfig(), adagrad=st.AdaGradGraftingConfig(epsilon=1e-8), rmsprop=st.RMSpropGraftingConfig(beta2=0.9, epsilon=1e-8),
                  adam=st.AdamGraftingConfig(beta2=0.9, epsilon=1e-8))[gname]
        maxdim = 1024
    pcfg = (st.EigenvalueCorrectedShampooPreconditionerConfig if soap else st.ShampooPreconditionerConfig)(ignored_dims=ignored)
    lr = 0.1
    p = torch.nn.Parameter(torch.randn(shape, dtype=torch.float64))
    q = torch.nn.Parameter(p.detach().clone())
    kw = dict(lr=lr, betas=(0.0, 1.0), epsilon=1e-6, max_preconditioner_dim=maxdim, precondition_frequency=1, preconditioner_dtype=torch.float64, preconditioner_config=pcfg,
              use_merge_dims=merge)
    opt = DistributedShampoo([p], grafting_config=gc, start_preconditioning_step=1, **kw)
    gra = DistributedShampoo([q], grafting_config=gc, start_preconditioning_step=50, precondition_frequency=50,
                             **{k: v for k, v in kw.items() if k != "precondition_frequency"})
    for t in range(3):
        g = torch.randn(shape, dtype=torch.float64)
        p.grad, q.grad = g.clone(), g.clone()
        before_p = [b.clone() for b in opt._per_group_state_lists[0][st.DISTRIBUTOR].local_blocked_params]
        q.data.copy_(p.data)
        before_q = [b.clone() for b in gra._per_group_state_lists[0][st.DISTRIBUTOR].local_blocked_params]
        opt.step()
        gra.step()
        after_p = opt._per_group_state_lists[0][st.DISTRIBUTOR].local_blocked_params
        after_q = gra._per_group_state_lists[0][st.DISTRIBUTOR].local_blocked_params
        for j, (a0, a1, c0, c1) in enumerate(zip(before_p, after_p, before_q, after_q)):
            n_sh, n_gr = float((a1 - a0).norm()), float((c1 - c0).norm())
            if abs(n_sh - n_gr) > 2e-5 * max(1.0, n_gr):
                return dict(graft=gname, shape=shape, maxdim=maxdim, soap=soap, ignored_dims=ignored), f"step {t + 1} block {j}: ||Shampoo step|| = {n_sh:.6e} but grafted ||step|| = {n_gr:.6e}"
    return dict(graft=gname, shape=shape, maxdim=maxdim, soap=soap, ignored_dims=ignored), None


def _native_zero_block(seed):
    """a block whose gradient is identically zero has grafted norm 0: after warm-up its update must be exactly zero (never NaN/inf)"""
    import torch
    from distributed_shampoo.distributed_shampoo import DistributedShampoo
    from distributed_shampoo import shampoo_types as st
    torch.manual_seed(seed)
    for gc in (st.SGDGraftingConfig(), st.AdaGradGraftingConfig(epsilon=1e-8), st.AdamGraftingConfig(beta2=0.9, epsilon=1e-8)):
        p = torch.nn.Parameter(torch.randn(4, 2, dtype=torch.float64))
        opt = DistributedShampoo([p], lr=0.1, betas=(0.0, 1.0), epsilon=1e-6, max_preconditioner_dim=2, precondition_frequency=1, start_preconditioning_step=1,
                                 grafting_config=gc, preconditioner_dtype=torch.float64, use_merge_dims=False)
        for t in range(3):
            g = torch.randn(4, 2, dtype=torch.float64)
            g[2:4] = 0.0
            p.grad = g
            before = p.detach().clone()
            opt.step()
            if not torch.isfinite(p).all():
                return f"{type(gc).__name__}: step {t + 1}: a block with zero gradient made the parameters non-finite"
            if not torch.equal(p.detach()[2:4], before[2:4]):
                return f"{type(gc).__name__}: step {t + 1}: block with zero gradient (grafted norm 0) was moved by {float((p.detach()[2:4] - before[2:4]).abs().max()):.3e}"
    return None


def bounded(tier, seed):
    n = 6 if tier == "quick" else 60
    evals, viol, samples, distinct = 1, [], [], set()
    for target in TARGETS:
        for k in range(n):
            cfgd, bad = _native_traj(target, seed * 1000 + k)
            evals += 1
            distinct.add(repr(cfgd))
            if len(samples) < 3:
                samples.append(cfgd)
            if bad:
                viol.append(dict(ob=f"bounded/trajectory=torch.optim.{target}[seed={seed * 1000 + k}]", func="DistributedShampoo.step", input=cfgd,
                                 text="warm-up trajectory differs from torch.optim", detail=bad, replay=dict(kind="traj", target=target, seed=seed * 1000 + k)))
    bad = _native_zero_block(seed)
    if bad:
        viol.append(dict(ob="bounded/norm-transfer-zero-gradient-block", func="DistributedShampoo._precondition_and_grafting", input=dict(seed=seed), text=bad, detail=bad,
                         replay=dict(kind="zero_block", seed=seed)))
    for k in range(n):
        cfgd, bad = _native_norm(seed * 1000 + k)
        evals += 1
        distinct.add(repr(cfgd))
        if bad:
            viol.append(dict(ob=f"bounded/norm-transfer[seed={seed * 1000 + k}]", func="DistributedShampoo._precondition_and_grafting", input=cfgd,
                             text="per-block step norm differs from the grafted method's", detail=bad, replay=dict(kind="norm_native", seed=seed * 1000 + k)))
    for gname in ("sgd", "adagrad", "rmsprop", "adam"):
        for shape, ign, merge, soap in (((5,), [0], True, False), ((), [], False, False), ((2, 3), [0, 1], False, False), ((4,), [0], True, True)):
            force = (gname, shape, ign, merge, soap)
            try:
                cfgd, bad = _native_norm(seed, force=force)
            except BaseException as e:  # noqa
                cfgd, bad = dict(force=repr(force)), f"raised {type(e).__name__}: {str(e)[:200]}"
            evals += 1
            distinct.add(repr(force))
            if bad:
                viol.append(dict(ob=f"bounded/norm-transfer-no-preconditioned-dim[{gname},{shape},{ign}]", func="DistributedShampoo._precondition_and_grafting", input=dict(force=repr(force)),
                                 text="per-block step norm differs from the grafted method's for a block without any preconditioned dimension", detail=bad,
                                 replay=dict(kind="norm_forced", force=[gname, list(shape), ign, merge, soap], seed=seed)))
    return dict(evaluations=evals, distinct_nontrivial=len(distinct),
                rule="seeded random configurations (shapes of order 0..3, blocked/merged, lr, wd, momentum/Nesterov, betas, eps) x 4 steps of the real optimizer vs the real torch.optim class; per-block step norms vs a warm-up-only twin for norm transfer; distinct = distinct configurations",
                samples=samples, bound=f"{n} seeds per target, 4 steps, float64", violations=viol[:5])


def replay(r):
    return replay_file(dict(replay_input=r.get("replay"), verifier_output=dict(model=r.get("model"))))


def replay_file(doc):
    rp = doc.get("replay_input") or {}
    if rp.get("kind") == "norm_forced":
        f = rp["force"]
        cfgd, bad = _native_norm(rp.get("seed", 0), force=(f[0], tuple(f[1]), f[2], f[3], f[4]))
        return bool(bad), f"{cfgd}: {bad}"
    if rp.get("kind") == "traj":
        cfgd, bad = _native_traj(rp["target"], rp["seed"])
        return bool(bad), f"{cfgd}: {bad}"
    if rp.get("kind") == "norm_native":
        cfgd, bad = _native_norm(rp["seed"])
        return bool(bad), f"{cfgd}: {bad}"
    if rp.get("kind") == "plist":
        from checks import plist
        ok, detail = plist.replay_plist(rp, (doc.get("verifier_output") or {}).get("model") or {})
        if ok:
            return ok, detail
        for k in range(24):
            cfgd, bad = _native_norm(7000 + k)
            if bad:
                return True, f"{cfgd}: {bad}"
        return False, detail
    if rp.get("kind") == "stepflags":
        from checks import stepflags
        ok, detail = stepflags.replay_flags(rp, (doc.get("verifier_output") or {}).get("model") or {})
        if ok:
            return ok, detail
        for t in ("sgd", "adagrad", "rmsprop"):
            for k in range(12):
                cfgd, bad = _native_traj(t, 7000 + k)
                if bad:
                    return True, f"{cfgd}: {bad}"
        return False, detail
    if rp.get("kind") == "warmup":
        for k in range(12):
            cfgd, bad = _native_traj(rp["target"], 7000 + k)
            if bad:
                return True, f"{cfgd}: {bad}"
        return False, "12 seeded native trajectories agree with torch.optim"
    if rp.get("kind") == "zero_block":
        bad = _native_zero_block(rp["seed"])
        return bool(bad), str(bad)
    if rp.get("kind") in ("norm", "wiring"):
        bad = _native_zero_block(0)
        if bad:
            return True, bad
        for k in range(12):
            cfgd, bad = _native_norm(7000 + k)
            if bad:
                return True, f"{cfgd}: {bad}"
        for t in TARGETS:
            cfgd, bad = _native_traj(t, 7100)
            if bad:
                return True, f"{cfgd}: {bad}"
        return False, "native norm-transfer / trajectory runs agree"
    return False, "no native replayer"
