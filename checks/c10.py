"""C10 — matrix inverse root: dispatch, fast paths, solver flags and guards proved (E2); accuracy bound bounded only.

Level "other": the relative-error bound c*n*u*cond is a floating-point statement that no contract over uninterpreted
linear algebra can decide; it is sampled natively against a float64 spectral oracle.  Everything around the dense
kernels IS proved on the real code: dispatch on the config type with the config's own parameters, every raise
condition, the 1x1 and diagonal fast paths being the general spectral formula, `flag == CONVERGED => residual of the
returned M <= tolerance` for the Newton solver, the while/else flag semantics, the residual/NaN guard and the tf32
restore of the higher-order solver.
"""
from __future__ import annotations

from checks import mf

PROP = "C10"
LEVEL = "other"
FUNCS = [("matrix_functions.py", f) for f in ("matrix_inverse_root", "_matrix_inverse_root_diagonal", "_matrix_inverse_root_eigen", "_matrix_inverse_root_newton",
                                              "_matrix_inverse_root_higher_order", "matrix_eigenvalue_decomposition")]
TRUSTED = [
    "dense kernels (eigh, matmul, matrix_power, norms, trace) are uninterpreted: their numerical accuracy is NOT covered by any obligation",
    "iteration budgets: the while loops of both iterative solvers are under LOOP CONTRACTS (vlib/loops.py: pre / test / body / post segments compiled from the function's own statements on every run) — invariant established, preserved from ANY state, postcondition from ANY exit state, so the flag / residual-guard clauses hold for EVERY max_iterations (symbolic); additionally whole-function path enumeration for budgets {0,1,2} (Newton) and {1,2} x order {2,3} (higher-order). Extraction changes: `break` -> return; the pure try/finally wrapper of the higher-order solver is flattened and its finally suite (tf32 restore) is covered by the whole-function cases only. Termination is not proved. Higher-order `order` enumerated (2,3,5), roots from a fixed list of positive rationals; tolerance, epsilon, sizes symbolic",
    "accuracy clause (relative error <= c n u cond + tolerance) is BOUNDED ONLY: sizes 1..32 (quick) / 128 (thorough), graded and rank-deficient spectra, scales 1e-6..1e6, roots p/q, float32/float64, all four solver configurations, against a float64 spectral oracle",
]
ASSUMPTIONS = ["A symmetric PSD, epsilon > 0, root > 0 for the accuracy clause"]
EXPLANATION = ("structural clauses of C10 are discharged as proof obligations on the real matrix_functions code executed on symbolic matrices "
               "(uninterpreted linear algebra); the floating-point accuracy clause cannot be expressed by such contracts and is sampled natively (bounded stand-in, labelled)")


def cases(tier):
    cs = mf.dispatch_cases() + ["diag_eigen/diagonal"]
    cs += [f"newton/it{k}" for k in (0, 1, 2)]
    cs += [f"higher/it{k}/order{o}" for k in (1, 2) for o in (2, 3)]
    cs += ["loop/newton", "loop/higher/order2", "loop/higher/order3", "loop/higher/order5"]
    return cs


def run_case(case, tier, seed):
    if case.startswith("dispatch/"):
        return mf.run_dispatch(case)
    if case.startswith("diag_eigen/"):
        return mf.run_diag_eigen(case)
    if case == "loop/newton":
        return mf.run_newton_loop(case)
    if case.startswith("loop/higher"):
        return mf.run_higher_loop(case)
    if case.startswith("newton/"):
        return mf.run_newton(case)
    return mf.run_higher(case)


# ---- bounded accuracy tier -------------------------------------------------------------------------------


def _oracle(A64, root, eps):
    import torch
    lam, Q = torch.linalg.eigh(A64)
    lam = lam - min(float(lam.min()), 0.0) + eps
    return Q @ torch.diag(lam ** (-1.0 / float(root))) @ Q.T, float(lam.max() / lam.min())


def native_accuracy(n, kind, scale, root, dtname, cfgname, seed, eps_ratio=None):
    import torch
    from fractions import Fraction
    import matrix_functions as M
    from matrix_functions_types import CoupledHigherOrderConfig, CoupledNewtonConfig, EigenConfig
    g = torch.Generator().manual_seed(seed)
    dt = torch.float32 if dtname == "f32" else torch.float64
    u = 6e-8 if dtname == "f32" else 1.2e-16
    Q, _ = torch.linalg.qr(torch.randn(n, n, generator=g, dtype=torch.float64))
    if kind == "graded":
        lam = torch.logspace(0, -3 if dtname == "f32" else -6, n, dtype=torch.float64)
    elif kind == "rankdef":
        lam = torch.cat([torch.ones(max(n // 2, 1), dtype=torch.float64), torch.zeros(n - max(n // 2, 1), dtype=torch.float64)])
    elif kind == "repeated":
        lam = torch.ones(n, dtype=torch.float64)
    else:
        lam = torch.rand(n, generator=g, dtype=torch.float64) + 0.1
    A64 = (Q * (lam * scale).unsqueeze(0)) @ Q.T
    A64 = (A64 + A64.T) / 2
    eps = 1e-3 * scale if dtname == "f32" else 1e-6 * scale
    if eps_ratio is not None:  # epsilon comparable to / larger than ||A||_F (small-scale or low-rank factors)
        eps = eps_ratio * float(A64.norm())
    cfg = dict(eigen=EigenConfig(), stab=EigenConfig(enhance_stability=True, exponent_multiplier=1.5), newton=CoupledNewtonConfig(max_iterations=200, tolerance=1e-6 if dtname == "f32" else 1e-10),
               higher=CoupledHigherOrderConfig(max_iterations=100, tolerance=1e-7 if dtname == "f32" else 1e-12))[cfgname]
    if cfgname == "newton" and Fraction(root).denominator != 1:
        return None
    want, cond = _oracle(A64, root, eps)
    try:
        Ain = A64.to(dt)
        if (n + len(kind) + Fraction(root).numerator + len(cfgname) + seed) % 2 == 1:
            # the same symmetric matrix in column-major memory layout (a transposed view, as torch.linalg.* outputs are): strides must not matter
            Ain = (A64.T.contiguous().to(dt)).T
        X = M.matrix_inverse_root(Ain, Fraction(root), root_inv_config=cfg, epsilon=eps)
    except ArithmeticError:
        return None  # the higher-order solver may raise rather than return an inaccurate result
    except Exception as e:
        return f"raised {type(e).__name__}: {e}"
    if not torch.isfinite(X).all():
        return "result contains NaN/Inf"
    rel = float((X.double() - want).norm() / want.norm())
    tolsolver = 0.0 if cfgname in ("eigen", "stab") else (1e-6 if dtname == "f32" else 1e-10)
    bound = 200 * n * u * cond + 200 * tolsolver * cond + (1e-5 if dtname == "f32" else 1e-12)
    if cond * n * u * 200 > 0.3:
        return None  # condition number beyond the dtype's resolution: outside the property's domain
    if rel > bound:
        return f"relative error {rel:.3e} exceeds 200*n*u*cond + solver tolerance = {bound:.3e} (n={n}, cond={cond:.2e})"
    return None


def native_guard(n, cond_exp, dtname, root, seed, tol=1e-8):
    """the higher-order solver must raise rather than return a result whose residual |A_ridge X^p - I|_inf exceeds its guard (0.1)"""
    import torch
    from fractions import Fraction
    import matrix_functions as M
    from matrix_functions_types import CoupledHigherOrderConfig
    g = torch.Generator().manual_seed(seed)
    dt = torch.float32 if dtname == "f32" else torch.float64
    Q, _ = torch.linalg.qr(torch.randn(n, n, generator=g, dtype=torch.float64))
    lam = torch.logspace(0, -cond_exp, n, dtype=torch.float64)
    A = ((Q * lam.unsqueeze(0)) @ Q.T)
    A = ((A + A.T) / 2).to(dt)
    eps = 10.0 ** (-cond_exp - 2)
    r = Fraction(root)
    try:
        X = M.matrix_inverse_root(A, r, root_inv_config=CoupledHigherOrderConfig(max_iterations=100, tolerance=tol), epsilon=eps)
    except ArithmeticError:
        return None
    except Exception as e:
        return f"raised {type(e).__name__}: {e}"
    if not torch.isfinite(X).all():
        return "returned a non-finite result instead of raising"
    Ar = A + eps * torch.eye(n, dtype=dt)
    Xp = torch.linalg.matrix_power(torch.linalg.matrix_power(X, r.numerator), 1) if r.denominator == 1 else None
    if Xp is None:
        return None
    res = float(torch.linalg.vector_norm(Ar @ Xp - torch.eye(n, dtype=dt), float("inf")))
    if res > 0.1 * 1.5:
        return f"returned a result with residual {res:.3e} > guard 0.1 (n={n}, cond=1e{cond_exp}, {dtname})"
    return None


def bounded(tier, seed):
    import itertools
    from fractions import Fraction
    sizes = (1, 2, 3, 5, 8, 16) if tier == "quick" else (1, 2, 3, 5, 8, 16, 32, 64, 128)
    evals, viol, distinct = 0, [], set()
    for n, kind, scale, root, dtn, cfgn in itertools.product(sizes, ("random", "graded", "rankdef", "repeated"), (1e-6, 1.0, 1e6) if tier != "quick" else (1e-3, 1.0, 1e3),
                                                            (Fraction(2), Fraction(4), Fraction(1), Fraction(8, 3)) if tier != "quick" else (Fraction(2), Fraction(4), Fraction(4, 3)),
                                                            ("f32", "f64"), ("eigen", "stab", "newton", "higher")):
        bad = native_accuracy(n, kind, scale, root, dtn, cfgn, seed)
        evals += 1
        distinct.add((n, kind, scale, str(root), dtn, cfgn))
        if bad and len(viol) < 5:
            viol.append(dict(ob=f"bounded/accuracy[{n},{kind},{scale},{root},{dtn},{cfgn}]", func="matrix_inverse_root", input=dict(n=n, spectrum=kind, scale=scale, root=str(root), dtype=dtn, config=cfgn),
                             text=bad, detail=bad, replay=dict(kind="accuracy", n=n, spectrum=kind, scale=scale, root=[root.numerator, root.denominator], dt=dtn, cfg=cfgn, seed=seed)))
    # residual guard of the higher-order solver on ill-conditioned input
    for n, ce, dtn, root in itertools.product((4, 8, 16), (4, 6, 8, 10), ("f32", "f64"), (2, 4)):
        for k in range(1 if tier == "quick" else 4):
            # tolerances the iteration can and cannot reach in float32: a run that reports CONVERGED must still pass the residual guard
            bad = native_guard(n, ce, dtn, root, seed * 10 + k) or native_guard(n, ce, dtn, root, seed * 10 + k, tol=1e-3) or native_guard(n, ce, dtn, root, seed * 10 + k, tol=1e-5)
            evals += 3
            distinct.add(("guard", n, ce, dtn, root, k))
            if bad and len(viol) < 5:
                viol.append(dict(ob=f"bounded/higher-order-guard[{n},1e{ce},{dtn},{root}]", func="_matrix_inverse_root_higher_order", input=dict(n=n, cond_exp=ce, dtype=dtn, root=root), text=bad, detail=bad,
                                 replay=dict(kind="guard", n=n, ce=ce, dt=dtn, root=root, seed=seed * 10 + k)))
    # epsilon of the order of ||A||_F and beyond
    for n, kind, ratio, root, dtn, cfgn in itertools.product((2, 5, 8), ("random", "rankdef"), (0.1, 1.0, 10.0, 100.0), (Fraction(2), Fraction(4)), ("f32", "f64"), ("eigen", "newton", "higher")):
        bad = native_accuracy(n, kind, 1.0, root, dtn, cfgn, seed, eps_ratio=ratio)
        evals += 1
        distinct.add((n, kind, "ratio", ratio, str(root), dtn, cfgn))
        if bad and len(viol) < 5:
            viol.append(dict(ob=f"bounded/accuracy-large-epsilon[{n},{kind},eps/|A|={ratio},{root},{dtn},{cfgn}]", func="matrix_inverse_root", input=dict(n=n, spectrum=kind, eps_over_normA=ratio, root=str(root), dtype=dtn, config=cfgn),
                             text=bad, detail=bad, replay=dict(kind="accuracy", n=n, spectrum=kind, scale=1.0, root=[root.numerator, root.denominator], dt=dtn, cfg=cfgn, seed=seed, ratio=ratio)))
    # fast paths equal the general path
    import torch
    import matrix_functions as M
    for k in range(20):
        d = torch.rand(4, dtype=torch.float64) + 0.1
        A = torch.diag(d)
        a = M.matrix_inverse_root(A, Fraction(4), epsilon=1e-6, is_diagonal=True)
        b = M.matrix_inverse_root(A, Fraction(4), epsilon=1e-6, is_diagonal=False)
        evals += 1
        if not torch.allclose(a, b, rtol=1e-9, atol=1e-12) and len(viol) < 5:
            viol.append(dict(ob="bounded/diagonal-fast-path=general", func="matrix_inverse_root", input=dict(diag=d.tolist()), text="diagonal fast path differs from the general path", detail="", replay=None))
    bad = mf.native_eigen_value()
    evals += 1
    distinct.add(("eigen-value-and-repeatability",))
    if bad:
        viol.append(dict(ob="bounded/eigen-root-value-and-repeatability", func="_matrix_inverse_root_eigen", input=dict(configs=["default", "enhance_stability"], calls_per_size=2), text=bad, detail=bad, replay=dict(kind="eigen")))
    return dict(evaluations=evals, distinct_nontrivial=len(distinct),
                rule="sizes x spectra (random, graded, rank-deficient, repeated) x scales x roots p/q x {float32,float64} x {eigen, eigen+stability, coupled Newton, coupled higher-order} against a float64 spectral oracle; threshold 200*n*u*cond + solver tolerance; a raising higher-order solver is accepted; distinct = distinct parameter tuples",
                samples=[dict(n=8, spectrum="graded", scale=1.0, root="4", dtype="f32", config="newton")], bound=f"sizes {sizes}", violations=viol)


def replay(r):
    return replay_file(dict(replay_input=r.get("replay"), verifier_output=dict(model=r.get("model"))))


def replay_file(doc):
    from fractions import Fraction
    rp = doc.get("replay_input") or {}
    if rp.get("kind") == "accuracy":
        bad = native_accuracy(rp["n"], rp["spectrum"], rp["scale"], Fraction(*rp["root"]), rp["dt"], rp["cfg"], rp["seed"], eps_ratio=rp.get("ratio"))
        return bool(bad), f"{rp}: {bad}"
    if rp.get("kind") == "guard":
        bad = native_guard(rp["n"], rp["ce"], rp["dt"], rp["root"], rp["seed"]) or native_guard(rp["n"], rp["ce"], rp["dt"], rp["root"], rp["seed"], tol=1e-3) or native_guard(rp["n"], rp["ce"], rp["dt"], rp["root"], rp["seed"], tol=1e-5)
        return bool(bad), f"{rp}: {bad}"
    if rp.get("kind") in ("dispatch", "newton", "higher", "eigen"):
        import itertools
        if rp.get("kind") == "higher":
            for n, ce, dtn, root in itertools.product((4, 8, 16), (6, 8, 10), ("f32",), (2, 4)):
                for k in range(3):
                    bad = native_guard(n, ce, dtn, root, k) or native_guard(n, ce, dtn, root, k, tol=1e-3) or native_guard(n, ce, dtn, root, k, tol=1e-5)
                    if bad:
                        return True, f"n={n} cond=1e{ce} {dtn} root={root}: {bad}"
        for n, kind, root, dtn, cfgn in itertools.product((1, 3, 8), ("random", "graded", "rankdef"), (Fraction(2), Fraction(4, 3)), ("f32", "f64"), ("eigen", "stab", "newton", "higher")):
            for scale in (1e-3, 1.0, 1e3):
                bad = native_accuracy(n, kind, scale, root, dtn, cfgn, 0)
                if bad:
                    return True, f"n={n} {kind} scale={scale} root={root} {dtn} {cfgn}: {bad}"
            for ratio in (1.0, 10.0, 100.0):
                bad = native_accuracy(n, kind, 1.0, root, dtn, cfgn, 0, eps_ratio=ratio)
                if bad:
                    return True, f"n={n} {kind} eps/||A||={ratio} root={root} {dtn} {cfgn}: {bad}"
        return False, "native accuracy sweep passes"
    return False, "no native replayer"
