"""C01 — every step follows the documented Shampoo update rule.

Functions under contract (engine E2, the real code executed on symbolic tensors / scalars):
  * DistributedShampoo._per_group_step_impl + its six helpers + Distributor.update_params + the real
    Adagrad/SGD grafting lists, against `spec_step` (checks/stepmodel.py), Shampoo list by contract [P];
  * DistributedShampoo.step: schedule flags, argument wiring, skip rule, per-group frame;
  * list classes of shampoo_preconditioner_list.py (see checks/plist.py) — factor recurrences, root selection,
    refresh, mode-wise preconditioning.
"""
from __future__ import annotations

import z3

from vlib.driver import prove, result
from vlib.sym import Explorer, SymBool, SymInt, SymReal
from checks import stepmodel as sm
from checks.stepmodel import IDX, SymAlg

PROP = "C01"
LEVEL = "proof"
FUNCS = [
    ("distributed_shampoo/distributed_shampoo.py", "DistributedShampoo._per_group_step_impl"),
    ("distributed_shampoo/distributed_shampoo.py", "DistributedShampoo._add_l2_regularization"),
    ("distributed_shampoo/distributed_shampoo.py", "DistributedShampoo._update_preconditioners"),
    ("distributed_shampoo/distributed_shampoo.py", "DistributedShampoo._compute_filtered_grad_list"),
    ("distributed_shampoo/distributed_shampoo.py", "DistributedShampoo._precondition_and_grafting"),
    ("distributed_shampoo/distributed_shampoo.py", "DistributedShampoo._apply_decoupled_weight_decay"),
    ("distributed_shampoo/distributed_shampoo.py", "DistributedShampoo._update_momentum"),
    ("distributed_shampoo/distributed_shampoo.py", "DistributedShampoo.step"),
    ("distributed_shampoo/distributed_shampoo.py", "DistributedShampoo._instantiate_shampoo_preconditioner_list"),
    ("distributed_shampoo/distributed_shampoo.py", "DistributedShampoo._instantiate_steps"),
    ("distributed_shampoo/distributed_shampoo.py", "DistributedShampoo._instantiate_momentum"),
    ("distributed_shampoo/distributed_shampoo.py", "DistributedShampoo._instantiate_filtered_grads"),
    ("distributed_shampoo/utils/shampoo_preconditioner_list.py", "ShampooPreconditionerList.precondition"),
    ("distributed_shampoo/utils/shampoo_preconditioner_list.py", "ShampooPreconditionerList._amortized_computation"),
    ("distributed_shampoo/utils/shampoo_preconditioner_list.py", "BaseShampooPreconditionerList._update_factor_matrices"),
    ("distributed_shampoo/utils/shampoo_preconditioner_list.py", "BaseShampooPreconditionerList._precondition_grad"),
    ("distributed_shampoo/utils/shampoo_preconditioner_list.py", "BaseShampooPreconditionerList._get_inverse_roots_from_override_with_high_order_default"),
    ("distributed_shampoo/utils/shampoo_distributor.py", "Distributor.update_params"),
    ("matrix_functions.py", "check_diagonal"),
    ("matrix_functions.py", "_matrix_inverse_root_eigen"),
    ("matrix_functions.py", "_matrix_inverse_root_diagonal"),
    ("distributed_shampoo/utils/shampoo_preconditioner_list.py", "AdagradPreconditionerList.update_preconditioners"),
    ("distributed_shampoo/utils/shampoo_preconditioner_list.py", "AdagradPreconditionerList.precondition"),
    ("distributed_shampoo/utils/shampoo_preconditioner_list.py", "SGDPreconditionerList.precondition"),
]
TRUSTED = [
    "machine arithmetic treated as mathematical (IEEE rounding, float32 cast of lr, bfloat16 accumulation not modelled)",
    "assumed contracts of torch ops: _foreach_{add,mul,div,lerp,copy,addcmul,sqrt,norm}(_) are pointwise / Frobenius norm; in-place variants mutate their first list only",
    "x**y for symbolic exponent is an uninterpreted function (same symbol in code and spec)",
    "block-count parametricity: obligations are discharged on two generic blocks (aligned pointwise programs act independently per index); list discipline checked by the alignment log",
    "Shampoo preconditioner list by contract [P] (verified separately in checks/plist.py)",
    "CPython executes the real function objects; z3 5.1 NRA + arrays",
]
ASSUMPTIONS = ["hyperparameters in the constructor domain (C17); filtered-gradient / momentum buffers exist iff beta1 != 0 / momentum != 0 at construction"]
EXPLANATION = "post-heap of (w, F, M, V, bias corrections) after the real _per_group_step_impl equals spec_step on every feasible flag path, for all real values, at a generic element of two generic blocks"

KNOWN = "F1"


def cases(tier):
    cs = []
    for graft in ("none", "sgd", "ada"):
        for alias in ("fresh", "alias"):
            for dec in ("coupled", "decoupled"):
                for fg in ("f0", "f1"):
                    cs.append(f"group_step/{graft}/{alias}/{dec}/{fg}")
    from checks import plist
    cs += plist.shampoo_cases(tier)
    cs += ["wiring/instantiate", "wiring/defaults", "wiring/steps-per-group", "contract/check_diagonal", "contract/inverse_root/eigen", "contract/inverse_root/diagonal"]
    for a in "01":
        for b in "01":
            for c in "01":
                for d in "01":
                    cs.append(f"step/flags/g{a}{b}n{c}{d}")
    return cs


def _f1_condition(h, alias, graft):
    """Characteristic condition of known finding F1: beta1 != 0, beta3 == beta1, no bias correction, and the search
    direction aliases the filtered-gradient state (SGD grafting during warm-up, or a Shampoo list that returns its
    input for blocks without a preconditioned dimension)."""
    c = z3.And(h["beta1"].t != 0, h["beta3"].t == h["beta1"].t, z3.Not(h["bias"].t))
    al = []
    if graft == "sgd":
        al.append(h["use_graft"].t)
    if alias:
        al.append(z3.Not(h["use_graft"].t) if graft is not None else z3.BoolVal(True))
    return z3.And(c, z3.Or(*al)) if al else z3.BoolVal(False)


def _group_step_case(case, tier):
    _, graft, alias, dec, fg = case.split("/")
    graft = None if graft == "none" else graft
    alias = alias == "alias"
    NB = 2
    func = "DistributedShampoo._per_group_step_impl"

    def fn():
        h = sm.make_hyper(graft)
        from vlib.sym import assume
        for c in sm.hyper_domain(h):
            assume(c)
        assume(h["decoupled"].t == (dec == "decoupled"))
        assume((h["beta1"].t == 0) == (fg == "f0"))
        blocks = sm.make_blocks(NB, graft=graft)
        stub, gobj, step_t = sm.run_group_step(h, blocks, alias=alias)
        return h, blocks, stub, gobj, step_t

    ex = Explorer()
    paths = ex.run(fn)
    out = []
    mv_names = ["lr", "beta1", "beta3", "weight_decay", "momentum", "dampening", "graft_beta2", "graft_epsilon", "bc2g_prev"]
    for pi, p in enumerate(paths):
        tag = f"[{case}]#p{pi}"
        if p.outcome != "return":
            st = "unknown" if p.outcome == "abort" else "violated"
            out.append(result(f"{func}/no-exception{tag}", func, st, text=f"{p.outcome}: {p.value!r}", case=case,
                              model=None, replay=None))
            continue
        h, blocks, stub, gobj, step_t = p.value
        hyp = p.cond()
        mv = {n: z3.Real(n) for n in mv_names}
        mv.update({n: z3.Bool(n) for n in ("use_decoupled_weight_decay", "use_bias_correction", "use_nesterov",
                                            "use_grafting_method", "perform_amortized_computation", "graft_bias_correction")})
        mv["step"] = z3.Int("step")
        mv["idx"] = IDX
        known = [(KNOWN, _f1_condition(h, alias, graft))]
        rp = dict(kind="group_step", graft=graft, alias=alias)
        for b in range(NB):
            s = sm.spec_state(b, graft)
            for nm in ("w", "g", "F", "M", "V"):
                if nm in s and isinstance(s[nm], sm.SymTensor):
                    mv[f"{nm}{b}[idx]"] = s[nm].at(IDX)
            sp = sm.spec_step(SymAlg, h, s, sm.psh_spec(b, alias))
            post = blocks[b]
            for nm, label in (("w", "parameter"), ("F", "filtered-gradient"), ("M", "momentum"), ("V", "grafting-accumulator")):
                if post.get(nm) is None or nm not in sp:
                    continue
                goal = post[nm].at(IDX) == sp[nm].at(IDX)
                out.append(prove(f"{func}/post.{label}=spec{tag}/b{b}", func, hyp, goal, model_vars=mv, known=known,
                                 text=f"{label} of block {b} after the step equals the documented recurrence", replay=rp,
                                 case=case))
            if graft == "ada":
                goal = gobj._bias_correction2.at(IDX) == sp["bc2g"].t if isinstance(sp["bc2g"], SymReal) else \
                    gobj._bias_correction2.at(IDX) == sp["bc2g"].at(IDX)
                if b == 0:
                    out.append(prove(f"{func}/post.graft-bias-correction=spec{tag}", func, hyp, goal, model_vars=mv,
                                     text="grafting bias correction 1-beta2^t iff flag and beta2<1", replay=rp, case=case))
        # contract [P] call protocol: update_preconditioners exactly once, before any precondition, on g~, step, flag
        ups = [e for e in stub.log if e[0] == "update"]
        pre = [e for e in stub.log if e[0] == "precondition"]
        order_ok = len(ups) == 1 and stub.log[0][0] == "update" and len(pre) <= 1
        out.append(result(f"{func}/P.update-once-before-precondition{tag}", func, "discharged" if order_ok else "violated",
                          backend="call-log", text="Shampoo list: update_preconditioners exactly once and first", case=case,
                          replay=rp, model=dict(log=[e[0] for e in stub.log])))
        if order_ok:
            u = ups[0]
            goals = []
            for b in range(NB):
                s = sm.spec_state(b, graft)
                sp = sm.spec_step(SymAlg, h, s, sm.psh_spec(b, alias))
                goals.append(z3.Select(u[1][b], IDX) == sp["gt"].at(IDX))
            same_args = u[2] is step_t and u[3] is h["pac"]
            out.append(prove(f"{func}/P.update-args{tag}", func, hyp, z3.And(z3.BoolVal(same_args), *goals), model_vars=mv,
                             text="update_preconditioners receives g~ = g + wd*w (coupled) else g, the step tensor and the refresh flag",
                             replay=rp, case=case))
            if pre:
                goals = []
                for b in range(NB):
                    s = sm.spec_state(b, graft)
                    sp = sm.spec_step(SymAlg, h, s, sm.psh_spec(b, alias))
                    goals.append(z3.Select(pre[0][1][b], IDX) == sp["ghat"].at(IDX))
                out.append(prove(f"{func}/P.precondition-arg=filtered-gradient{tag}", func, hyp, z3.And(*goals), model_vars=mv,
                                 known=known, text="Shampoo precondition() receives the bias-corrected filtered gradient", replay=rp, case=case))
            elif graft is None:
                out.append(result(f"{func}/P.precondition-called{tag}", func, "violated", text="Shampoo precondition never called", case=case))
    # covers / canary
    okp = [p for p in paths if p.outcome == "return"]
    out.append(result(f"{func}/cover:paths[{case}]", func, "violated" if okp else "discharged", kind="cover", case=case,
                      text=f"{len(okp)} feasible returning paths", extra=dict(paths=len(paths))))
    if okp:
        h, blocks, stub, *_ = okp[0].value
        ups = [e for e in stub.log if e[0] == "update"]
        if ups:
            out.append(prove(f"{func}/canary:update-arg-is-param[{case}]", func, okp[0].cond(),
                             z3.Select(ups[0][1][0], IDX) == z3.Select(z3.Array("w0", z3.IntSort(), z3.RealSort()), IDX),
                             kind="canary", text="deliberately false: the gradient handed to the preconditioner equals the parameter", case=case))
    return out


_H = dict(lr="lr", beta1="beta1", beta3="beta3", wd="weight_decay", mu="momentum", damp="dampening", beta2g="graft_beta2",
          eps_g="graft_epsilon", bc2g_prev="bc2g_prev", decoupled="use_decoupled_weight_decay", bias="use_bias_correction",
          nesterov="use_nesterov", use_graft="use_grafting_method", pac="perform_amortized_computation",
          bias_g="graft_bias_correction", t="step")


def replay(r):
    return replay_file(dict(replay_input=r.get("replay"), verifier_output=dict(model=r.get("model"))))


def replay_file(doc):
    rp, m = doc.get("replay_input") or {}, (doc.get("verifier_output") or {}).get("model") or {}
    if rp.get("kind") == "bounded_group_step":
        rows = sm.native_group_step(rp["hv"], rp["blocks"], rp["graft"], rp["alias"])
        bad = sm.native_mismatches(rows)
        return bool(bad), "; ".join(bad) or "post-state equals the documented rule"
    if rp.get("kind") == "e2e":
        from checks import e2e
        cfg, shapes, hist = e2e.random_case(rp["seed"])
        try:
            bad = e2e.run_history(cfg, shapes, hist, rp["seed"])
        except BaseException as ex:  # noqa
            bad = f"real optimizer raised {type(ex).__name__}: {ex}"
        return bool(bad), f"config {cfg} shapes {shapes} presence {hist}: {bad}"
    if rp.get("kind") in ("eigen", "diag_any_sign", "scalar1x1"):
        from checks import c11
        return c11.replay_file(doc)
    if rp.get("kind") == "two_group_steps":
        from checks import wiring
        bad = wiring.native_two_group_steps()
        return bool(bad), bad or "per-group step counters advance independently"
    if rp.get("kind") == "checkdiag":
        from checks import mf
        bad = mf.native_checkdiag()
        return bool(bad), bad or "check_diagonal is exact on tiny off-diagonal entries"
    if rp.get("kind") == "stepflags":
        from checks import stepflags
        return stepflags.replay_flags(rp, m)
    if rp.get("kind") == "plist":
        from checks import plist
        return plist.replay_plist(rp, m)
    if rp.get("kind") != "group_step" or not m:
        return False, "no native replayer for this obligation family"
    hv = {k: m.get(v) for k, v in _H.items()}
    for k in ("decoupled", "bias", "nesterov", "use_graft", "pac", "bias_g"):
        hv[k] = bool(hv[k]) if hv[k] is not None else False
    for k in ("beta2g", "eps_g", "bc2g_prev"):
        hv[k] = 1.0 if hv[k] is None else hv[k]
    blocks = [{nm: m.get(f"{nm}{b}[idx]") for nm in ("w", "g", "F", "M", "V")} for b in range(2)]
    for b in blocks:
        if rp["graft"] != "ada":
            b["V"] = None
    try:
        rows = sm.native_group_step(hv, blocks, rp["graft"], rp["alias"])
    except BaseException as e:  # noqa
        return True, f"real _per_group_step_impl raised {type(e).__name__}: {e} on hyper={hv} blocks={blocks}"
    bad = sm.native_mismatches(rows)
    return bool(bad), (f"hyper={hv} blocks={blocks}: " + "; ".join(bad)) if bad else f"hyper={hv}: post-state equals the documented rule natively"


def run_case(case, tier, seed):
    if case.startswith("group_step/"):
        return _group_step_case(case, tier)
    if case.startswith("contract/inverse_root/"):
        # contract [M] of the root computation the list classes call (spectral formula of the eigendecomposition path incl. the
        # enhance_stability variant, diagonal fast path): re-discharged here on the real matrix_functions code
        from checks import mf
        return mf.run_diag_eigen("diag_eigen/" + case.rsplit("/", 1)[1])
    if case == "contract/check_diagonal":
        # contract [D] the list classes rely on (the flag selects the diagonal fast path of the root computation): re-discharged here on
        # the real matrix_functions.check_diagonal so that a change to it is reported by this property's own check
        from checks import mf
        return mf.run_checkdiag(case)
    if case == "wiring/steps-per-group":
        from checks import wiring
        return wiring.run_steps_two_groups(case, tier)
    if case == "wiring/instantiate":
        from checks import wiring
        return wiring.run(case, tier)
    if case == "wiring/defaults":
        from checks import wiring
        return wiring.run_defaults(case, tier)
    if case.startswith("plist/"):
        from checks import plist
        return plist.run_list_case(case, tier, PROP)
    if case.startswith("step/flags"):
        from checks import stepflags
        return stepflags.run(case, tier)
    raise KeyError(case)


# ---- bounded stand-in: the real optimizer end to end against the float64 reference interpreter --------------


def bounded(tier, seed):
    from checks import e2e
    n = 60 if tier == "quick" else 1200
    evals, viol, distinct, samples = 0, [], set(), []
    for k in range(n):
        sd = seed * 100000 + k
        cfg, shapes, hist = e2e.random_case(sd)
        try:
            bad = e2e.run_history(cfg, shapes, hist, sd)
        except BaseException as ex:  # noqa
            bad = f"real optimizer raised {type(ex).__name__}: {ex}"
        evals += 1
        distinct.add(repr((cfg, shapes, hist)))
        if len(samples) < 2:
            samples.append(dict(config={k2: str(v) for k2, v in cfg.items()}, shapes=[list(s) for s in shapes], presence_history=hist))
        if bad and len(viol) < 5:
            viol.append(dict(ob=f"bounded/end-to-end[seed={sd}]", func="DistributedShampoo.step", input=dict(config={k2: str(v) for k2, v in cfg.items()}, shapes=shapes, history=hist),
                             text="real optimizer deviates from the documented update rule", detail=bad, replay=dict(kind="e2e", seed=sd)))
    return dict(evaluations=evals, distinct_nontrivial=len(distinct),
                rule="seeded random configurations (all grafting kinds, decay modes, momentum/Nesterov, beta3, bias correction, root overrides, ignored dims, blocking/merging, refresh schedules) x 1..3 parameters of order 0..4 x 4..8 steps with absent gradients; real optimizer vs an independent float64 reference of the documented algorithm; parameters and all checkpointable state compared after every step; distinct = distinct (config, shapes, history)",
                samples=samples, bound=f"{n} seeded cases, float64, tolerance 3e-5 (lr and bias corrections are float32 in the real step)", violations=viol)
