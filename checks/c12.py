"""C12 — eigenvector routines: control / structure proved (E2), numerics bounded.

Proved on the real `matrix_eigenvectors`, `_compute_orthogonal_iterations`, `check_diagonal`: 1x1 -> ones; diagonal flag ->
eye(n, A.dtype); shape rejection; eigh config -> the eigenvector matrix of eigh(A); QR config: zero estimate -> eigh fallback,
otherwise 1..max_iterations updates Q <- qr(A @ Q).Q from the estimate and a final column permutation by ascending Rayleigh
quotient; unknown config -> NotImplementedError.  Orthonormality / ordering / diagonalisation follow from the ASSUMED
eigh and qr contracts; the fixed-point clause and all floating-point residuals are sampled natively (bounded).
"""
from __future__ import annotations

from checks import mf

PROP = "C12"
LEVEL = "other"
FUNCS = [("matrix_functions.py", f) for f in ("matrix_eigenvectors", "_compute_orthogonal_iterations", "matrix_eigenvalue_decomposition", "check_diagonal")]
TRUSTED = [
    "ASSUMED LAPACK contracts: eigh returns orthonormal eigenvectors with ascending eigenvalues that diagonalise A; qr(M).Q is orthonormal with the column space of M; a column permutation preserves orthonormality",
    "QR loop under a LOOP CONTRACT (vlib/loops.py, segments compiled from the function's own statements on every run): for EVERY max_iterations (symbolic) each iteration is Q <- qr(A @ Q).Q of the current Q, no iteration happens only for an empty budget (initial error is inf), and the result is the final Q column-sorted by Rayleigh quotient; additionally whole-function enumeration with max_iterations = 2. Termination not proved",
    "orthonormality, ordering, diagonalisation residuals and the fixed-point-up-to-sign clause are BOUNDED ONLY (sizes 1..32 / 64, repeated eigenvalues, float32/float64)",
]
ASSUMPTIONS = ["A symmetric"]
EXPLANATION = ("control flow and data flow around the dense kernels are discharged as proof obligations on the real code; the numerical properties of the returned bases "
               "rest on assumed LAPACK contracts and are sampled natively (bounded stand-in)")


def cases(tier):
    cs = [f"eigvec/{c}/{s}/{d}" for c in ("eigh", "qr", "unknown") for s in ("scalar0", "scalar11", "vec", "rect", "cube", "square") for d in ("d0", "d1")]
    return cs + ["checkdiag", "loop/qr"]


def run_case(case, tier, seed):
    if case == "loop/qr":
        return mf.run_qr_loop(case)
    if case.startswith("eigvec/"):
        return mf.run_eigvec(case)
    return mf.run_checkdiag(case)


def native_eigvec(n, kind, dtname, method, seed):
    import torch
    import matrix_functions as M
    from matrix_functions_types import EighEigenvectorConfig, QRConfig
    g = torch.Generator().manual_seed(seed)
    dt = torch.float32 if dtname == "f32" else torch.float64
    tol = 2e-4 if dtname == "f32" else 1e-9
    Qm, _ = torch.linalg.qr(torch.randn(n, n, generator=g, dtype=torch.float64))
    lam = torch.rand(n, generator=g, dtype=torch.float64) + 0.1
    if kind == "repeated" and n > 2:
        lam[: n // 2] = lam[0]
    if kind == "singular" and n > 1:
        lam[: max(1, n // 3)] = 0.0  # rank-deficient PSD (in the property's domain)
    lam = torch.sort(lam).values
    A = ((Qm * lam.unsqueeze(0)) @ Qm.T)
    A = ((A + A.T) / 2).to(dt)
    eye = torch.eye(n, dtype=torch.float64)
    if method == "eigh":
        Q = M.matrix_eigenvectors(A, eigenvector_computation_config=EighEigenvectorConfig()).double()
        if float((Q.T @ Q - eye).abs().max()) > tol:
            return "eigh: basis not orthonormal"
        D = Q.T @ A.double() @ Q
        if float((D - torch.diag(torch.diagonal(D))).abs().max()) > tol * 10:
            return "eigh: Q^T A Q not diagonal"
        d = torch.diagonal(D)
        if n > 1 and float((d[1:] - d[:-1]).min()) < -tol * 10:
            return "eigh: eigenvalues not ascending"
        return None
    if method == "flags":
        if not torch.equal(M.matrix_eigenvectors(A, is_diagonal=True), torch.eye(n, dtype=dt)) and n > 1:
            return "diagonal flag does not yield the identity"
        one = M.matrix_eigenvectors(torch.tensor([[3.0]], dtype=dt))
        if not torch.equal(one, torch.ones(1, 1, dtype=dt)):
            return "1x1 input does not yield one"
        # results are fresh tensors: a caller that post-processes a returned basis in place must not change what later calls return
        for cfg_ in (EighEigenvectorConfig(), QRConfig(max_iterations=1, tolerance=0.0)):
            r1 = M.matrix_eigenvectors(A, eigenvector_computation_config=cfg_, is_diagonal=True)
            r1.mul_(-3.0)
            o1 = M.matrix_eigenvectors(torch.tensor([[3.0]], dtype=dt), eigenvector_computation_config=cfg_)
            o1.add_(5.0)
            r2 = M.matrix_eigenvectors(A, eigenvector_computation_config=cfg_, is_diagonal=True)
            o2 = M.matrix_eigenvectors(torch.tensor([[3.0]], dtype=dt), eigenvector_computation_config=cfg_)
            if not torch.equal(r2, torch.eye(n, dtype=dt)) or not torch.equal(o2, torch.ones(1, 1, dtype=dt)):
                return "a basis returned earlier and modified in place by the caller changes what a later call returns (results share storage)"
        return None
    # QR
    its = 1 + (seed % 3)
    cfg = QRConfig(max_iterations=its, tolerance=0.0)
    z = M.matrix_eigenvectors(A, eigenvectors_estimate=torch.zeros(n, n, dtype=dt), eigenvector_computation_config=cfg).double()
    e = M.matrix_eigenvectors(A, eigenvector_computation_config=EighEigenvectorConfig()).double()
    if not torch.allclose(z, e, atol=tol):
        return "QR with a zero estimate does not fall back to the eigendecomposition"
    if n == 1:
        return None
    if kind == "singular" and n > 2:
        # a singular PSD matrix with STRUCTURAL zeros (an exactly-zero row / column) and an estimate that contains that unit vector:
        # the R factor of the iteration then has an exactly-zero diagonal entry; the result must still be an orthonormal basis
        Az = A.clone()
        Az[0, :] = 0
        Az[:, 0] = 0
        for est_ in (torch.eye(n, dtype=dt), torch.eye(n, dtype=dt)[:, torch.randperm(n, generator=g)]):
            Qz = M.matrix_eigenvectors(Az, eigenvectors_estimate=est_, eigenvector_computation_config=cfg).double()
            if float((Qz.T @ Qz - eye).abs().max()) > tol * 5:
                return "QR: basis not orthonormal for a singular matrix with an exactly-zero row/column and a unit-vector estimate"
    est, _ = torch.linalg.qr(torch.randn(n, n, generator=g, dtype=torch.float64))
    Q = M.matrix_eigenvectors(A, eigenvectors_estimate=est.to(dt), eigenvector_computation_config=cfg).double()
    if float((Q.T @ Q - eye).abs().max()) > tol * 5:
        return "QR: basis not orthonormal"
    ray = torch.diagonal(Q.T @ A.double() @ Q)
    if float((ray[1:] - ray[:-1]).min()) < -tol * 10:
        return "QR: columns not ordered by ascending Rayleigh quotient"
    # span of the orthogonal-iteration update
    X = est
    for _ in range(its):
        X = torch.linalg.qr(A.double() @ X).Q
    P1, P2 = Q @ Q.T, X @ X.T
    if float((P1 - P2).abs().max()) > tol * 10:
        return "QR: result does not span the orthogonal-iteration update of the estimate"
    if kind == "singular":
        # fixed-point clause on a singular matrix with the EXACT eigenbasis it was built from (known finding F12)
        Qf = M.matrix_eigenvectors(A, eigenvectors_estimate=Qm.to(dt), eigenvector_computation_config=QRConfig(max_iterations=1, tolerance=0.0)).double()
        nz = lam > 0
        dev = torch.minimum((Qf - Qm).abs().max(dim=0).values, (Qf + Qm).abs().max(dim=0).values)[nz].max()
        if float(dev) > 1e-3:
            return f"F12: QR: an exact eigenbasis of a SINGULAR matrix is not a fixed point up to column signs (deviation {float(dev):.2e} on the eigenvectors of the non-zero eigenvalues)"
        return None
    if kind != "repeated":
        exact = e.to(dt)
        Qf = M.matrix_eigenvectors(A, eigenvectors_estimate=exact, eigenvector_computation_config=QRConfig(max_iterations=1, tolerance=0.0)).double()
        dev = torch.minimum((Qf - e).abs().max(dim=0).values, (Qf + e).abs().max(dim=0).values).max()
        gap = float((lam[1:] - lam[:-1]).min())
        if float(dev) > 100 * tol / max(gap, 1e-3):
            return f"QR: an exact eigenbasis is not a fixed point up to column signs (deviation {float(dev):.2e})"
    return None


def bounded(tier, seed):
    import itertools
    sizes = (1, 2, 3, 8, 16) if tier == "quick" else (1, 2, 3, 5, 8, 16, 32, 64)
    evals, viol, distinct = 0, [], set()
    for n, kind, dtn, method in itertools.product(sizes, ("distinct", "repeated", "singular"), ("f32", "f64"), ("eigh", "qr", "flags")):
        for k in range(2 if tier == "quick" else 6):
            bad = native_eigvec(n, kind, dtn, method, seed * 100 + k)
            evals += 1
            distinct.add((n, kind, dtn, method, k))
            is_known = bool(bad) and bad.startswith("F12:") and kind == "singular"
            if bad and len([v for v in viol if bool(v.get("known")) == is_known]) < (2 if is_known else 5):
                viol.append(dict(ob=f"bounded/eigenvectors[{n},{kind},{dtn},{method}]", func="matrix_eigenvectors", input=dict(n=n, kind=kind, dtype=dtn, method=method), text=bad, detail=bad,
                                 replay=dict(kind="eigvec_native", n=n, spectrum=kind, dt=dtn, method=method, seed=seed * 100 + k), known="F12" if is_known else None))
    bad = mf.native_qr_rule()
    evals += 1
    distinct.add(("qr-stopping-rule",))
    if bad:
        viol.append(dict(ob="bounded/qr-stopping-rule", func="_compute_orthogonal_iterations", input=dict(budgets=[2, 3, 5]), text=bad, detail=bad, replay=dict(kind="eigvec")))
    return dict(evaluations=evals, distinct_nontrivial=len(distinct),
                rule="symmetric PSD matrices with distinct / repeated eigenvalues and singular (rank-deficient) ones, sizes x dtypes: eigh method orthonormal / diagonalising / ascending; QR: zero-estimate fallback, orthonormal, Rayleigh ordering, span of the orthogonal-iteration update, exact eigenbasis fixed up to signs; flags: identity / one; distinct = distinct parameter tuples",
                samples=[dict(n=8, kind="repeated", dtype="f32", method="qr")], bound=f"sizes {sizes}", violations=viol)


def replay(r):
    return replay_file(dict(replay_input=r.get("replay"), verifier_output=dict(model=r.get("model"))))


def replay_file(doc):
    rp = doc.get("replay_input") or {}
    if rp.get("kind") == "qr_frame":
        from checks import mf as _mf
        bad = _mf.native_qr_frame()
        return bool(bad), bad or "the QR method does not write its inputs"
    if rp.get("kind") == "eigvec":
        bad = mf.native_qr_rule()
        if bad:
            return True, bad
    if rp.get("kind") == "checkdiag":
        bad = mf.native_checkdiag()
        return bool(bad), bad or "check_diagonal is exact on tiny off-diagonal entries"
    if rp.get("kind") == "eigvec_native":
        bad = native_eigvec(rp["n"], rp["spectrum"], rp["dt"], rp["method"], rp["seed"])
        return bool(bad), f"{rp}: {bad}"
    import itertools
    for n, kind, dtn, method in itertools.product((1, 3, 8), ("distinct", "repeated"), ("f32", "f64"), ("eigh", "qr", "flags")):
        for k in range(3):
            bad = native_eigvec(n, kind, dtn, method, k)
            if bad:
                return True, f"n={n} {kind} {dtn} {method}: {bad}"
    return False, "native eigenvector sweep passes"
