"""C08 — fully_shard / hybrid-shard Shampoo equals serial Shampoo on local shards.

E2 on the real `_get_params_or_grads` and `_construct_local_block_info_list` / `_construct_global_block_info_list` of
FullyShardDistributor and HybridShardDistributor with DTensor proxies whose local numel is symbolic: the parameter stream and
the gradient stream are filtered by the SAME predicate on the PARAMETER (local numel > 0), an absent gradient stays None, and the
block-info parameters enumerate the same filtered list (strict zips hold).  Everything else is inherited: default merge+block
path on to_local() tensors (C05), the step (C01..C04), and for HybridShard the assignment/buffers (C14) and the update under
the all-gather contract (shared harness with C06).
"""
from __future__ import annotations

import itertools
import z3

from vlib.driver import prove, result
from vlib.sym import Explorer, SymInt, assume
from vlib.tensor import rebind
from checks import dist as D

PROP = "C08"
LEVEL = "proof"
FUNCS = [
    ("distributed_shampoo/utils/shampoo_fully_shard_distributor.py", "FullyShardDistributor._get_params_or_grads"),
    ("distributed_shampoo/utils/shampoo_fully_shard_distributor.py", "FullyShardDistributor._construct_local_block_info_list"),
    ("distributed_shampoo/utils/shampoo_hybrid_shard_distributor.py", "HybridShardDistributor._get_params_or_grads"),
    ("distributed_shampoo/utils/shampoo_hybrid_shard_distributor.py", "HybridShardDistributor._construct_global_block_info_list"),
    ("distributed_shampoo/utils/shampoo_hybrid_shard_distributor.py", "HybridShardDistributor.update_params"),
    ("distributed_shampoo/utils/shampoo_hybrid_shard_distributor.py", "HybridShardDistributor.merge_and_block_gradients"),
]
TRUSTED = [
    "ASSUMED contract of DTensor.to_local(): the rank's local shard (dim-0 sharding), a view of the parameter's local storage",
    "three parameters with symbolic local sizes and all gradient-presence patterns enumerate the filter behaviour (list code is length-generic)",
    "inherited: C05 (blocking of the local tensors), C01-C04 (step), C14 (assignment/buffers), C06 harness (update under the all-gather contract); rank-starvation finding F5 applies through the same step() call site",
    "DTensor runs on simulated ranks are bounded (world 2..4)",
]
ASSUMPTIONS = []
EXPLANATION = "same-predicate filtering of parameters, gradients and block-info parameters for all local shard sizes; HybridShard update data flow under the all-gather contract"


def cases(tier):
    cs = [f"filter/{c}/{''.join(p)}" for c in ("fully", "hybrid") for p in itertools.product("01", repeat=3)]
    cs += [f"blockinfo/{c}" for c in ("fully", "hybrid")]
    return cs + ["ribare/hybrid", "commdtype/hybrid"] + D.update_params_cases("hybrid")


class Local:
    def __init__(self, owner, kind, n):
        self.owner, self.kind, self.n = owner, kind, n

    def numel(self):
        return self.n


class DT:
    def __init__(self, j, has_grad=True, is_grad=False):
        self.j, self.is_grad = j, is_grad
        self.n = SymInt(f"local_numel_{j}")
        self.grad = DT(j, has_grad=False, is_grad=True) if has_grad and not is_grad else None
        self._loc = Local(self, "grad" if is_grad else "param", self.n)

    def to_local(self):
        return self._loc


def _class(c):
    if c == "fully":
        from distributed_shampoo.utils.shampoo_fully_shard_distributor import FullyShardDistributor as C
        import distributed_shampoo.utils.shampoo_fully_shard_distributor as mod
    else:
        from distributed_shampoo.utils.shampoo_hybrid_shard_distributor import HybridShardDistributor as C
        import distributed_shampoo.utils.shampoo_hybrid_shard_distributor as mod
    return mod, C


def _filter_case(case):
    from distributed_shampoo import shampoo_types as st
    _, c, pres = case.split("/")
    mod, C = _class(c)
    func = f"{C.__name__}._get_params_or_grads"
    present = [ch == "1" for ch in pres]

    def fn():
        ps = [DT(j, has_grad=present[j]) for j in range(3)]
        for p in ps:
            assume(p.n.t >= 0)
        obj = object.__new__(C)
        obj._param_group = {st.PARAMS: ps}
        params = list(obj._get_params_or_grads())
        grads = list(obj._get_params_or_grads(get_grad=True))
        return ps, params, grads

    out = []
    for pi, p in enumerate(Explorer().run(fn)):
        tag = f"[{case}]#p{pi}"
        if p.outcome != "return":
            out.append(result(f"{func}/no-exception{tag}", func, "unknown" if p.outcome == "abort" else "violated", text=repr(p.value)[:200], case=case, replay=dict(kind="fs_native")))
            continue
        ps, params, grads = p.value
        ok = len(params) == len(grads) and all(isinstance(x, Local) and x.kind == "param" for x in params)
        goals = []
        kept = [x.owner.j for x in params] if ok else []
        for j in range(3):
            n = z3.Int(f"local_numel_{j}")
            goals.append((n > 0) == z3.BoolVal(j in kept))
        if ok:
            for x, g in zip(params, grads):
                j = x.owner.j
                if present[j]:
                    ok = ok and isinstance(g, Local) and g.kind == "grad" and g.owner.j == j
                else:
                    ok = ok and g is None
        out.append(prove(f"{func}/params-and-grads-filtered-by-the-same-parameter-predicate{tag}", func, p.cond(), z3.And(z3.BoolVal(bool(ok)), *goals),
                         model_vars={f"local_numel_{j}": z3.Int(f"local_numel_{j}") for j in range(3)}, case=case, replay=dict(kind="fs_native"),
                         text="exactly the parameters with a non-empty local shard are kept, in order; the gradient stream has the same length, entry k is parameter k's local gradient or None when absent"))
    return out


def _blockinfo_case(case):
    from distributed_shampoo import shampoo_types as st
    c = case.split("/")[1]
    mod, C = _class(c)
    func = f"{C.__name__}." + ("_construct_local_block_info_list" if c == "fully" else "_construct_global_block_info_list")
    out = []
    for nb in ((2, 1), (1, 3), (1,), (2, 2, 1)):
        def fn():
            ps = [DT(j) for j in range(3)]
            for p in ps:
                assume(p.n.t >= 0)
            obj = object.__new__(C)
            obj._param_group = {st.PARAMS: ps}
            obj._global_num_blocks_per_param = nb

            class Dist:
                @staticmethod
                def get_rank(*a, **k):
                    return 0

            class Mesh:
                @staticmethod
                def get_local_rank(d):
                    return 0

            obj._hybrid_shard_device_mesh = Mesh()
            with rebind([(mod, "dist", Dist)]):
                if c == "fully":
                    infos = obj._construct_local_block_info_list()
                else:
                    infos = obj._construct_global_block_info_list(group_source_ranks=tuple(range(sum(nb))))
            return ps, infos

        for pi, p in enumerate(Explorer().run(fn)):
            tag = f"[{case}/{nb}]#p{pi}"
            nz = [z3.Int(f"local_numel_{j}") > 0 for j in range(3)]
            if p.outcome == "raise":
                # strict zip: raises iff the number of non-empty parameters differs from the number of per-parameter block counts
                cnt = z3.Sum(*[z3.If(x, 1, 0) for x in nz])
                out.append(prove(f"{func}/strict-zip-fails-only-on-count-mismatch{tag}", func, p.cond(), cnt != len(nb), case=case,
                                 text=f"{type(p.value).__name__} only when #non-empty parameters != #entries of num_blocks_per_param"))
                continue
            if p.outcome != "return":
                out.append(result(f"{func}/supported{tag}", func, "unknown", text=str(p.value), case=case))
                continue
            ps, infos = p.value
            kept = []
            # which parameters are non-empty on this path is decided by the path condition
            from vlib.solve import satisfiable
            for j in range(3):
                if satisfiable(z3.And(p.cond(), z3.Not(nz[j])), 5) == "unsat":
                    kept.append(j)
            want = [j for j, k in zip(kept, nb) for _ in range(k)]
            ok = len(infos) == len(want) and all(bi.param is ps[j] for bi, j in zip(infos, want))
            ids = [(id(bi.param), bi.composable_block_ids[1]) for bi in infos]
            ok = ok and len(set(ids)) == len(ids)
            out.append(prove(f"{func}/block-info-parameter-is-the-owner-of-the-block{tag}", func, p.cond(), z3.BoolVal(bool(ok)), case=case, replay=dict(kind="fs_native"),
                             text="block k's BlockInfo.param is the DTensor parameter whose (non-empty) local shard contains block k; (parameter, block id) keys are distinct"))
    return out


def run_case(case, tier, seed):
    if case.startswith("commdtype/"):
        from checks import dist as _D
        return _D.run_comm_dtype(case)
    if case.startswith("filter/"):
        return _filter_case(case)
    if case.startswith("blockinfo/"):
        return _blockinfo_case(case)
    if case.startswith("ribare/"):
        return D.run_ri_bare(case, "hybrid")
    return D.run_update_params(case)


# ---- native: DTensor parameters on simulated ranks ----------------------------------------------------------


def native_fully_shard(world, seed, steps=3):
    import random
    import torch
    from distributed_shampoo import shampoo_types as st
    rng = random.Random(seed)
    shapes = [(rng.choice([1, 2, 3, 5]), 3), (rng.choice([1, 4]),), (rng.choice([2, 3]), 2)]
    hist = [[rng.random() < 0.8 for _ in shapes] for _ in range(steps)]
    hist[0] = [True] * len(shapes)

    def fn(rank):
        from torch.distributed.device_mesh import init_device_mesh
        from torch.distributed.tensor import DTensor, Shard
        from distributed_shampoo.distributed_shampoo import DistributedShampoo
        mesh = init_device_mesh("cpu", (world,))

        def shard(full):
            # dim-0 sharding as torch.chunk does it (ranks beyond the number of rows get an empty shard); no communication
            chunks = list(torch.chunk(full, world, dim=0))
            loc = chunks[rank].clone() if rank < len(chunks) else full.new_zeros((0,) + tuple(full.shape[1:]))
            return DTensor.from_local(loc, mesh, [Shard(0)], run_check=False, shape=full.shape, stride=full.stride())

        gp = torch.Generator().manual_seed(seed)
        fulls = [torch.randn(s, generator=gp) for s in shapes]
        dts = [torch.nn.Parameter(shard(f)) for f in fulls]
        if all(p.to_local().numel() == 0 for p in dts):
            return "skip"
        kw = dict(lr=0.05, betas=(0.9, 0.99), epsilon=1e-6, momentum=0.5, max_preconditioner_dim=2, precondition_frequency=1, start_preconditioning_step=1,
                  grafting_config=st.AdaGradGraftingConfig(epsilon=1e-8))
        opt = DistributedShampoo(dts, distributed_config=st.FullyShardShampooConfig(), **kw)
        locals_ = [torch.nn.Parameter(p.to_local().detach().clone()) for p in dts if p.to_local().numel() > 0]
        idx = [j for j, p in enumerate(dts) if p.to_local().numel() > 0]
        ref = DistributedShampoo(locals_, **kw)
        gg = torch.Generator().manual_seed(seed + 1)
        for t in range(steps):
            gfull = [torch.randn(s, generator=gg) for s in shapes]
            for j, p in enumerate(dts):
                p.grad = shard(gfull[j]) if hist[t][j] else None
            for q, j in zip(locals_, idx):
                q.grad = shard(gfull[j]).to_local().clone() if hist[t][j] else None
            opt.step()
            ref.step()
            for q, j in zip(locals_, idx):
                if not torch.allclose(dts[j].to_local(), q.detach(), rtol=1e-6, atol=1e-7):
                    return f"rank {rank} step {t + 1}: local shard of parameter {j} differs from serial Shampoo on that local tensor"
        return None

    try:
        res = D.threaded(world, fn, timeout=120)
    except TimeoutError:
        return None, (shapes, hist)  # persistent simulator hang: inconclusive for this property (see C06 F5 / F6)
    except BaseException as e:  # noqa
        return f"{type(e).__name__}: {str(e)[:300]}", (shapes, hist)
    bad = [v for v in res.values() if v not in (None, "skip")]
    return (bad[0] if bad else None), (shapes, hist)


_MESH_TLS = None


def native_hybrid_shard(R, S, ntpg, comm, cp, seed, steps=5):
    """The real HybridShardDistributor on every rank of a (replicate R x shard S) mesh of simulated ranks: every rank's local shard equals serial
    Shampoo on that local tensor (FP32 communication), replicas are bit-identical (every setting); includes a parameter that NEVER receives a
    gradient (must stay untouched), parameters with empty local shards and single absences that never starve a rank (F5 of C06)."""
    import threading
    import torch
    from distributed_shampoo import shampoo_types as st
    from distributed_shampoo.utils import shampoo_hybrid_shard_distributor as hmod
    global _MESH_TLS
    if _MESH_TLS is None:
        _MESH_TLS = threading.local()

    def per_thread_mesh(device_type, mesh, mesh_dim_names=None):
        from torch.distributed.device_mesh import DeviceMesh
        cache = _MESH_TLS.__dict__.setdefault("cache", {})
        key = (device_type, mesh, mesh_dim_names)
        if key not in cache:
            cache[key] = DeviceMesh(device_type=device_type, mesh=mesh, mesh_dim_names=mesh_dim_names)
        return cache[key]

    shapes = [(4, 3), (1, 3), (6,), (2, 5), (4, 2), (3, 2)]
    dead = 5  # never receives a gradient
    absent = [set(), {0}, set(), {2}, {3}][:steps]
    cdt = dict(f32=st.CommunicationDType.FP32, bf16=st.CommunicationDType.BF16, f16=st.CommunicationDType.FP16)[comm]
    kw = dict(lr=0.05, betas=(0.9, 0.99), epsilon=1e-8, momentum=0.5, weight_decay=1e-3, max_preconditioner_dim=8, precondition_frequency=1,
              start_preconditioning_step=2, use_decoupled_weight_decay=True, grafting_config=st.AdaGradGraftingConfig(epsilon=1e-8))

    def full(shape, sd):
        return torch.randn(shape, generator=torch.Generator().manual_seed(sd))

    def fn(rank):
        from torch.distributed.device_mesh import init_device_mesh
        from torch.distributed.tensor import Replicate, Shard, distribute_tensor
        from distributed_shampoo.distributed_shampoo import DistributedShampoo
        mesh = init_device_mesh("cpu", (R, S), mesh_dim_names=("replicate", "shard"))
        pl = [Replicate(), Shard(0)]
        dparams = [torch.nn.Parameter(distribute_tensor(full(sh, seed * 1000 + i), mesh, pl)) for i, sh in enumerate(shapes)]
        keep = [i for i, p in enumerate(dparams) if p.to_local().numel() > 0]
        sparams = {i: torch.nn.Parameter(dparams[i].to_local().detach().clone()) for i in keep}
        init_dead = dparams[dead].to_local().detach().clone()
        hopt = DistributedShampoo(dparams, distributed_config=st.HybridShardShampooConfig(device_mesh=mesh, communication_dtype=cdt, num_trainers_per_group=ntpg,
                                                                                         communicate_params=cp), **kw)
        sopt = DistributedShampoo([sparams[i] for i in keep], **kw)
        traj = []
        for t, ab in enumerate(absent):
            for i, (p, sh) in enumerate(zip(dparams, shapes)):
                if i in ab or i == dead:
                    p.grad = None
                    if i in sparams:
                        sparams[i].grad = None
                    continue
                g = distribute_tensor(full(sh, 7919 * (t + 1) + i + seed), mesh, pl)
                p.grad = g
                if i in sparams:
                    sparams[i].grad = g.to_local().detach().clone()
            hopt.step()
            sopt.step()
            if not torch.equal(dparams[dead].to_local(), init_dead):
                return f"rank {rank} step {t + 1}: a parameter that never received a gradient was modified"
            if comm == "f32":
                for i in keep:
                    if not torch.allclose(dparams[i].to_local(), sparams[i].detach(), rtol=1e-5, atol=1e-6):
                        return f"rank {rank} step {t + 1}: local shard of parameter {i} differs from serial Shampoo on that local tensor (max {float((dparams[i].to_local() - sparams[i].detach()).abs().max()):.3e})"
            traj.append([p.to_local().detach().clone() for p in dparams])
        return (mesh.get_local_rank(1), traj)

    saved = hmod.get_device_mesh
    hmod.get_device_mesh = per_thread_mesh
    try:
        try:
            res = D.threaded(R * S, fn, timeout=120)
        except TimeoutError:
            # persistent hang of the thread simulator (after repeated attempts): collective-trace equality is C06's property (known findings
            # F5 / F6); for this property the sample is inconclusive and is not counted as a violation.  Further simulated runs of this
            # check invocation are skipped (each persistent hang costs minutes).
            _HUNG["n"] += 1
            return None
        except BaseException as e:  # noqa
            return f"raised {type(e).__name__}: {str(e)[:300]}"
    finally:
        hmod.get_device_mesh = saved
    msgs = [v for v in res.values() if isinstance(v, str)]
    if msgs:
        return msgs[0]
    by = {}
    for rank, (sr, traj) in res.items():
        by.setdefault(sr, []).append((rank, traj))
    for sr, lst in by.items():
        r0, t0 = lst[0]
        for rank, traj in lst[1:]:
            for t in range(len(traj)):
                for i in range(len(shapes)):
                    if not torch.equal(traj[t][i], t0[t][i]):
                        return f"step {t + 1}: replicas disagree on shard {sr} of parameter {i} (rank {rank} vs {r0}); comm={comm} communicate_params={cp}"
    return None


_HUNG = {"n": 0}


def bounded(tier, seed):
    n = 3 if tier == "quick" else 20
    evals, viol, distinct = 0, [], set()
    for world in (2, 3, 4):
        for k in range(n):
            bad, info = native_fully_shard(world, seed * 100 + k)
            evals += 1
            distinct.add((world, repr(info)))
            if bad and len(viol) < 5:
                viol.append(dict(ob=f"bounded/fully-shard-vs-serial[world={world},seed={seed * 100 + k}]", func="FullyShardDistributor", input=dict(world=world, shapes=info[0], history=info[1]),
                                 text=bad, detail=bad, replay=dict(kind="fs_case", world=world, seed=seed * 100 + k)))
    import itertools
    combos = [(2, 2, -1)] if tier == "quick" else [(2, 2, -1), (4, 1, 2), (2, 1, -1)]
    for (R, S, ntpg), comm, cp in itertools.product(combos, ("f32", "bf16"), (False, True)):
        for k in range(1 if tier == "quick" else 2):
            if _HUNG["n"]:
                continue
            try:
                bad = native_hybrid_shard(R, S, ntpg, comm, cp, seed * 10 + k)
            except BaseException as e:  # noqa
                bad = f"raised {type(e).__name__}: {str(e)[:300]}"
            evals += 1
            distinct.add(("hybrid", R, S, ntpg, comm, cp, k))
            if bad and len(viol) < 5:
                viol.append(dict(ob=f"bounded/hybrid-shard[{R}x{S},group={ntpg},{comm},params={cp},seed={seed * 10 + k}]", func="HybridShardDistributor",
                                 input=dict(mesh=[R, S], num_trainers_per_group=ntpg, comm=comm, communicate_params=cp), text=bad, detail=bad,
                                 replay=dict(kind="hybrid_case", R=R, S=S, ntpg=ntpg, comm=comm, cp=cp, seed=seed * 10 + k)))
    return dict(evaluations=evals, distinct_nontrivial=len(distinct),
                rule="(HybridShard: the real distributor on replicate x shard meshes of simulated ranks, incl. a never-updated parameter, empty local shards, single absences: local shard == serial for FP32, replicas bit-identical for every setting) + dim-0 sharded DTensor parameters on simulated ranks (threads), shapes with fewer rows than ranks (empty local shards), absent gradients: each rank's local shard == serial Shampoo on that local tensor; distinct = distinct (world, shapes, history)",
                samples=[dict(world=3, shapes=[(1, 3), (4,), (2, 2)])], bound=f"world 2..4, {n} seeds each, 3 steps", violations=viol)


def replay(r):
    return replay_file(dict(replay_input=r.get("replay"), verifier_output=dict(model=r.get("model"))))


def replay_file(doc):
    rp = doc.get("replay_input") or {}
    if rp.get("kind") == "commdtype":
        from checks import dist as _D
        bad = _D.native_comm_dtype(rp["copy"])
        return bool(bad), bad or "communication dtype mapping holds on the real constructor"
    if rp.get("kind") == "hybrid_case":
        bad = native_hybrid_shard(rp["R"], rp["S"], rp["ntpg"], rp["comm"], rp["cp"], rp["seed"])
        return bool(bad), f"{rp}: {bad}"
    if rp.get("kind") == "ddp_native":
        import itertools
        for (R, S, ntpg), comm, cp, k in itertools.product(((2, 2, -1), (4, 1, 2)), ("bf16", "f32"), (True, False), (0, 1)):
            try:
                bad = native_hybrid_shard(R, S, ntpg, comm, cp, k)
            except BaseException as e:  # noqa
                bad = f"raised {type(e).__name__}: {str(e)[:300]}"
            if bad:
                return True, f"mesh {R}x{S} trainers_per_group={ntpg} {comm} communicate_params={cp} seed {k}: {bad}"
        return False, "real HybridShard on simulated 2-D meshes: local shards equal serial, replicas agree, never-updated parameter untouched"
    if rp.get("kind") == "fs_case":
        bad, info = native_fully_shard(rp["world"], rp["seed"])
        return bool(bad), f"{info}: {bad}"
    if rp.get("kind") == "fs_native":
        for world in (2, 3, 4):
            for k in range(6):
                bad, info = native_fully_shard(world, k)
                if bad:
                    return True, f"world {world} {info}: {bad}"
        return False, "simulated fully_shard runs agree with serial Shampoo on the local shards"
    return False, "no native replayer"
