"""C13 — failed root computations are tolerated N times then raised; stored roots stay finite.

Engine E2 on the real `_amortized_computation` (both list classes), `_raise_exception_if_failure_tolerance_exceeded`,
`_check_factor_matrix_for_diagonality_nan_and_inf`, `compress_preconditioner_list` with the matrix routine replaced
by a contract stub that may throw (one symbolic fault bit per call): every success/failure vector over the
factors of two blocks, every NaN/Inf outcome, symbolic counters and tolerance.  Ghost history variable run[b]
(number of consecutive refreshes of block b containing a failure); abstraction: run[b] is the counter the
implementation associates with block b through the mask.
"""
from __future__ import annotations

import itertools
import z3

from vlib.driver import prove, result
from vlib.sym import Explorer, SymBool, SymInt, SymReal, assume
from vlib.tensor import ARR, SymTensor, uf
from checks import plist
from checks.plist import IDX, INVROOT, EIGVEC

PROP = "C13"
LEVEL = "proof"
FUNCS = [
    ("matrix_functions.py", "_compute_orthogonal_iterations"),
    ("distributed_shampoo/utils/shampoo_preconditioner_list.py", "ShampooPreconditionerList._amortized_computation"),
    ("distributed_shampoo/utils/shampoo_preconditioner_list.py", "EigenvalueCorrectedShampooPreconditionerList._amortized_computation"),
    ("distributed_shampoo/utils/shampoo_preconditioner_list.py", "BaseShampooPreconditionerList._raise_exception_if_failure_tolerance_exceeded"),
    ("distributed_shampoo/utils/shampoo_preconditioner_list.py", "BaseShampooPreconditionerList._check_factor_matrix_for_diagonality_nan_and_inf"),
    ("distributed_shampoo/utils/shampoo_preconditioner_list.py", "BaseShampooPreconditionerList.compress_preconditioner_list"),
    ("distributed_shampoo/utils/shampoo_preconditioner_list.py", "BaseShampooPreconditionerList._initialize_state_lists"),
    ("distributed_shampoo/distributed_shampoo.py", "DistributedShampoo._per_group_step_impl"),
]
TRUSTED = [
    "the matrix routine either returns a matrix or throws (contract stub with one symbolic fault bit per call); torch.isnan/isinf(...).any() are uninterpreted predicates of the matrix value",
    "two blocks (orders 1 and 2, three factors) are generic for the per-block loop (block-count parametricity; the mid-loop abort is covered explicitly)",
    "history quantification by induction: run[b] <= tolerance is the invariant carried between refreshes; mask histories through the representation invariant local[b] == run[b] == masked[pos(b)]",
]
ASSUMPTIONS = ["tolerance >= 0 (constructor domain)"]
EXPLANATION = "fallback keeps the previous matrix bit-for-bit, successes are copied, NaN/Inf is rejected before copy_, the counter automaton resets / increments / raises exactly past the tolerance per block, and mask changes preserve every block's counter"

def _dn(dt):
    return str(dt).split(".")[-1]


ANYNAN = lambda a, dt: uf(f"any_nan_{_dn(dt)}", ARR, z3.BoolSort())(a)
ANYINF = lambda a, dt: uf(f"any_inf_{_dn(dt)}", ARR, z3.BoolSort())(a)


def cases(tier):
    cs = [f"faults/{k}/f{f}d{d}" for k in ("shampoo", "eig") for f in "01" for d in "01"] + ["raise-before-params"]
    for kind in ("shampoo", "eig"):
        for m_old in itertools.product((0, 1), repeat=3):
            cs.append(f"mask/{kind}/{''.join(map(str, m_old))}")
    # "keeps the last successfully computed matrix": the matrix routine must not write the stored eigenbasis it is given as the estimate
    # (QR method, equal dtypes) — the loop contract of _compute_orthogonal_iterations (C12) with its frame obligation, re-discharged here
    cs.append("contract/qr-loop")
    return cs


def _fault_case(case):
    from distributed_shampoo.shampoo_types import PreconditionerValueError
    kind = case.split("/")[1]
    cls = "ShampooPreconditionerList" if kind == "shampoo" else "EigenvalueCorrectedShampooPreconditionerList"
    func = f"{cls}._amortized_computation"
    orders = [1, 2]

    def fn():
        import torch
        # parameter (storage) dtype differs from the preconditioner dtype: a root finite in float64 may overflow when narrowed
        c = plist.build(kind, orders, [], 0, faults=True, param_dtype=torch.float32, factor_dtype=torch.float64)
        try:
            plist.havoc_state(c, diag="sym0")
            sub = case.split("/")[2]
            assume(z3.Bool("fail_0") == (sub[1] == "1"))
            assume(z3.Int("diag0_0") == int(sub[3]))
            G = [SymTensor.array(f"G{b}", dtype=c["param_dtype"], shape=c["blocks"][b].size()) for b in range(2)]
            t = SymInt("step")
            assume(t.t >= 1)
            exc = None
            try:
                c["lst"].update_preconditioners(masked_grad_list=tuple(G), step=SymTensor.int_scalar(t), perform_amortized_computation=True)
            except (ValueError,) as e:
                exc = e
            lst = c["lst"]
            post = []
            for b, kf in enumerate(lst._local_kronecker_factors_list):
                second = kf.inv_factor_matrices if kind == "shampoo" else kf.factor_matrices_eigenvectors
                post.append(dict(X=[x.v for x in second], Xver=[x.cell.version for x in second], L=[x.v for x in kf.factor_matrices],
                                 D=[x.v for x in kf.is_factor_matrices_diagonal]))
            cnt = [_get_counter(x) for x in lst._masked_failed_amortized_computation_counter_list]
            return dict(c=c, exc=exc, post=post, cnt=cnt, bc2=lst._bias_correction2.at(0))
        finally:
            plist.close(c)

    paths = Explorer(max_paths=20000).run(fn)
    out = []
    mv = dict(tolerance=z3.Int("tolerance"), failcount0=z3.Int("failcount0"), failcount1=z3.Int("failcount1"))
    mv.update({f"fail_{k}": z3.Bool(f"fail_{k}") for k in range(3)})
    nfac = [1, 2]
    n_ret = 0
    for pi, p in enumerate(paths):
        tag = f"[{case}]#p{pi}"
        if p.outcome != "return":
            out.append(result(f"{func}/only-ValueError-escapes[{case}]", func, "unknown" if p.outcome == "abort" else "violated",
                              text=f"{p.outcome}: {type(p.value).__name__}: {p.value}", case=case, replay=dict(kind="faults", cls=kind)))
            continue
        n_ret += 1
        v = p.value
        c, exc, post, cnt = v["c"], v["exc"], v["post"], v["cnt"]
        pre, calls = c["pre"], c["stubs"].calls
        hyp = p.cond()
        tol = z3.Int("tolerance")
        is_pve = isinstance(exc, PreconditionerValueError)
        # walk the factors in processing order, consuming stub calls
        ci = 0
        stopped = False
        for b in range(2):
            processed_all, any_fail = True, False
            for k in range(nfac[b]):
                if stopped or ci >= len(calls):
                    processed_all = False
                    # untouched factor: stored matrix unchanged bit-for-bit
                    out.append(prove(f"{func}/unprocessed-factor-unchanged{tag}/b{b}k{k}", func, hyp,
                                     z3.Select(post[b]["X"][k], IDX) == z3.Select(pre[b]["X"][k], IDX), model_vars=mv, case=case,
                                     replay=dict(kind="faults", cls=kind), text="a factor after the raising point keeps its stored matrix"))
                    continue
                call = calls[ci]
                ci += 1
                A_in = (lambda i, b=b, k=k: z3.Select(post[b]["L"][k], i) / v["bc2"]) if kind == "shampoo" else (lambda i, b=b, k=k: z3.Select(post[b]["L"][k], i))
                from vlib.tensor import lam
                A_arr = lam(A_in)
                if call["failed"]:
                    any_fail = True
                    # fallback: previous matrix kept bit-for-bit (value equality with the pre-state array)
                    goal = z3.Select(post[b]["X"][k], IDX) == z3.Select(pre[b]["X"][k], IDX)
                    txt = "failed computation: the last successfully computed matrix is kept"
                    if post[b]["Xver"][k] > 1:  # copy_ happened (of the previous matrix onto itself): must also have passed the NaN/Inf guard
                        goal = z3.And(goal, z3.Not(ANYNAN(pre[b]["X"][k], c["param_dtype"])), z3.Not(ANYINF(pre[b]["X"][k], c["param_dtype"])))
                    out.append(prove(f"{func}/failure-keeps-previous-matrix{tag}/b{b}k{k}", func, hyp, goal, model_vars=mv, case=case,
                                     replay=dict(kind="faults", cls=kind), text=txt))
                else:
                    copied = post[b]["Xver"][k] > 1
                    if copied:
                        new = call["out"]
                        # Shampoo: the stored root must have been checked in the dtype it is stored in (a narrowing cast can overflow);
                        # SOAP: eigenvector entries lie in [-1,1] (assumed), so the check in the computation dtype suffices
                        chk = c["param_dtype"] if kind == "shampoo" else c["factor_dtype"]
                        goal = z3.And(z3.Select(post[b]["X"][k], IDX) == z3.Select(new, IDX),
                                      z3.Not(ANYNAN(new, chk)), z3.Not(ANYINF(new, chk)), z3.Not(ANYNAN(call["A"], c["factor_dtype"])), z3.Not(ANYINF(call["A"], c["factor_dtype"])),
                                      z3.Select(call["A"], IDX) == z3.Select(A_arr, IDX))
                        out.append(prove(f"{func}/success-copied-only-if-finite{tag}/b{b}k{k}", func, hyp, goal, model_vars=mv, case=case,
                                         replay=dict(kind="faults", cls=kind),
                                         text="a computed matrix is stored only after the factor matrix and the result passed the NaN/Inf checks"))
                    else:
                        # success but no copy: must be the PreconditionerValueError exit on this very factor
                        out.append(result(f"{func}/no-copy-only-on-value-error{tag}/b{b}k{k}", func, "discharged" if is_pve else "violated",
                                          backend="path-structure", case=case, text="a successful computation is not stored only when the step raises PreconditionerValueError",
                                          replay=dict(kind="faults", cls=kind)))
                        stopped = True
                        processed_all = False
                if is_pve and ci == len(calls) and post[b]["Xver"][k] <= 1 and not stopped:
                    stopped = True
                    processed_all = False
            if stopped and not processed_all:
                # counters of this and later blocks unchanged by a PreconditionerValueError exit
                out.append(prove(f"{func}/counter-unchanged-on-value-error{tag}/b{b}", func, hyp, plist.as_int(cnt[b]) == z3.Int(f"failcount{b}"),
                                 model_vars=mv, case=case, text="a block that was not fully processed keeps its failure count"))
                continue
            if not processed_all:
                out.append(prove(f"{func}/counter-unchanged-after-abort{tag}/b{b}", func, hyp, plist.as_int(cnt[b]) == z3.Int(f"failcount{b}"),
                                 model_vars=mv, case=case, text="blocks after the raising block keep their failure count"))
                continue
            # counter automaton for a fully processed block
            c0 = z3.Int(f"failcount{b}")
            want = z3.IntVal(0) if not any_fail else c0 + 1
            out.append(prove(f"BaseShampooPreconditionerList._raise_exception_if_failure_tolerance_exceeded/counter-automaton{tag}/b{b}",
                             "BaseShampooPreconditionerList._raise_exception_if_failure_tolerance_exceeded", hyp, plist.as_int(cnt[b]) == want,
                             model_vars=mv, case=case, replay=dict(kind="faults", cls=kind),
                             text="fully successful refresh resets the block's count; a refresh containing a failure increments it by exactly one"))
            raised_here = (exc is not None and not is_pve and ci == len(calls) and (b == 1 or True))
            # does the tolerance ValueError fire exactly when count exceeds the tolerance?
            last_block = (ci == len(calls)) and exc is not None and not is_pve
            if any_fail:
                fired = last_block and not any(True for _ in [] )
                # the exception (if any) was raised right after this block iff no later factor was processed
                later_processed = ci < len(calls)
                if exc is not None and not is_pve and not later_processed:
                    out.append(prove(f"BaseShampooPreconditionerList._raise_exception_if_failure_tolerance_exceeded/raises-only-past-tolerance{tag}/b{b}",
                                     "BaseShampooPreconditionerList._raise_exception_if_failure_tolerance_exceeded", hyp, c0 + 1 > tol, model_vars=mv,
                                     case=case, replay=dict(kind="faults", cls=kind), text="ValueError raised => the block has had more than `tolerance` consecutive failing refreshes"))
                    stopped = True
                else:
                    out.append(prove(f"BaseShampooPreconditionerList._raise_exception_if_failure_tolerance_exceeded/tolerated-within-tolerance{tag}/b{b}",
                                     "BaseShampooPreconditionerList._raise_exception_if_failure_tolerance_exceeded", hyp, c0 + 1 <= tol, model_vars=mv,
                                     case=case, replay=dict(kind="faults", cls=kind), text="no raise => count still within the tolerance"))
            else:
                pass
        if exc is None:
            out.append(result(f"{func}/all-factors-attempted{tag}", func, "discharged" if ci == len(calls) == 3 else "violated", backend="call-log", case=case,
                              text="a refresh without exception attempted every factor exactly once"))
    out.append(result(f"{func}/cover:paths[{case}]", func, "violated" if n_ret else "discharged", kind="cover", case=case, extra=dict(paths=len(paths))))
    okp = [p for p in paths if p.outcome == "return" and p.value["exc"] is None]
    if okp:
        out.append(prove(f"{func}/canary:never-fails[{case}]", func, z3.BoolVal(True), z3.Not(z3.Bool("fail_0")), kind="canary", case=case))
    return out


def _mask_case(case):
    """compress_preconditioner_list + the counter update preserve the abstraction run[b] for every block, whatever the
    old and new masks (representation invariant: local[b] == run[b] and masked == compress(local, mask))."""
    _, kind, m_old = case.split("/")
    m_old = tuple(bool(int(ch)) for ch in m_old)
    func = "BaseShampooPreconditionerList.compress_preconditioner_list"
    out = []
    for m_new in itertools.product((False, True), repeat=3):
        holder = {}

        def fn():
            c = plist.build(kind, [1, 1, 1], [], 0, faults=False)
            try:
                lst = c["lst"]
                run = [SymInt(f"run{b}") for b in range(3)]
                for r in run:
                    assume(r.t >= 0)
                # establish the representation invariant through the code's own API: counters live where the
                # implementation keeps them; start from the constructor state (all zero) and replay the ghost history
                # "block b has run[b] failures" by calling the real counter update run[b] times is not finite, so the RI is
                # installed directly on the attributes the implementation reads:
                loc = lst._local_failed_amortized_computation_counter_list
                for b in range(3):
                    _set_counter(lst, loc, b, run[b])
                lst.compress_preconditioner_list(m_old)
                # one failing refresh for every block active under the old mask, through the real counter update
                tol = c["tol"]
                active_old = [b for b in range(3) if m_old[b]]
                for pos, b in enumerate(active_old):
                    assume(run[b].t + 1 <= tol.t)
                    lst._raise_exception_if_failure_tolerance_exceeded([False], pos, ValueError("x"))
                lst.compress_preconditioner_list(m_new)
                masked = list(lst._masked_failed_amortized_computation_counter_list)
                return dict(masked=[_get_counter(x) for x in masked], active_old=active_old)
            finally:
                plist.close(c)

        paths = Explorer().run(fn)
        mn = "".join(str(int(x)) for x in m_new)
        for pi, p in enumerate(paths):
            tag = f"[{case}->{mn}]#p{pi}"
            if p.outcome != "return":
                out.append(result(f"{func}/no-exception{tag}", func, "unknown" if p.outcome == "abort" else "violated", text=repr(p.value), case=case))
                continue
            masked, active_old = p.value["masked"], p.value["active_old"]
            active_new = [b for b in range(3) if m_new[b]]
            ok_len = len(masked) == len(active_new)
            goals = [z3.BoolVal(ok_len)]
            if ok_len:
                for pos, b in enumerate(active_new):
                    want = z3.Int(f"run{b}") + (1 if b in active_old else 0)
                    goals.append(plist.as_int(masked[pos]) == want)
            out.append(prove(f"{func}/mask-change-preserves-failure-counts{tag}", func, p.cond(), z3.And(*goals),
                             model_vars={f"run{b}": z3.Int(f"run{b}") for b in range(3)}, case=case,
                             replay=dict(kind="mask", cls=kind), 
                             text="after a failing refresh under the old mask and a mask change, every active block's counter equals its number of consecutive failing refreshes"))
    return out


def _set_counter(lst, loc, b, val):
    if isinstance(loc[b], list):
        loc[b][0] = val
    else:
        loc[b] = val


def _get_counter(x):
    return x[0] if isinstance(x, list) else x


def _raise_before_params_case(case):
    """Step level: an exception out of the preconditioner update leaves every parameter (and filtered gradient / momentum)
    of the group untouched — the update of the preconditioners happens before any parameter write."""
    from checks import stepmodel as sm
    func = "DistributedShampoo._per_group_step_impl"
    out = []
    for graft in (None, "sgd", "ada"):
        def fn():
            h = sm.make_hyper(graft)
            for cnd in sm.hyper_domain(h):
                assume(cnd)
            blocks = sm.make_blocks(2, graft=graft)

            class Boom(ValueError):
                pass

            orig = sm.ShampooListStub.update_preconditioners

            def raising(self, *a, **k):
                raise Boom("PreconditionerValueError / tolerance exceeded (injected)")

            sm.ShampooListStub.update_preconditioners = raising
            try:
                try:
                    sm.run_group_step(h, blocks, alias=False)
                    return ("returned", blocks)
                except Boom:
                    return ("raised", blocks)
            finally:
                sm.ShampooListStub.update_preconditioners = orig

        paths = Explorer().run(fn)
        for pi, p in enumerate(paths):
            tag = f"[{case}/{graft}]#p{pi}"
            if p.outcome != "return" or p.value[0] != "raised":
                out.append(result(f"{func}/raise-propagates{tag}", func, "violated" if p.outcome != "abort" else "unknown", case=case,
                                  text=f"exception of the preconditioner update must propagate: {p.outcome} {p.value!r}"[:200]))
                continue
            blocks = p.value[1]
            untouched = all(b["w"].cell.version == 0 for b in blocks)
            out.append(result(f"{func}/raising-step-modifies-no-parameter{tag}", func, "discharged" if untouched else "violated", backend="heap-versions",
                              case=case, text="no parameter block was written before the preconditioner update raised", replay=dict(kind="raise_before")))
    return out


def run_case(case, tier, seed):
    if case == "contract/qr-loop":
        from checks import mf
        return mf.run_qr_loop(case)
    if case.startswith("faults/"):
        return _fault_case(case)
    if case.startswith("mask/"):
        return _mask_case(case)
    return _raise_before_params_case(case)


# ---- native replay / bounded tier ------------------------------------------------------------------------


def native_fault_run(kind, tol, fail_plan, mask_plan, seed=0):
    """Real optimizer, 2 one-dimensional parameters; fail_plan[r][p] = does the matrix routine fail for parameter p at
    refresh r; mask_plan[r][p] = does parameter p have a gradient at step r.  Returns (raised_at, expected_raise_at, info)."""
    import torch
    import distributed_shampoo.utils.shampoo_preconditioner_list as pl
    from distributed_shampoo.distributed_shampoo import DistributedShampoo
    from distributed_shampoo import shampoo_types as st

    torch.manual_seed(seed)
    params = [torch.nn.Parameter(torch.randn(3)) for _ in range(2)]
    cfgcls = st.ShampooPreconditionerConfig if kind == "shampoo" else st.EigenvalueCorrectedShampooPreconditionerConfig
    opt = DistributedShampoo(params, lr=0.01, betas=(0.0, 1.0), epsilon=1e-6, precondition_frequency=1, start_preconditioning_step=1,
                             preconditioner_config=cfgcls(num_tolerated_failed_amortized_computations=tol))
    name = "matrix_inverse_root" if kind == "shampoo" else "matrix_eigenvectors"
    real = getattr(pl, name)
    state = dict(r=0)
    sizes = {}

    def fake(A, *a, **k):
        # identify the parameter by the identity of the factor matrix' owner: both params have equal shapes, so use call order
        idx = state["order"].pop(0)
        if fail_plan[state["r"]][idx]:
            raise RuntimeError("injected")
        return real(A, *a, **k)

    setattr(pl, name, fake)
    run = [0, 0]
    expected = None
    raised = None
    try:
        for r in range(len(mask_plan)):
            state["r"] = r
            active = [p for p in range(2) if mask_plan[r][p]]
            state["order"] = list(active)
            for p in range(2):
                params[p].grad = torch.randn(3) if mask_plan[r][p] else None
            if not active:
                opt.step()
                continue
            exp_here = False
            for p in active:
                if fail_plan[r][p]:
                    run[p] += 1
                    if run[p] > tol and not exp_here:
                        exp_here = True
                else:
                    run[p] = 0
                if exp_here:
                    break
            try:
                opt.step()
            except ValueError:
                raised = r
            if exp_here and expected is None:
                expected = r
            if raised is not None or expected is not None:
                break
    finally:
        setattr(pl, name, real)
    return raised, expected


def _native_search(kind, seeds, steps=6):
    import random
    bad = []
    n = 0
    distinct = set()
    for seed in seeds:
        rng = random.Random(f"{kind}/{seed}")
        tol = rng.choice([0, 1, 2])
        fail_plan = [[rng.random() < 0.6 for _ in range(2)] for _ in range(steps)]
        mask_plan = [[rng.random() < 0.7 for _ in range(2)] for _ in range(steps)]
        raised, expected = native_fault_run(kind, tol, fail_plan, mask_plan, seed)
        n += 1
        distinct.add((tol, repr(fail_plan), repr(mask_plan)))
        if raised != expected:
            bad.append(dict(kind=kind, tol=tol, fail_plan=fail_plan, mask_plan=mask_plan, raised_at=raised, expected_at=expected, seed=seed))
    return n, distinct, bad


def _is_f4(b):
    """known finding F4: the mask (set of blocks with gradients) changed between failing refreshes."""
    mp = b["mask_plan"]
    upto = (b["expected_at"] if b["expected_at"] is not None else len(mp) - 1)
    return any(mp[r] != mp[r + 1] for r in range(min(upto, len(mp) - 1)))


def bounded(tier, seed):
    n = 40 if tier == "quick" else 400
    evals, viol, samples, distinct = 0, [], [], set()
    for kind in ("shampoo", "eig"):
        k, d, bad = _native_search(kind, range(seed * 1000, seed * 1000 + n))
        evals += k
        distinct |= d
        for b in bad[:3]:
            viol.append(dict(ob=f"bounded/fault-sequence[{kind},seed={b['seed']}]", func="DistributedShampoo.step", input=b,
                             text="step raised at a different refresh than the per-block tolerance rule prescribes",
                             detail=f"raised at refresh {b['raised_at']}, rule says {b['expected_at']}", known="F4" if _is_f4(b) else None,
                             replay=dict(kind="native_fault", cls=b["kind"], **{k2: b[k2] for k2 in ("tol", "fail_plan", "mask_plan", "seed")})))
    samples = [dict(tol=1, fail_plan="random 0.6", mask_plan="random 0.7", steps=6)]
    return dict(evaluations=evals, distinct_nontrivial=len(distinct),
                rule="random fault sequences x gradient-presence histories (2 parameters, 6 refreshes, tolerance 0..2) through the real optimizer with the matrix routine wrapped to throw on plan; oracle = per-block consecutive-failure rule; distinct = distinct (tolerance, fault plan, mask plan)",
                samples=samples, bound=f"{n} seeds per list class", violations=viol)


def replay(r):
    return replay_file(dict(replay_input=r.get("replay"), verifier_output=dict(model=r.get("model"))))


def replay_file(doc):
    rp = doc.get("replay_input") or {}
    if rp.get("kind") in ("qr_frame", "eigvec"):
        from checks import mf
        bad = mf.native_qr_frame() or mf.native_qr_rule()
        return bool(bad), bad or "the QR method does not write its inputs and follows the documented stopping rule"
    if rp.get("kind") == "native_fault":
        raised, expected = native_fault_run(rp["cls"], rp["tol"], rp["fail_plan"], rp["mask_plan"], rp["seed"])
        return raised != expected, f"tolerance {rp['tol']}: real optimizer raised at refresh {raised}, per-block rule says {expected}"
    if rp.get("kind") in ("faults", "mask"):
        kinds = [rp.get("cls")] if rp.get("cls") else ["shampoo", "eig"]
        for kind in kinds:
            if rp.get("kind") == "mask":
                # tolerance 1, every refresh failing, second parameter's gradient alternating
                raised, expected = native_fault_run(kind, 1, [[True, True]] * 8, [[True, r % 2 == 0] for r in range(8)], 0)
                if raised != expected:
                    return True, f"{kind}: tolerance 1, all refreshes failing, alternating mask: raised at {raised}, rule says {expected}"
            n, d, bad = _native_search(kind, range(9000, 9060))
            bad = [b for b in bad if rp.get("kind") == "mask" or not _is_f4(b)]
            if bad:
                b = bad[0]
                return True, f"{b}"
        return False, "native fault-injection runs agree with the per-block tolerance rule"
    return False, "no native replayer"
