#!/bin/sh
# Offline set-up: a python3.12 overlay venv with z3-solver / cvc5 / jsonschema from the local wheelhouse and a
# .pth that adds /venv's site-packages (torch + the editable install of /repo).  Idempotent.
set -e
cd "$(dirname "$0")"
V=.venv312
if [ ! -x "$V/bin/python" ] || ! "$V/bin/python" -c "import z3, torch, jsonschema" >/dev/null 2>&1; then
  rm -rf "$V"
  /venv/bin/python -m venv "$V"
  PIP_NO_INDEX=1 "$V/bin/pip" install -q --no-index --find-links /opt/veriftools/wheels \
      z3-solver cvc5 jsonschema >/dev/null
  SP=$("$V/bin/python" -c "import sysconfig; print(sysconfig.get_paths()['purelib'])")
  echo "import site; site.addsitedir('/venv/lib/python3.12/site-packages')" > "$SP/_overlay.pth"
fi
"$V/bin/python" - <<'EOF'
import z3, torch, jsonschema
import distributed_shampoo, os
assert os.path.realpath(distributed_shampoo.__file__).startswith('/repo/'), distributed_shampoo.__file__
print("setup ok: z3", z3.get_version_string(), "torch", torch.__version__)
EOF
