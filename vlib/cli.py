"""CLI: vcheck <Cnn> [--tier quick|thorough] [--case s] ; vcheck replay <file> ; vcheck ledger [Cnn ...]"""
import argparse
import importlib
import json
import logging
import os
import sys

from .driver import ROOT, run_check

ALL = [f"C{i:02d}" for i in range(1, 19)]


def main():
    logging.disable(logging.CRITICAL)
    sys.path.insert(0, ROOT)
    if os.environ.get("VERIF_REPO"):  # scratch copies for the mutation self-test; default is /repo itself
        sys.path.insert(0, os.environ["VERIF_REPO"])
    os.environ.setdefault("OPTIMIZERS_VERIF", "1")
    os.environ.setdefault("OMP_NUM_THREADS", "1")
    os.environ.setdefault("MKL_NUM_THREADS", "1")
    try:
        import torch
        torch.set_num_threads(1)
    except Exception:
        pass
    a = sys.argv[1:]
    if a and a[0] == "replay":
        doc = json.load(open(a[1] if os.path.isabs(a[1]) else os.path.join(ROOT, a[1])))
        mod = importlib.import_module("checks." + doc["property"].lower())
        bad, detail = mod.replay_file(doc)
        print(("REPRODUCED " if bad else "NOT-REPRODUCED ") + detail)
        sys.exit(1 if bad else 0)
    if a and a[0] == "ledger":
        rc = 0
        for p in (a[1:] or ALL):
            if os.path.exists(os.path.join(ROOT, "checks", p.lower() + ".py")):
                rc |= run_check("checks." + p.lower(), "quick", 0, update_ledger=True)
        _hard_exit(rc)
    ap = argparse.ArgumentParser()
    ap.add_argument("prop")
    ap.add_argument("--tier", default=os.environ.get("VERIF_TIER", "quick"))
    ap.add_argument("--case", default=None)
    ns = ap.parse_args(a)
    seed = int(os.environ.get("VERIF_SEED", "0") or 0)
    try:
        rc = run_check("checks." + ns.prop.lower(), ns.tier, seed, only_case=ns.case)
    except SystemExit:
        raise
    except BaseException as e:  # noqa
        import traceback
        traceback.print_exc()
        print("CHECKER-CRASH", repr(e)[:300])
        rc = 3
    _hard_exit(rc)


def _hard_exit(rc):
    # simulated ranks that hang (known findings F5 / F6, or a mutated tree) leave daemon threads stuck inside torch collectives; a normal
    # interpreter shutdown then aborts (SIGABRT, exit status -6) AFTER the verdict was printed.  Flush and leave without the teardown.
    try:
        sys.stdout.flush()
        sys.stderr.flush()
    finally:
        os._exit(rc)


main()
