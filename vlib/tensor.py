"""Tensor value / dtype / aliasing theory for shadow execution, and the contract-stub `torch` namespace that is
rebound (by name) inside the repo modules while a real function is executed on proxies.

Value theory: a tensor is a function index -> Real (z3 Array Int Real over the flattened index of its storage);
pointwise operations are interpreted exactly on a generic element, so algebraic identities are decided by the
solver.  Non-pointwise operations are uninterpreted functions of whole arrays (norm, tensordot Gram / mode
product, eigh ...).  0-d tensors are scalars (Real or Int terms).  MACHINE ARITHMETIC IS TREATED AS MATHEMATICAL.

Aliasing is CPython's: a SymTensor is a heap object with a mutable storage cell; in-place methods mutate the
cell, out-of-place ones allocate.  `detach()` / `view` share the cell.
"""
from __future__ import annotations

import itertools
import z3

from .sym import (Explorer, ShadowAbort, Sym, SymBool, SymInt, SymReal, as_real, real_pow, real_sqrt, fresh_name,
                  note_append)

ARR = z3.ArraySort(z3.IntSort(), z3.RealSort())
NORM = z3.Function("frobenius_norm", ARR, z3.RealSort())
_I = z3.Int("__i")

_ids = itertools.count(1)


def lam(f):
    """Array term  (lambda i. f(i))."""
    return z3.Lambda([_I], f(_I))


class Cell:
    """One storage: the current value (array term, or scalar term) + a version counter for frame checks."""
    __slots__ = ("v", "version", "sid", "writes")

    def __init__(self, v):
        self.v = v
        self.version = 0
        self.sid = next(_ids)
        self.writes = []

    def set(self, v, why=""):
        self.v = v
        self.version += 1
        self.writes.append(why)


class SymTensor:
    """Proxy for torch.Tensor.  scalar=True: 0-d tensor with a Real/Int term; else an Array term."""

    def __init__(self, value, dtype=None, shape=None, scalar=False, cell=None, name=None, is_int=False):
        self.cell = cell if cell is not None else Cell(value)
        self.dtype = dtype
        self._shape = tuple(shape) if shape is not None else (() if scalar else None)
        self.scalar = scalar
        self.is_int = is_int
        self.name = name
        self.grad = None
        self.requires_grad = False

    # ---- constructors -----------------------------------------------------------------------------------
    @staticmethod
    def array(name, dtype=None, shape=None):
        return SymTensor(z3.Array(name, z3.IntSort(), z3.RealSort()), dtype=dtype, shape=shape, name=name)

    @staticmethod
    def real_scalar(t, dtype=None):
        return SymTensor(as_real(t).t if not z3.is_expr(t) else t, dtype=dtype, scalar=True)

    @staticmethod
    def int_scalar(t, dtype=None):
        if isinstance(t, SymInt):
            t = t.t
        elif isinstance(t, int):
            t = z3.IntVal(t)
        return SymTensor(t, dtype=dtype, scalar=True, is_int=True)

    # ---- value access -----------------------------------------------------------------------------------
    @property
    def v(self):
        return self.cell.v

    def at(self, i):
        """Real term of the element at flat index i (scalars broadcast)."""
        if self.scalar:
            return z3.ToReal(self.v) if self.is_int else self.v
        return z3.Select(self.v, i)

    def fn(self):
        v, sc, ii = self.v, self.scalar, self.is_int
        if sc:
            r = z3.ToReal(v) if ii else v
            return lambda i: r
        return lambda i: z3.Select(v, i)

    def _new(self, f, like=None, scalar=None, dtype=None):
        like = like if like is not None else self
        sc = self.scalar if scalar is None else scalar
        if sc:
            return SymTensor(z3.simplify(f(z3.IntVal(0))), dtype=dtype or like.dtype, scalar=True)
        return SymTensor(lam(f), dtype=dtype or like.dtype, shape=like._shape)

    def _set(self, f, why):
        if self.scalar:
            val = f(z3.IntVal(0))
            if self.is_int:
                raise ShadowAbort("real-valued in-place op on an int scalar tensor")
            self.cell.set(z3.simplify(val), why)
        else:
            self.cell.set(lam(f), why)
        return self

    # ---- metadata ---------------------------------------------------------------------------------------
    def size(self, d=None):
        if self._shape is None:
            raise ShadowAbort("shape of an abstract tensor requested")
        return self._shape if d is None else self._shape[d]

    @property
    def shape(self):
        return self.size()

    def dim(self):
        return len(self.size())

    ndim = property(dim)

    def numel(self):
        n = 1
        for s in self.size():
            n = n * s
        return n

    @property
    def device(self):
        return "cpu"

    def element_size(self):
        import torch
        return torch.empty((), dtype=self.dtype).element_size()

    # ---- scalars ----------------------------------------------------------------------------------------
    def item(self):
        if not self.scalar:
            raise ShadowAbort(".item() on a non-scalar abstract tensor")
        return SymInt(self.v) if self.is_int else SymReal(self.v)

    def __bool__(self):
        if not self.scalar:
            raise ShadowAbort("bool() of a non-scalar abstract tensor")
        return bool(self.item() != 0)

    # ---- pointwise out-of-place -------------------------------------------------------------------------
    @staticmethod
    def _operand(o):
        """-> (fn index->Real term, is_tensor, scalarness)"""
        if isinstance(o, SymTensor):
            return o.fn(), o
        r = as_real(o).t
        return (lambda i: r), None

    def _binop(self, o, op, reverse=False):
        f1 = self.fn()
        try:
            f2, ot = self._operand(o)
        except ShadowAbort:
            return NotImplemented
        sc = self.scalar and (ot is None or ot.scalar)
        like = self if not self.scalar else (ot if ot is not None and not ot.scalar else self)
        g = (lambda i: op(f2(i), f1(i))) if reverse else (lambda i: op(f1(i), f2(i)))
        if sc and self.is_int and (ot is None and isinstance(o, (int, SymInt)) or (ot is not None and ot.is_int)) and op in _INT_OPS:
            a = self.v
            b = (ot.v if ot is not None else (o.t if isinstance(o, SymInt) else z3.IntVal(int(o))))
            return SymTensor(op(b, a) if reverse else op(a, b), dtype=self.dtype, scalar=True, is_int=True)
        return like._new(g, like=like, scalar=sc)

    def __add__(self, o):
        return self._binop(o, _add)

    __radd__ = __add__

    def __sub__(self, o):
        return self._binop(o, _sub)

    def __rsub__(self, o):
        return self._binop(o, _sub, reverse=True)

    def __mul__(self, o):
        return self._binop(o, _mul)

    __rmul__ = __mul__

    def __truediv__(self, o):
        return self._binop(o, _div)

    def __rtruediv__(self, o):
        return self._binop(o, _div, reverse=True)

    def __neg__(self):
        f = self.fn()
        if self.scalar and self.is_int:
            return SymTensor(-self.v, dtype=self.dtype, scalar=True, is_int=True)
        return self._new(lambda i: -f(i))

    def __pow__(self, o):
        f = self.fn()
        e = as_real(o).t if not isinstance(o, SymTensor) else None
        if e is None:
            g = o.fn()
            return self._new(lambda i: real_pow(f(i), g(i)), scalar=self.scalar and o.scalar)
        return self._new(lambda i: real_pow(f(i), e))

    def __rpow__(self, o):
        b = as_real(o).t
        f = self.fn()
        if self.scalar and self.is_int:
            v = self.v
            return SymTensor(real_pow(b, v), dtype=None, scalar=True)
        return self._new(lambda i: real_pow(b, f(i)))

    def add(self, o, alpha=1):
        f1 = self.fn()
        f2, ot = self._operand(o)
        a = as_real(alpha).t
        return self._new(lambda i: f1(i) + a * f2(i))

    def sub(self, o, alpha=1):
        f1 = self.fn()
        f2, ot = self._operand(o)
        a = as_real(alpha).t
        return self._new(lambda i: f1(i) - a * f2(i))

    def mul(self, o):
        return self * o

    def div(self, o):
        return self / o

    def square(self):
        f = self.fn()
        return self._new(lambda i: f(i) * f(i))

    def sqrt(self):
        f = self.fn()
        return self._new(lambda i: real_sqrt(f(i)))

    def pow(self, o):
        return self ** o

    def neg(self):
        return -self

    def clone(self):
        f = self.fn()
        t = SymTensor(self.v, dtype=self.dtype, shape=self._shape, scalar=self.scalar, is_int=self.is_int)
        return t

    def to(self, *a, dtype=None, **k):
        for x in a:
            import torch
            if isinstance(x, torch.dtype):
                dtype = x
        if dtype is None or dtype == self.dtype:
            return self
        t = self.clone()
        t.dtype = dtype
        return t

    def float(self):
        import torch
        return self.to(dtype=torch.float32)

    def double(self):
        import torch
        return self.to(dtype=torch.float64)

    def detach(self):
        t = SymTensor(None, dtype=self.dtype, shape=self._shape, scalar=self.scalar, cell=self.cell, is_int=self.is_int,
                      name=self.name)
        return t

    def view(self, *shape):
        if len(shape) == 1 and not isinstance(shape[0], (int, SymInt)):
            shape = tuple(shape[0])
        return SymTensor(None, dtype=self.dtype, shape=shape, scalar=False, cell=self.cell, name=self.name)

    # ---- pointwise in-place -----------------------------------------------------------------------------
    def add_(self, o, alpha=1):
        if self.scalar and self.is_int:
            if isinstance(o, (int, SymInt)) and alpha == 1:
                self.cell.set(self.v + (o.t if isinstance(o, SymInt) else z3.IntVal(o)), "add_")
                return self
            raise ShadowAbort("add_ on int scalar with non-int")
        f1 = self.fn()
        f2, _ = self._operand(o)
        a = as_real(alpha).t
        return self._set(lambda i: f1(i) + a * f2(i), "add_")

    def sub_(self, o, alpha=1):
        f1 = self.fn()
        f2, _ = self._operand(o)
        a = as_real(alpha).t
        return self._set(lambda i: f1(i) - a * f2(i), "sub_")

    def mul_(self, o):
        f1 = self.fn()
        f2, _ = self._operand(o)
        return self._set(lambda i: f1(i) * f2(i), "mul_")

    def div_(self, o):
        f1 = self.fn()
        f2, _ = self._operand(o)
        return self._set(lambda i: f1(i) / f2(i), "div_")

    def pow_(self, o):
        f1 = self.fn()
        f2, _ = self._operand(o)
        return self._set(lambda i: real_pow(f1(i), f2(i)), "pow_")

    def sqrt_(self):
        f1 = self.fn()
        return self._set(lambda i: real_sqrt(f1(i)), "sqrt_")

    def copy_(self, o):
        if self.scalar and self.is_int:
            if isinstance(o, SymTensor) and o.scalar and o.is_int:
                self.cell.set(o.v, "copy_")
                return self
            raise ShadowAbort("copy_ into an int/bool scalar from a non-int value")
        if ROUND_NARROWING["on"] and isinstance(o, SymTensor) and _narrower(self.dtype, o.dtype):
            # narrowing copy (e.g. float32 -> bfloat16 communication buffer): the stored value is the rounded one
            rnd = uf("round_to_" + str(self.dtype).split(".")[-1], z3.RealSort(), z3.RealSort())
            g = o.fn()
            return self._set(lambda i: rnd(g(i)), "copy_(narrowing)")
        f2, _ = self._operand(o)
        return self._set(lambda i: f2(i), "copy_")

    def lerp_(self, end, weight):
        f1 = self.fn()
        f2, _ = self._operand(end)
        w = as_real(weight).t
        return self._set(lambda i: f1(i) + w * (f2(i) - f1(i)), "lerp_")

    def lerp(self, end, weight):
        f1 = self.fn()
        f2, _ = self._operand(end)
        w = as_real(weight).t
        return self._new(lambda i: f1(i) + w * (f2(i) - f1(i)))

    def addcmul_(self, t1, t2, value=1):
        f0 = self.fn()
        f1, _ = self._operand(t1)
        f2, _ = self._operand(t2)
        a = as_real(value).t
        return self._set(lambda i: f0(i) + a * f1(i) * f2(i), "addcmul_")

    def zero_(self):
        return self._set(lambda i: z3.RealVal(0), "zero_")

    def norm(self):
        return SymTensor(NORM(self.v), dtype=self.dtype, scalar=True)

    def _scmp(self, o, op):
        if not self.scalar:
            raise ShadowAbort("comparison of a non-scalar abstract tensor")
        a = self.item()
        b = o.item() if isinstance(o, SymTensor) else o
        return op(a, b)

    def __gt__(self, o):
        return self._scmp(o, lambda a, b: a > b)

    def __ge__(self, o):
        return self._scmp(o, lambda a, b: a >= b)

    def __lt__(self, o):
        return self._scmp(o, lambda a, b: a < b)

    def __le__(self, o):
        return self._scmp(o, lambda a, b: a <= b)

    def __repr__(self):
        return f"<SymTensor {self.name or ''} sid={self.cell.sid} v{self.cell.version}>"

    __hash__ = object.__hash__


# Rounding of narrowing copies is modelled only where a property speaks about it (C06-C08: reduced-precision communication);
# everywhere else machine arithmetic is treated as mathematical and a dtype-changing copy is the identity on values.
ROUND_NARROWING = {"on": False}
_PREC = {"float64": 3, "float32": 2, "float": 2, "bfloat16": 1, "float16": 1, "half": 1}


def _narrower(dst, src):
    if dst is None or src is None or dst == src:
        return False
    d, s_ = _PREC.get(str(dst).split(".")[-1]), _PREC.get(str(src).split(".")[-1])
    if d is None or s_ is None:
        return False
    return d < s_ or (d == s_ == 1)  # bf16 <-> f16 also rounds


def _add(a, b):
    return a + b


def _sub(a, b):
    return a - b


def _mul(a, b):
    return a * b


def _div(a, b):
    return a / b


_INT_OPS = (_add, _sub, _mul)


# ---------------------------------------------------------------------------------------------------------
# the contract-stub torch namespace


def _aligned(*lists):
    n = len(lists[0])
    for l in lists[1:]:
        if len(l) != n:
            # real torch raises RuntimeError on mismatched foreach list lengths
            raise RuntimeError("Tensor lists must have the same number of tensors")
    note_append("aligned_ops", tuple(tuple(id(t) for t in l) for l in lists))
    return zip(*lists)


def _bcast(x, n):
    return x if isinstance(x, (list, tuple)) else [x] * n


class FakeTorch:
    """Stands in for the module-global name `torch` of a repo module while its real functions run on proxies.
    Only the operations listed here are supported; anything else aborts the path (undecided, never a pass)."""

    def __init__(self):
        import torch as real
        self._real = real
        for n in ("float", "float32", "float64", "double", "bfloat16", "float16", "half", "int64", "int8", "bool", "inf",
                  "dtype", "Size", "device", "finfo", "iinfo", "Tensor", "compiler", "enable_grad", "set_printoptions",
                  "float8_e4m3fn"):
            if hasattr(real, n):
                setattr(self, n, getattr(real, n))

    def __getattr__(self, name):
        raise ShadowAbort(f"torch.{name} has no contract stub")

    def no_grad(self):
        return self._real.no_grad()

    # -- creation
    def tensor(self, x, dtype=None, device=None):
        if isinstance(x, SymTensor):
            return x.clone()
        if isinstance(x, (SymInt,)) or (isinstance(x, int) and not isinstance(x, bool) and dtype in (self._real.int64, None) and dtype is not None):
            return SymTensor.int_scalar(x, dtype=dtype)
        if isinstance(x, bool):
            return SymTensor.int_scalar(int(x), dtype=self._real.bool)
        if isinstance(x, SymBool):
            return SymTensor.int_scalar(SymInt(z3.If(x.t, z3.IntVal(1), z3.IntVal(0))), dtype=self._real.bool)
        return SymTensor.real_scalar(x, dtype=dtype)

    def as_tensor(self, x, dtype=None):
        return x if isinstance(x, SymTensor) else self.tensor(x, dtype=dtype)

    # -- foreach pointwise
    def _foreach_add_(self, a, b, alpha=1):
        bl = _bcast(b, len(a))
        for x, y in _aligned(a, bl) if isinstance(b, (list, tuple)) else zip(a, bl):
            x.add_(y, alpha=alpha)

    def _foreach_add(self, a, b, alpha=1):
        bl = _bcast(b, len(a))
        return tuple(x.add(y, alpha=alpha) for x, y in (_aligned(a, bl) if isinstance(b, (list, tuple)) else zip(a, bl)))

    def _foreach_sub_(self, a, b, alpha=1):
        bl = _bcast(b, len(a))
        for x, y in _aligned(a, bl) if isinstance(b, (list, tuple)) else zip(a, bl):
            x.sub_(y, alpha=alpha)

    def _foreach_mul_(self, a, b):
        bl = _bcast(b, len(a))
        for x, y in _aligned(a, bl) if isinstance(b, (list, tuple)) else zip(a, bl):
            x.mul_(y)

    def _foreach_mul(self, a, b):
        bl = _bcast(b, len(a))
        return tuple(x * y for x, y in (_aligned(a, bl) if isinstance(b, (list, tuple)) else zip(a, bl)))

    def _foreach_div_(self, a, b):
        bl = _bcast(b, len(a))
        for x, y in _aligned(a, bl) if isinstance(b, (list, tuple)) else zip(a, bl):
            x.div_(y)

    def _foreach_div(self, a, b):
        bl = _bcast(b, len(a))
        return tuple(x / y for x, y in (_aligned(a, bl) if isinstance(b, (list, tuple)) else zip(a, bl)))

    def _foreach_lerp(self, a, b, weight):
        return tuple(x.lerp(y, weight) for x, y in _aligned(a, b))

    def _foreach_lerp_(self, a, b, weight):
        for x, y in _aligned(a, b):
            x.lerp_(y, weight)

    def _foreach_copy_(self, a, b):
        for x, y in _aligned(a, b):
            x.copy_(y)

    def _foreach_addcmul_(self, a, b, c, value=1):
        for x, y, z in _aligned(a, b, c):
            x.addcmul_(y, z, value=value)

    def _foreach_sqrt_(self, a):
        for x in a:
            x.sqrt_()

    def _foreach_sqrt(self, a):
        return tuple(x.sqrt() for x in a)

    def _foreach_norm(self, a):
        return tuple(x.norm() for x in a)

    def _foreach_neg_(self, a):
        for x in a:
            x._set((lambda f: (lambda i: -f(i)))(x.fn()), "neg_")

    def _foreach_zero_(self, a):
        for x in a:
            x.zero_()


class rebind:
    """Context manager: rebinds module-global names of repo modules to contract stubs for the duration of a run."""

    def __init__(self, bindings):
        self.bindings = bindings  # list of (module, name, value)
        self.saved = []

    def __enter__(self):
        for mod, name, val in self.bindings:
            self.saved.append((mod, name, mod.__dict__.get(name, _MISSING)))
            mod.__dict__[name] = val
        return self

    def __exit__(self, *a):
        for mod, name, old in reversed(self.saved):
            if old is _MISSING:
                mod.__dict__.pop(name, None)
            else:
                mod.__dict__[name] = old
        self.saved = []
        return False


_MISSING = object()


# ---------------------------------------------------------------------------------------------------------
# matrix-level (non-pointwise) theory: uninterpreted functions of whole arrays, keyed by the concrete
# structural arguments (contracted dims, permutation), so that a structurally different call is a different term.

_UF = {}


def uf(name, *sorts):
    k = (name,) + tuple(str(s) for s in sorts)
    if k not in _UF:
        _UF[k] = z3.Function(name, *sorts)
    return _UF[k]


def _sig(x):
    return str(x).replace(" ", "").replace("[", "L").replace("]", "J").replace(",", "_").replace("(", "P").replace(")", "Q")


class _AnyResult:
    """Result of torch.isnan(t) / torch.isinf(t) / t.isnan(): only `.any()` is supported."""

    def __init__(self, kind, t):
        self.kind, self.tens = kind, t

    def any(self):
        # the predicate is indexed by the dtype the check is performed in: a value that is finite in float64 may overflow to
        # inf once narrowed to float32 / bfloat16, so "checked before the cast" and "checked after the cast" are different facts
        dn = str(self.tens.dtype).split(".")[-1] if self.tens.dtype is not None else "any"
        return SymBool(uf(f"any_{self.kind}_{dn}", ARR, z3.BoolSort())(self.tens.v if not self.tens.scalar else z3.K(z3.IntSort(), self.tens.at(0))))


def _tensordot(a, b, dims):
    if a.dtype is not None and b.dtype is not None and a.dtype != b.dtype:
        raise RuntimeError(f"tensordot: expected both tensors to have the same dtype, but got {a.dtype} and {b.dtype}")
    da, db = [list(d) for d in dims]
    sa, sb = list(a.size()), list(b.size())
    shape = [s for i, s in enumerate(sa) if i not in da] + [s for i, s in enumerate(sb) if i not in db]
    f = uf("tensordot_" + _sig((da, db)) + f"_r{len(sa)}_{len(sb)}", ARR, ARR, ARR)
    av = a.v if not a.scalar else z3.K(z3.IntSort(), a.at(0))
    bv = b.v if not b.scalar else z3.K(z3.IntSort(), b.at(0))
    return SymTensor(f(av, bv), dtype=a.dtype, shape=shape)


def _permute(a, perm):
    perm = list(perm)
    if perm == list(range(len(perm))):
        # identity permutation: a view of the same storage
        return SymTensor(None, dtype=a.dtype, shape=a.size(), cell=a.cell, scalar=a.scalar)
    f = uf("permute_" + _sig(perm), ARR, ARR)
    return SymTensor(f(a.v), dtype=a.dtype, shape=[a.size()[p] for p in perm])


def _install_matrix_ops():
    def permute(self, *perm):
        if len(perm) == 1 and isinstance(perm[0], (list, tuple)):
            perm = perm[0]
        return _permute(self, perm)

    def any_(self):
        return SymBool(uf("any_nonzero", ARR, z3.BoolSort())(self.v if not self.scalar else z3.K(z3.IntSort(), self.at(0))))

    SymTensor.permute = permute
    SymTensor.any = any_
    SymTensor.isnan = lambda self: _AnyResult("nan", self)
    SymTensor.isinf = lambda self: _AnyResult("inf", self)

    def tensordot(self_, a, b, dims):
        return _tensordot(a, b, dims)

    def zeros(self_, size, dtype=None, device=None):
        if isinstance(size, (int, SymInt)):
            size = (size,)
        return SymTensor(z3.K(z3.IntSort(), z3.RealVal(0)), dtype=dtype, shape=tuple(size))

    FakeTorch.tensordot = tensordot
    FakeTorch.zeros = zeros
    FakeTorch.isnan = lambda self_, t: _AnyResult("nan", t)
    FakeTorch.isinf = lambda self_, t: _AnyResult("inf", t)
    FakeTorch.min = lambda self_, t: "<min>"
    FakeTorch.max = lambda self_, t: "<max>"


_install_matrix_ops()


# ---------------------------------------------------------------------------------------------------------
# dense linear algebra by contract (uninterpreted; dtype discipline as in real torch)


def _arr(t):
    return t.v if not t.scalar else z3.K(z3.IntSort(), t.at(0))


def _matmul(a, b):
    if a.dtype is not None and b.dtype is not None and a.dtype != b.dtype:
        raise RuntimeError(f"expected m1 and m2 to have the same dtype, but got: {a.dtype} != {b.dtype}")
    sa, sb = list(a.size()), list(b.size())
    shape = sa[:-1] + sb[1:] if len(sb) > 1 else sa[:-1]
    return SymTensor(uf("matmul", ARR, ARR, ARR)(_arr(a), _arr(b)), dtype=a.dtype, shape=shape)


class _QR:
    def __init__(self, a):
        self.Q = SymTensor(uf("qr_Q", ARR, ARR)(_arr(a)), dtype=a.dtype, shape=a.size())
        self.R = SymTensor(uf("qr_R", ARR, ARR)(_arr(a)), dtype=a.dtype, shape=a.size())


class _Linalg:
    def __init__(self, log):
        self.log = log

    def qr(self, a):
        self.log.append(("qr", a.v))
        return _QR(a)

    def eigh(self, a):
        self.log.append(("eigh", a.v, a.dtype))
        n = a.size()[0]
        L = SymTensor(uf("eigh_L", ARR, ARR)(_arr(a)), dtype=a.dtype, shape=(n,))
        Q = SymTensor(uf("eigh_Q", ARR, ARR)(_arr(a)), dtype=a.dtype, shape=a.size())
        return L, Q

    def norm(self, a):
        return a.norm()

    def matrix_norm(self, a, ord=None):
        return SymTensor(uf(f"matrix_norm_{ord}", ARR, z3.RealSort())(_arr(a)), dtype=a.dtype, scalar=True)

    def vector_norm(self, a, ord=None):
        return SymTensor(uf(f"vector_norm_{ord}", ARR, z3.RealSort())(_arr(a)), dtype=a.dtype, scalar=True)

    def matrix_power(self, a, n):
        e = n.t if isinstance(n, SymInt) else z3.IntVal(int(n))
        return SymTensor(uf("matrix_power", ARR, z3.IntSort(), ARR)(_arr(a), e), dtype=a.dtype, shape=a.size())


def _install_linalg():
    SymTensor.__matmul__ = lambda self, o: _matmul(self, o)

    def T(self):
        return _permute(self, list(reversed(range(len(self.size())))))

    SymTensor.T = property(T)

    def getitem(self, key):
        f = uf("index_" + _sig(tuple("slice" if isinstance(k, slice) else ("t" if isinstance(k, SymTensor) else str(k)) for k in (key if isinstance(key, tuple) else (key,)))), ARR, ARR, ARR)
        tens = [k for k in (key if isinstance(key, tuple) else (key,)) if isinstance(k, SymTensor)]
        kv = _arr(tens[0]) if tens else z3.K(z3.IntSort(), z3.RealVal(0))
        return SymTensor(f(_arr(self), kv), dtype=self.dtype, shape=self._shape)

    SymTensor.__getitem__ = getitem
    SymTensor.argsort = lambda self: SymTensor(uf("argsort", ARR, ARR)(_arr(self)), dtype=None, shape=self._shape)
    SymTensor.unsqueeze = lambda self, d: SymTensor(None, dtype=self.dtype, shape=None, cell=self.cell)

    def einsum(self_, eq, *ops):
        f = uf("einsum_" + _sig(eq) + f"_{len(ops)}", *([ARR] * len(ops)), ARR)
        return SymTensor(f(*[_arr(o) for o in ops]), dtype=ops[0].dtype, shape=None)

    FakeTorch.einsum = einsum
    FakeTorch.numel = lambda self_, t: t.numel()
    FakeTorch.ones_like = lambda self_, t: SymTensor(z3.K(z3.IntSort(), z3.RealVal(1)), dtype=t.dtype, shape=t._shape)
    FakeTorch.dist = lambda self_, a, b, p=2: SymTensor(uf(f"dist_{p}", ARR, ARR, z3.RealSort())(_arr(a), _arr(b)), dtype=a.dtype, scalar=True)

    def eye(self_, n, dtype=None, device=None):
        return SymTensor(uf("eye", z3.IntSort(), ARR)(n.t if isinstance(n, SymInt) else z3.IntVal(int(n))), dtype=dtype, shape=(n, n))

    FakeTorch.eye = eye
    orig_init = FakeTorch.__init__

    def init(self_):
        orig_init(self_)
        self_.linalg_log = []
        object.__setattr__(self_, "linalg", _Linalg(self_.linalg_log))

    FakeTorch.__init__ = init


_install_linalg()


# ---------------------------------------------------------------------------------------------------------
# further stubs used by matrix_functions.py


class ColBroadcast:
    """result of v.unsqueeze(0): only `Q * v.unsqueeze(0)` (scale column j of Q by v[j]) is supported"""

    def __init__(self, v):
        self.vec = v


class SymVec:
    """small dense vector with concrete length whose entries are set one by one (coefficient arrays)"""

    def __init__(self, n, dtype=None):
        self.items = [0.0] * int(n)
        self.dtype = dtype

    def __setitem__(self, i, v):
        self.items[int(i)] = v

    def __getitem__(self, i):
        return self.items[int(i)]


class _Matmul:
    allow_tf32 = False


class _Cuda:
    def __init__(self):
        self.matmul = _Matmul()


class _Backends:
    def __init__(self):
        self.cuda = _Cuda()


def _install_mf_ops():
    def unsqueeze(self, d):
        return ColBroadcast(self)

    SymTensor.unsqueeze = unsqueeze
    old_mul = SymTensor.__mul__

    def mul(self, o):
        if isinstance(o, ColBroadcast):
            return SymTensor(uf("scale_columns", ARR, ARR, ARR)(_arr(self), _arr(o.vec)), dtype=self.dtype, shape=self._shape)
        return old_mul(self, o)

    SymTensor.__mul__ = mul

    def triu(self, diagonal=0):
        return SymTensor(uf(f"triu_{diagonal}", ARR, ARR)(_arr(self)), dtype=self.dtype, shape=self._shape)

    def tril(self, diagonal=0):
        return SymTensor(uf(f"tril_{diagonal}", ARR, ARR)(_arr(self)), dtype=self.dtype, shape=self._shape)

    SymTensor.triu, SymTensor.tril = triu, tril
    SymTensor.__iadd__ = lambda self, o: self.add_(o)

    def tmin(self_, t):
        m = SymTensor(uf("min_entry", ARR, z3.RealSort())(_arr(t)), dtype=t.dtype, scalar=True)
        return m

    def minimum(self_, a, b):
        ta = a if isinstance(a, SymTensor) else SymTensor.real_scalar(a)
        tb = b if isinstance(b, SymTensor) else SymTensor.real_scalar(b)
        fa, fb = ta.fn(), tb.fn()
        if ta.scalar and tb.scalar:
            return SymTensor(z3.If(fa(0) <= fb(0), fa(0), fb(0)), scalar=True)
        like = ta if not ta.scalar else tb
        return SymTensor(lam(lambda i: z3.If(fa(i) <= fb(i), fa(i), fb(i))), dtype=like.dtype, shape=like._shape)

    def where(self_, cond, a, b):
        """torch.where(condition, a, b) for a SCALAR condition (a Python / symbolic bool or a one-element tensor): If(cond, a, b)."""
        from .sym import SymBool
        if isinstance(cond, SymTensor):
            if not cond.scalar:
                raise ShadowAbort("torch.where with a non-scalar condition tensor")
            c = cond.item() != 0
        else:
            c = cond
        ct = c.t if isinstance(c, SymBool) else z3.BoolVal(bool(c))
        ta = a if isinstance(a, SymTensor) else SymTensor.real_scalar(a)
        tb = b if isinstance(b, SymTensor) else SymTensor.real_scalar(b)
        fa, fb = ta.fn(), tb.fn()
        if ta.scalar and tb.scalar:
            return SymTensor(z3.If(ct, fa(0), fb(0)), dtype=ta.dtype, scalar=True)
        like = ta if not ta.scalar else tb
        return SymTensor(lam(lambda i: z3.If(ct, fa(i), fb(i))), dtype=like.dtype, shape=like._shape)

    def allclose(self_, a, b, rtol=1e-05, atol=1e-08, equal_nan=False):
        """torch.allclose: an uninterpreted predicate of the two arrays and the tolerances (NOT equality: nothing relates it to any_nonzero)."""
        from .sym import SymBool
        return SymBool(uf(f"allclose_rtol{rtol}_atol{atol}", ARR, ARR, z3.BoolSort())(_arr(a), _arr(b)))

    FakeTorch.allclose = allclose
    FakeTorch.count_nonzero = lambda self_, t, dim=None: SymTensor.int_scalar(__import__("vlib.sym", fromlist=["SymInt"]).SymInt(uf("count_nonzero", ARR, z3.IntSort())(_arr(t))))
    SymTensor.count_nonzero = lambda self, dim=None: SymTensor.int_scalar(__import__("vlib.sym", fromlist=["SymInt"]).SymInt(uf("count_nonzero", ARR, z3.IntSort())(_arr(self))))
    FakeTorch.where = where
    FakeTorch.min = tmin
    FakeTorch.minimum = minimum
    FakeTorch.zeros_like = lambda self_, t: SymTensor(z3.RealVal(0), dtype=t.dtype, scalar=True) if t.scalar else SymTensor(z3.K(z3.IntSort(), z3.RealVal(0)), dtype=t.dtype, shape=t._shape)
    FakeTorch.diag = lambda self_, t: SymTensor(uf("diag", ARR, ARR)(_arr(t)), dtype=t.dtype, shape=None)
    FakeTorch.diagonal = lambda self_, t: SymTensor(uf("diagonal", ARR, ARR)(_arr(t)), dtype=t.dtype, shape=(t.size()[0],) if t._shape else None)
    FakeTorch.trace = lambda self_, t: SymTensor(uf("trace", ARR, z3.RealSort())(_arr(t)), dtype=t.dtype, scalar=True)
    FakeTorch.add = lambda self_, a, b, alpha=1: a.add(b, alpha=alpha)
    FakeTorch.addmm = lambda self_, inp, m1, m2, beta=1, alpha=1: (_matmul(m1, m2) * alpha).add(inp, alpha=beta) if alpha != 1 else _matmul(m1, m2).add(inp, alpha=beta)
    old_zeros = FakeTorch.zeros

    def zeros(self_, size, dtype=None, device=None):
        if isinstance(size, int):
            return SymVec(size, dtype)
        return old_zeros(self_, size, dtype=dtype, device=device)

    FakeTorch.zeros = zeros
    old_init = FakeTorch.__init__

    def init(self_):
        old_init(self_)
        object.__setattr__(self_, "backends", _Backends())

    FakeTorch.__init__ = init


_install_mf_ops()


# ---------------------------------------------------------------------------------------------------------
# operations used by torch.optim's single-tensor functions (shadow-executed as the oracle of C02)


# Answer of the "am I being traced by PT2?" predicates (torch.compiler.is_compiling, torch.compiler.is_dynamo_compiling,
# torch._dynamo.is_compiling, torch._utils.is_compiling) while real code runs on proxies:
#   None  -> False (eager; every check except C18)
#   "sym" -> one symbolic boolean `is_compiling`, constant during a run: a path that asks forks, so every obligation is
#            discharged for the eager AND the traced answer (C18 mode-independence tier).
COMPILE_MODE = None
COMPILE_MODE_USED = False  # set once a run in this process asked for the symbolic answer (counter-models then report it)


class compile_mode:
    def __init__(self, mode):
        self.mode = mode

    def __enter__(self):
        global COMPILE_MODE, COMPILE_MODE_USED
        self.saved = COMPILE_MODE
        COMPILE_MODE = self.mode
        COMPILE_MODE_USED = COMPILE_MODE_USED or self.mode == "sym"

    def __exit__(self, *a):
        global COMPILE_MODE
        COMPILE_MODE = self.saved
        return False


def in_disabled_region():
    """True while (dynamically) inside a function decorated with torch.compiler.disable: there the code runs eagerly even when
    the caller is being traced, so the predicates answer False (recognised by the frame of Dynamo's real disable wrapper)."""
    import sys
    f = sys._getframe(1)
    while f is not None:
        co = f.f_code
        if co.co_name == "_fn" and co.co_filename.replace("\\", "/").endswith("torch/_dynamo/eval_frame.py"):
            return True
        f = f.f_back
    return False


def _is_compiling():
    if COMPILE_MODE == "sym" and not in_disabled_region():
        from .sym import SymBool
        return SymBool(z3.Bool("is_compiling"))
    return False


class _NS:
    def __init__(self, **kw):
        self.__dict__.update(kw)


def _install_optim_ops():
    def addcdiv_(self, t1, t2, value=1):
        f0, (f1, _), (f2, _) = self.fn(), self._operand(t1), self._operand(t2)
        a = as_real(value).t
        return self._set(lambda i: f0(i) + a * f1(i) / f2(i), "addcdiv_")

    def addcmul(self, t1, t2, value=1):
        f0, (f1, _), (f2, _) = self.fn(), self._operand(t1), self._operand(t2)
        a = as_real(value).t
        return self._new(lambda i: f0(i) + a * f1(i) * f2(i))

    SymTensor.addcdiv_ = addcdiv_
    SymTensor.addcmul = addcmul
    SymTensor.conj = lambda self: self
    SymTensor.is_sparse = False
    FakeTorch.clone = lambda self_, t: t.clone()
    FakeTorch.is_complex = lambda self_, t: False
    old_init = FakeTorch.__init__

    def init(self_):
        old_init(self_)
        object.__setattr__(self_, "jit", _NS(is_scripting=lambda: False))
        object.__setattr__(self_, "_utils", _NS(is_compiling=_is_compiling))
        object.__setattr__(self_, "_dynamo", _NS(is_compiling=_is_compiling))
        real_c = self_._real.compiler
        object.__setattr__(self_, "compiler", _NS(is_compiling=_is_compiling, is_dynamo_compiling=_is_compiling, disable=real_c.disable,
                                                   allow_in_graph=getattr(real_c, "allow_in_graph", None), is_exporting=lambda: False))

    FakeTorch.__init__ = init


_install_optim_ops()
