"""Back end: discharge one obligation `hyp => goal` with z3 (python API), cvc5 taking z3's `unknown`s."""
from __future__ import annotations

import os
import subprocess
import tempfile
import time

import z3

from .sym import model_value


def _cvc5(smt2: str, timeout_s: float):
    """Second opinion for z3's unknowns.  Returns 'unsat' | 'sat' | 'unknown'."""
    exe = "/usr/bin/cvc5"
    if not os.path.exists(exe):
        return "unknown"
    with tempfile.NamedTemporaryFile("w", suffix=".smt2", delete=False) as f:
        f.write("(set-logic ALL)\n" + smt2 + "\n")
        path = f.name
    try:
        p = subprocess.run([exe, "--tlimit=%d" % int(timeout_s * 1000), "--arrays-exp", path],
                           capture_output=True, text=True, timeout=timeout_s + 5)
        out = p.stdout.strip().splitlines()
        return out[0] if out and out[0] in ("sat", "unsat") else "unknown"
    except Exception:
        return "unknown"
    finally:
        os.unlink(path)


def discharge(hyp, goal, timeout_s=20.0, model_vars=None, use_cvc5=True, tactic=None):
    """Returns dict(status=discharged|violated|unknown, backend, time_s, model)."""
    t0 = time.time()
    s = z3.Solver() if tactic is None else z3.Then(*tactic).solver() if isinstance(tactic, (list, tuple)) else z3.Tactic(tactic).solver()
    s.set("timeout", int(timeout_s * 1000))
    s.add(hyp)
    s.add(z3.Not(goal))
    r = s.check()
    res = {"backend": "z3-" + z3.get_version_string(), "model": None}
    if r == z3.unsat:
        res["status"] = "discharged"
    elif r == z3.sat:
        res["status"] = "violated"
        m = s.model()
        if model_vars:
            res["model"] = {k: model_value(m, v) for k, v in model_vars.items()}
        else:
            res["model"] = {str(d): str(m[d]) for d in m.decls()[:40]}
    else:
        res["status"] = "unknown"
        res["reason"] = s.reason_unknown()
        if use_cvc5:
            try:
                smt2 = s.to_smt2()
                smt2 = smt2.replace("(set-info :status unknown)", "")
                c = _cvc5(smt2, timeout_s)
            except Exception as e:  # pragma: no cover
                c = "unknown"
            if c == "unsat":
                res["status"] = "discharged"
                res["backend"] = "cvc5-1.0.3 (z3 unknown)"
            # a cvc5 `sat` without a model we can replay stays `unknown` (never mapped to a violation)
    res["time_s"] = round(time.time() - t0, 4)
    return res


def satisfiable(c, timeout_s=10.0):
    s = z3.Solver()
    s.set("timeout", int(timeout_s * 1000))
    s.add(c)
    r = s.check()
    return "sat" if r == z3.sat else "unsat" if r == z3.unsat else "unknown"
