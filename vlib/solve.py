"""Back end: discharge one obligation `hyp => goal` with z3 (python API), cvc5 taking z3's `unknown`s; when both
leave it open, a randomized concretization search looks for a counter-model (sat answers only — it can never
turn an undecided obligation into a discharged one)."""
from __future__ import annotations

import os
from fractions import Fraction
import random
import subprocess
import tempfile
import time

import z3

from .sym import model_value

ARR = z3.ArraySort(z3.IntSort(), z3.RealSort())


def _cvc5(smt2: str, timeout_s: float):
    """Second opinion for z3's unknowns.  Returns 'unsat' | 'sat' | 'unknown'."""
    exe = "/usr/bin/cvc5"
    if not os.path.exists(exe):
        return "unknown"
    import re as _re
    # pure integer arithmetic (constants of sort Int / Bool only, no arrays, reals, quantifiers or uninterpreted functions) is handed
    # over as QF_NIA: cvc5's strategy for the generic logic ALL does not terminate on nonlinear div/mod lemmas that QF_NIA decides at once
    decls = _re.findall(r"\(declare-fun\s+\S+\s+\(([^)]*)\)\s+(\S+)\)", smt2)
    pure_int = bool(decls) and all(a.strip() == "" and srt in ("Int", "Bool") for a, srt in decls) and not _re.search(r"Array|Real|forall|exists|to_real|lambda", smt2)
    with tempfile.NamedTemporaryFile("w", suffix=".smt2", delete=False) as f:
        f.write(("(set-logic QF_NIA)\n" if pure_int else "(set-logic ALL)\n") + smt2 + "\n")
        path = f.name
    try:
        p = subprocess.run([exe, "--tlimit=%d" % int(timeout_s * 1000)] + ([] if pure_int else ["--arrays-exp"]) + [path],
                           capture_output=True, text=True, timeout=timeout_s + 5)
        out = p.stdout.strip().splitlines()
        return out[0] if out and out[0] in ("sat", "unsat") else "unknown"
    except Exception:
        return "unknown"
    finally:
        os.unlink(path)


def _free_consts(e):
    seen, out, stack = set(), {}, [e]
    while stack:
        t = stack.pop()
        if t.get_id() in seen:
            continue
        seen.add(t.get_id())
        if z3.is_const(t) and t.decl().kind() == z3.Z3_OP_UNINTERPRETED:
            out[str(t)] = t
        elif z3.is_quantifier(t):
            stack.append(t.body())
        else:
            stack.extend(t.children())
    return out


def concretize_search(hyp, goal, seed=0, tries=3, timeout_s=3.0):
    """Greedy random assignment of the free scalar constants (consistent with `hyp`), arrays as constant arrays,
    then a cheap satisfiability check of hyp & ~goal.  Returns a z3 model-like dict or None."""
    rng = random.Random(seed)
    f = z3.And(hyp, z3.Not(goal))
    consts = _free_consts(f)
    from .sym import _abstract_array_predicates
    hyp_abs = _abstract_array_predicates([hyp])[0]  # over-approximation, only used to pick candidate values
    for attempt in range(tries):
        s = z3.Solver()
        s.set("timeout", int(timeout_s * 1000))
        s.add(hyp_abs)
        if s.check() != z3.sat:
            return None
        sub = []
        names = sorted(consts)
        rng.shuffle(names)
        for n in names:
            c = consts[n]
            srt = c.sort()
            if srt == z3.RealSort():
                cand = z3.RealVal(rng.choice([-3, -2, -1, 1, 2, 3, 5, 7])) / z3.RealVal(rng.choice([1, 2, 4, 8]))
                cand = z3.simplify(cand)
            elif srt == z3.IntSort():
                cand = z3.IntVal(rng.choice([1, 2, 3, 4, 5, 7]))
            elif srt == z3.BoolSort():
                cand = z3.BoolVal(rng.random() < 0.5)
            elif srt == ARR:
                continue  # arrays: pseudo-random functions of the index (numeval)
            else:
                continue
            s.push()
            s.add(c == cand)
            if s.check() == z3.sat:
                sub.append((c, cand))
            else:
                s.pop()
                if s.check() != z3.sat:
                    break
                m = s.model()
                v = m.eval(c, model_completion=True)
                s.add(c == v)
                sub.append((c, v))
        # evaluate under a concrete pseudo-random interpretation (genuine model; see numeval.py)
        from .numeval import numeric_refute
        from .sym import model_value
        env = {}
        for c, v in sub:
            if c.sort().kind() == z3.Z3_ARRAY_SORT:
                continue
            env[str(c)] = model_value(None, v) if False else _pyval(v)
        ev = numeric_refute(hyp, goal, env, seeds=range(attempt * 16, attempt * 16 + 16))
        if ev is not None:
            return dict(sub=sub, ev=ev)
    return None


def _pyval(v):
    v = z3.simplify(v)
    if z3.is_true(v):
        return True
    if z3.is_false(v):
        return False
    if z3.is_int_value(v):
        return v.as_long()
    if z3.is_rational_value(v):
        return v.as_fraction()
    if z3.is_algebraic_value(v):
        return float(v.approx(20).as_fraction())
    raise ValueError(str(v))


VIOLATION_BUDGET = {"left": 4}
UNKNOWN_BUDGET = {"left": 6}  # once a case is undecided anyway, do not spend solver time on every further open obligation


def discharge(hyp, goal, timeout_s=10.0, model_vars=None, use_cvc5=True, seed=0, cvc5_first=False):
    """Returns dict(status=discharged|violated|unknown|skipped, backend, time_s, model)."""
    t0 = time.time()
    timeout_s = timeout_s * float(os.environ.get("VERIF_TIMEOUT_SCALE", "1"))
    if VIOLATION_BUDGET["left"] <= 0:
        return dict(status="skipped", backend="", model=None, time_s=0.0)
    if UNKNOWN_BUDGET["left"] <= 0:
        return dict(status="unknown", backend="", model=None, time_s=0.0, reason="not attempted: the case already has undecided obligations")
    if cvc5_first:
        # nonlinear integer lemmas that cvc5 (QF_NIA) decides in seconds while z3 wanders: ask cvc5 before spending z3's budgets
        s0 = z3.Solver()
        s0.add(hyp)
        s0.add(z3.Not(goal))
        try:
            if _cvc5(s0.to_smt2().replace("(set-info :status unknown)", ""), timeout_s) == "unsat":
                return dict(status="discharged", backend="cvc5-1.0.3 (QF_NIA)", model=None, time_s=time.time() - t0)
        except Exception:  # pragma: no cover
            pass
    # Step 1: the query as it is (a short budget first when it contains functions of whole arrays: such queries either close
    # in milliseconds or make the solver's model construction wander).
    from .sym import _abstract_array_predicates
    a_hyp, a_goal = _abstract_array_predicates([hyp, goal])
    abstracted = not (a_hyp.eq(hyp) and a_goal.eq(goal))
    s = z3.Solver()
    # first attempt with a short budget: almost every obligation closes in milliseconds; the ones that do not are retried in a
    # fresh context / with abstraction below, which is both faster and more stable than waiting here
    s.set("timeout", int(min(timeout_s, 4.0 * float(os.environ.get("VERIF_TIMEOUT_SCALE", "1"))) * 1000))
    s.add(hyp)
    s.add(z3.Not(goal))
    try:
        r = s.check()
    except z3.Z3Exception:
        r = z3.unknown
    if abstracted and r == z3.unknown:
        # Step 2: the query with scalar/Bool functions of whole arrays abstracted to constants (keyed by term identity).  The
        # abstraction only DROPS congruence constraints, so `unsat` carries over to the original query.
        s2 = z3.Solver()
        s2.set("timeout", int(timeout_s * 1000))
        s2.add(a_hyp)
        s2.add(z3.Not(a_goal))
        try:
            r2 = s2.check()
        except z3.Z3Exception:
            r2 = z3.unknown
        if r2 == z3.unsat:
            r = z3.unsat
        else:
            # Step 3: model-guided numeric refutation (returns only interpretations verified by evaluation)
            from .numeval import guided_refute
            ev0 = guided_refute(hyp, goal, None, _pyval, timeout_ms=2000, tries=3)
            if ev0 is not None:
                res = {"backend": "numeric refutation (model-guided)", "status": "violated", "model": None}
                if model_vars:
                    vals = {}
                    for k, v in model_vars.items():
                        t = v.t if hasattr(v, "t") else v
                        try:
                            x = ev0.ev(t)
                            vals[k] = (float(x) if isinstance(x, Fraction) else x) if not callable(x) else "<array>"
                        except Exception:
                            vals[k] = None
                    res["model"] = vals
                VIOLATION_BUDGET["left"] -= 1
                res["time_s"] = round(time.time() - t0, 4)
                return res
    res = {"backend": "z3-" + z3.get_version_string(), "model": None}
    if r == z3.unknown:
        # The same query is often closed at once when its terms are rebuilt in a FRESH z3 context (variable ordering of the
        # nonlinear solver depends on internal term ids, which grow with everything created before): retry there.
        try:
            ctx = z3.Context()
            sf = z3.Solver(ctx=ctx)
            sf.set("timeout", int(timeout_s * 1000))
            sf.add(hyp.translate(ctx))
            sf.add(z3.Not(goal).translate(ctx))
            rf = sf.check()
            if rf == z3.unsat:
                r = z3.unsat
                res["backend"] = "z3-" + z3.get_version_string() + " (fresh context)"
            del sf, ctx
        except z3.Z3Exception:
            pass
    if r == z3.unsat:
        res["status"] = "discharged"
    elif r == z3.sat:
        res["status"] = "violated"
        m = s.model()
        if model_vars:
            res["model"] = {k: model_value(m, v) for k, v in model_vars.items()}
        else:
            res["model"] = {str(d): str(m[d]) for d in m.decls()[:40]}
    else:
        res["status"] = "unknown"
        res["reason"] = s.reason_unknown()
        if os.environ.get("VERIF_DUMP_UNKNOWN"):
            os.makedirs(os.environ["VERIF_DUMP_UNKNOWN"], exist_ok=True)
            with open(os.path.join(os.environ["VERIF_DUMP_UNKNOWN"], f"q{int(time.time()*1000)}.smt2"), "w") as fh:
                fh.write(s.to_smt2())
        cm = concretize_search(hyp, goal, seed=seed)
        if cm is None and use_cvc5:
            try:
                smt2 = s.to_smt2().replace("(set-info :status unknown)", "")
                c = _cvc5(smt2, timeout_s)
            except Exception:  # pragma: no cover
                c = "unknown"
            if c == "unsat":
                res["status"] = "discharged"
                res["backend"] = "cvc5-1.0.3 (z3 unknown)"
        if res["status"] == "unknown":
            if cm is not None:
                res["status"] = "violated"
                res["backend"] = "numeric refutation (z3 unknown)"
                if model_vars:
                    vals = {}
                    for k, v in model_vars.items():
                        t = v.t if hasattr(v, "t") else v
                        try:
                            x = cm["ev"].ev(t)
                            vals[k] = (float(x) if isinstance(x, Fraction) else x) if not callable(x) else "<array>"
                        except Exception as e:  # pragma: no cover
                            vals[k] = None
                    res["model"] = vals
                else:
                    res["model"] = {str(c): str(v) for c, v in cm["sub"][:40]}
    if res["status"] == "violated":
        VIOLATION_BUDGET["left"] -= 1
    if res["status"] == "unknown":
        UNKNOWN_BUDGET["left"] -= 1
    res["time_s"] = round(time.time() - t0, 4)
    return res


def satisfiable(c, timeout_s=10.0):
    s = z3.Solver()
    s.set("timeout", int(timeout_s * 1000))
    s.add(c)
    r = s.check()
    return "sat" if r == z3.sat else "unsat" if r == z3.unsat else "unknown"
