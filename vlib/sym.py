"""Symbolic scalars and the path explorer of front end E2 ("shadow execution").

The REAL functions of /repo are called natively by CPython with these proxies as arguments.  Arithmetic builds
z3 terms; `bool(SymBool)` forks the path (decision stack + re-execution, depth first, every feasible path).
Nothing here re-implements Python control flow: the interpreter that runs the verified code is CPython itself.

Encodings (stated in every evidence file):
  * Python int   -> SMT Int (exact; Python ints are unbounded).  `//` and `%` have Python floor semantics.
  * Python float -> SMT Real for value obligations ("machine arithmetic treated as mathematical"), or
                    SMT Float64 (SymFP) where only comparisons matter (constructor domain, C17): NaN/inf exact.
  * bool         -> SMT Bool.
"""
from __future__ import annotations

import itertools
from fractions import Fraction
import z3

# --------------------------------------------------------------------------------------------------------
# control-flow exceptions (BaseException so that `except Exception` in the code under test cannot swallow them)


class ShadowAbort(BaseException):
    """The proxy layer cannot represent an operation: the path is UNDECIDED (never a pass)."""


class Infeasible(BaseException):
    """Current path condition is unsatisfiable (both branch outcomes infeasible)."""


# --------------------------------------------------------------------------------------------------------
# explorer


class _Decision:
    __slots__ = ("value", "other_pending")

    def __init__(self, value, other_pending):
        self.value = value
        self.other_pending = other_pending


class Path:
    def __init__(self, pc, outcome, value, trace, assumptions, notes):
        self.pc = pc  # list of z3 Bool
        self.outcome = outcome  # 'return' | 'raise' | 'abort'
        self.value = value  # return value or exception object
        self.trace = trace  # list of bools (decisions)
        self.assumptions = assumptions  # side constraints (axiom instances, stub postconditions)
        self.notes = notes  # dict filled by harness (ghost log)

    def cond(self):
        return z3.And(*(self.pc + self.assumptions)) if (self.pc or self.assumptions) else z3.BoolVal(True)


class Explorer:
    """Depth-first enumeration of all feasible paths of `fn` (a zero-argument callable that builds fresh
    symbolic inputs from *deterministically named* z3 constants and calls the real code)."""

    current: "Explorer | None" = None

    def __init__(self, feas_timeout_ms=5000, max_paths=200000):
        self.feas_timeout_ms = feas_timeout_ms
        self.max_paths = max_paths
        self.stack: list[_Decision] = []
        self.pos = 0
        self.pc: list = []
        self.assumptions: list = []
        self.notes: dict = {}
        self.n_feas_checks = 0
        self.n_unknown_feas = 0
        self.branch_outcomes: dict = {}

    # -- called by proxies ------------------------------------------------------------------------------
    def assume(self, c):
        """Add a side constraint that holds by an assumed contract / axiom instance (recorded)."""
        self.assumptions.append(c)

    def _feasible(self, extra):
        """Over-approximate feasibility (sound for exploration: an infeasible path explored anyway only yields
        vacuous obligations).  Bool-valued uninterpreted functions of whole arrays (any_nan(A), check_diagonal(A), ...)
        are abstracted to opaque atoms keyed by term identity, which keeps these queries in plain arithmetic."""
        s = z3.Solver()
        s.set("timeout", self.feas_timeout_ms)
        fs = _abstract_array_predicates(list(self.pc) + list(self.assumptions) + [extra])
        s.add(*fs)
        self.n_feas_checks += 1
        try:
            r = s.check()
        except z3.Z3Exception:  # e.g. "canceled" when a timeout fires inside the solver: same as unknown
            r = z3.unknown
        if r == z3.unknown:
            self.n_unknown_feas += 1
            return True
        return r == z3.sat

    def pick_value(self, term):
        s = z3.Solver()
        s.set("timeout", self.feas_timeout_ms)
        s.add(*_abstract_array_predicates(list(self.pc) + list(self.assumptions)))
        try:
            if s.check() != z3.sat:
                return None
        except z3.Z3Exception:
            return None
        v = s.model().eval(term, model_completion=True)
        return v.as_long() if z3.is_int_value(v) else None

    def decide(self, cond) -> bool:
        cond = z3.simplify(cond)
        if z3.is_true(cond):
            return True
        if z3.is_false(cond):
            return False
        if self.pos < len(self.stack):
            d = self.stack[self.pos]
        else:
            t = self._feasible(cond)
            f = self._feasible(z3.Not(cond))
            if t and f:
                d = _Decision(True, True)
            elif t:
                d = _Decision(True, False)
            elif f:
                d = _Decision(False, False)
            else:
                raise Infeasible()
            self.stack.append(d)
        self.pos += 1
        self.pc.append(cond if d.value else z3.Not(cond))
        return d.value

    # -- driver -----------------------------------------------------------------------------------------
    def run(self, fn):
        paths = []
        prev = Explorer.current
        Explorer.current = self
        try:
            while True:
                self.pos = 0
                self.pc = []
                self.assumptions = []
                self.notes = {}
                try:
                    v = fn()
                    outcome = "return"
                except ShadowAbort as e:
                    v, outcome = e, "abort"
                except Infeasible:
                    v, outcome = None, "infeasible"
                except z3.Z3Exception as e:  # solver-side failure while executing proxies: undecided, never a verdict about the code
                    v, outcome = ShadowAbort(f"z3 exception: {e}"), "abort"
                except Exception as e:  # the code under test raised
                    v, outcome = e, "raise"
                if outcome != "infeasible":
                    paths.append(
                        Path(list(self.pc), outcome, v, [d.value for d in self.stack[: self.pos]],
                             list(self.assumptions), dict(self.notes))
                    )
                if len(paths) > self.max_paths:
                    raise ShadowAbort("path budget exceeded")
                # drop decisions beyond what this run consumed (can happen after an exception)
                del self.stack[self.pos:]
                while self.stack and not self.stack[-1].other_pending:
                    self.stack.pop()
                if not self.stack:
                    break
                d = self.stack[-1]
                d.value = not d.value
                d.other_pending = False
        finally:
            Explorer.current = prev
        return paths


_ABS_CACHE = {}


def _abstract_array_predicates(formulas):
    subs = {}

    def visit(t, seen):
        if t.get_id() in seen:
            return
        seen.add(t.get_id())
        if z3.is_app(t) and t.decl().kind() == z3.Z3_OP_UNINTERPRETED and t.num_args() > 0 and t.sort().kind() != z3.Z3_ARRAY_SORT \
                and any(a.sort().kind() == z3.Z3_ARRAY_SORT for a in t.children()):
            subs[t.get_id()] = (t, z3.Const(f"abs!{t.decl().name()}!{t.get_id()}", t.sort()))
            return
        if z3.is_quantifier(t):
            visit(t.body(), seen)
            return
        for ch in t.children():
            visit(ch, seen)

    seen = set()
    for f in formulas:
        visit(f, seen)
    if not subs:
        return formulas
    pairs = list(subs.values())
    return [z3.substitute(f, *pairs) for f in formulas]


def _ex() -> Explorer:
    if Explorer.current is None:
        raise RuntimeError("symbolic value used in a boolean context outside an Explorer run")
    return Explorer.current


def assume(c):
    _ex().assume(unwrap_bool(c))


def note(key, value):
    _ex().notes[key] = value


def note_append(key, value):
    if Explorer.current is not None:  # outside an exploration (proxy cross-check) there is no path log
        Explorer.current.notes.setdefault(key, []).append(value)


# --------------------------------------------------------------------------------------------------------
# proxies

_fresh = itertools.count()


def fresh_name(prefix):
    return f"{prefix}!{next(_fresh)}"


class Sym:
    __slots__ = ("t",)

    def __hash__(self):  # proxies are hashable by identity (never by value)
        return id(self)

    def __repr__(self):
        return f"<{type(self).__name__} {self.t}>"

    __str__ = __repr__

    def __format__(self, spec):
        return repr(self)


class SymBool(Sym):
    def __init__(self, t):
        self.t = t

    def __bool__(self):
        return _ex().decide(self.t)

    def __and__(self, o):
        return SymBool(z3.And(self.t, unwrap_bool(o)))

    __rand__ = __and__

    def __or__(self, o):
        return SymBool(z3.Or(self.t, unwrap_bool(o)))

    __ror__ = __or__

    def __xor__(self, o):
        return SymBool(z3.Xor(self.t, unwrap_bool(o)))

    __rxor__ = __xor__

    def __invert__(self):
        return SymBool(z3.Not(self.t))

    def __eq__(self, o):
        if isinstance(o, (bool, SymBool)):
            return SymBool(self.t == unwrap_bool(o))
        return NotImplemented

    def __ne__(self, o):
        if isinstance(o, (bool, SymBool)):
            return SymBool(self.t != unwrap_bool(o))
        return NotImplemented

    __hash__ = Sym.__hash__


def unwrap_bool(x):
    if isinstance(x, SymBool):
        return x.t
    if isinstance(x, bool):
        return z3.BoolVal(x)
    if z3.is_expr(x):
        return x
    raise ShadowAbort(f"cannot use {type(x).__name__} as Bool")


def _is_num(x):
    return isinstance(x, (int, float)) and not isinstance(x, bool)


def py_floordiv(a, b):
    """Python floor division on SMT Ints (z3's `/` on Int is floor for positive divisors)."""
    if z3.is_int_value(b) and b.as_long() > 0:
        return a / b
    return z3.If(b > 0, a / b, (-a) / (-b))


def py_mod(a, b):
    return a - b * py_floordiv(a, b)


# uninterpreted power / sqrt on reals (axiom instances are added at creation time)
POW = z3.Function("pow", z3.RealSort(), z3.RealSort(), z3.RealSort())
SQRT = z3.Function("sqrt", z3.RealSort(), z3.RealSort())


def real_pow(base, exp):
    """base ** exp over the reals: exact for small concrete natural exponents, x ** 0.5 is sqrt(x), else the uninterpreted POW."""
    # NOTE: x ** 0.5 stays POW(x, 1/2); the link POW(x, 1/2) = sqrt(x) is added per obligation as an axiom instance
    # (`pow_axioms`), so that a symbolic exponent that equals 1/2 only under the path condition is linked as well.
    if z3.is_int_value(exp) or z3.is_rational_value(exp):
        q = exp.as_fraction() if z3.is_rational_value(exp) else None
        n = exp.as_long() if z3.is_int_value(exp) else (q.numerator if q.denominator == 1 else None)
        if n is not None and 0 <= n <= 4:
            r = z3.RealVal(1)
            for _ in range(n):
                r = r * base
            return r
    return POW(base, z3.ToReal(exp) if exp.sort() == z3.IntSort() else exp)


def real_sqrt(x):
    # the defining axiom instances (x >= 0 => sqrt(x) >= 0 and sqrt(x)^2 = x) are added per obligation, for the
    # sqrt terms that actually occur in it after beta-reduction (driver.prove / sqrt_axioms)
    return SQRT(x)


class SymInt(Sym):
    def __init__(self, t):
        if isinstance(t, str):
            t = z3.Int(t)
        self.t = t

    # arithmetic
    def _bin(self, o, f, rf=None):
        if isinstance(o, bool):
            o = int(o)
        if isinstance(o, int):
            return SymInt(f(self.t, z3.IntVal(o)))
        if isinstance(o, SymInt):
            return SymInt(f(self.t, o.t))
        if isinstance(o, float):
            return SymReal(z3.ToReal(self.t))._bin(o, rf or f)
        if isinstance(o, SymReal):
            return SymReal(z3.ToReal(self.t))._bin(o, rf or f)
        return NotImplemented

    def __add__(self, o):
        return self._bin(o, lambda a, b: a + b)

    def __radd__(self, o):
        return self._bin(o, lambda a, b: b + a)

    def __sub__(self, o):
        return self._bin(o, lambda a, b: a - b)

    def __rsub__(self, o):
        return self._bin(o, lambda a, b: b - a)

    def __mul__(self, o):
        return self._bin(o, lambda a, b: a * b)

    def __rmul__(self, o):
        return self._bin(o, lambda a, b: b * a)

    def __floordiv__(self, o):
        if isinstance(o, (int, SymInt)) and not isinstance(o, bool):
            b = z3.IntVal(o) if isinstance(o, int) else o.t
            return SymInt(py_floordiv(self.t, b))
        return NotImplemented

    def __rfloordiv__(self, o):
        if isinstance(o, int):
            return SymInt(py_floordiv(z3.IntVal(o), self.t))
        return NotImplemented

    def __mod__(self, o):
        if isinstance(o, (int, SymInt)) and not isinstance(o, bool):
            b = z3.IntVal(o) if isinstance(o, int) else o.t
            return SymInt(py_mod(self.t, b))
        return NotImplemented

    def __rmod__(self, o):
        if isinstance(o, int):
            return SymInt(py_mod(z3.IntVal(o), self.t))
        return NotImplemented

    def __truediv__(self, o):
        return SymReal(z3.ToReal(self.t)) / o

    def __rtruediv__(self, o):
        return o / SymReal(z3.ToReal(self.t))

    def __pow__(self, o):
        if isinstance(o, int) and 0 <= o <= 4:
            r = SymInt(z3.IntVal(1))
            for _ in range(o):
                r = r * self
            return r
        return SymReal(z3.ToReal(self.t)) ** o

    def __rpow__(self, o):
        return as_real(o) ** self

    def __neg__(self):
        return SymInt(-self.t)

    def __pos__(self):
        return self

    def __abs__(self):
        return SymInt(z3.If(self.t >= 0, self.t, -self.t))

    # comparisons
    def _cmp(self, o, f):
        if isinstance(o, bool):
            o = int(o)
        if isinstance(o, int):
            return SymBool(f(self.t, z3.IntVal(o)))
        if isinstance(o, SymInt):
            return SymBool(f(self.t, o.t))
        if isinstance(o, float):
            return SymBool(f(z3.ToReal(self.t), as_real(o).t))
        if isinstance(o, SymReal):
            return SymBool(f(z3.ToReal(self.t), o.t))
        return NotImplemented

    def __lt__(self, o):
        return self._cmp(o, lambda a, b: a < b)

    def __le__(self, o):
        return self._cmp(o, lambda a, b: a <= b)

    def __gt__(self, o):
        return self._cmp(o, lambda a, b: a > b)

    def __ge__(self, o):
        return self._cmp(o, lambda a, b: a >= b)

    def __eq__(self, o):
        r = self._cmp(o, lambda a, b: a == b)
        return SymBool(z3.BoolVal(False)) if r is NotImplemented else r

    def __ne__(self, o):
        r = self._cmp(o, lambda a, b: a != b)
        return SymBool(z3.BoolVal(True)) if r is NotImplemented else r

    __hash__ = Sym.__hash__

    def __bool__(self):
        return _ex().decide(self.t != 0)

    def __index__(self):
        v = z3.simplify(self.t)
        if z3.is_int_value(v):
            return v.as_long()
        # concretise by case split: pick a feasible value m, fork on (self == m); terminates for finite domains
        ex = _ex()
        for _ in range(64):
            m = ex.pick_value(self.t)
            if m is None:
                raise Infeasible()
            if ex.decide(self.t == m):
                return m
        raise ShadowAbort(f"symbolic int {self.t} used as a concrete index (domain not small)")

    __int__ = __index__

    def __float__(self):
        return float(self.__index__())


def as_real(x):
    if isinstance(x, SymReal):
        return x
    if isinstance(x, SymInt):
        return SymReal(z3.ToReal(x.t))
    if isinstance(x, bool):
        x = int(x)
    if isinstance(x, int):
        return SymReal(z3.RealVal(x))
    if isinstance(x, float):
        if x != x or x in (float("inf"), float("-inf")):
            raise ShadowAbort("non-finite float in real-valued obligation")
        from fractions import Fraction
        return SymReal(z3.RealVal(str(Fraction(x))))  # the exact value of the double
    if getattr(x, "scalar", False) and hasattr(x, "at"):  # 0-d tensor proxy
        return SymReal(x.at(0))
    raise ShadowAbort(f"cannot use {type(x).__name__} as Real")


class SymReal(Sym):
    """A Python float treated as a mathematical real (stated assumption: no rounding)."""

    def __init__(self, t):
        if isinstance(t, str):
            t = z3.Real(t)
        self.t = t

    def _bin(self, o, f):
        try:
            o = as_real(o)
        except ShadowAbort:
            return NotImplemented
        return SymReal(f(self.t, o.t))

    def __add__(self, o):
        return self._bin(o, lambda a, b: a + b)

    def __radd__(self, o):
        return self._bin(o, lambda a, b: b + a)

    def __sub__(self, o):
        return self._bin(o, lambda a, b: a - b)

    def __rsub__(self, o):
        return self._bin(o, lambda a, b: b - a)

    def __mul__(self, o):
        return self._bin(o, lambda a, b: a * b)

    def __rmul__(self, o):
        return self._bin(o, lambda a, b: b * a)

    def __truediv__(self, o):
        return self._bin(o, lambda a, b: a / b)

    def __rtruediv__(self, o):
        return self._bin(o, lambda a, b: b / a)

    def __pow__(self, o):
        if isinstance(o, (int, SymInt, float, SymReal)) and not isinstance(o, bool):
            if isinstance(o, int):
                e = z3.IntVal(o)
            elif isinstance(o, SymInt):
                e = o.t
            else:
                e = as_real(o).t
            return SymReal(real_pow(self.t, e))
        return NotImplemented

    def __rpow__(self, o):
        return as_real(o) ** self

    def __neg__(self):
        return SymReal(-self.t)

    def __pos__(self):
        return self

    def __abs__(self):
        return SymReal(z3.If(self.t >= 0, self.t, -self.t))

    def _cmp(self, o, f):
        if isinstance(o, float) and o in (float("inf"), float("-inf")):
            # a finite real against +-inf: the comparison is decided by the sign of the infinity
            big = z3.RealVal(1) if o > 0 else z3.RealVal(-1)
            return SymBool(z3.simplify(f(z3.RealVal(0), big)))
        try:
            o = as_real(o)
        except ShadowAbort:
            return NotImplemented
        return SymBool(f(self.t, o.t))

    def __lt__(self, o):
        return self._cmp(o, lambda a, b: a < b)

    def __le__(self, o):
        return self._cmp(o, lambda a, b: a <= b)

    def __gt__(self, o):
        return self._cmp(o, lambda a, b: a > b)

    def __ge__(self, o):
        return self._cmp(o, lambda a, b: a >= b)

    def __eq__(self, o):
        r = self._cmp(o, lambda a, b: a == b)
        return SymBool(z3.BoolVal(False)) if r is NotImplemented else r

    def __ne__(self, o):
        r = self._cmp(o, lambda a, b: a != b)
        return SymBool(z3.BoolVal(True)) if r is NotImplemented else r

    __hash__ = Sym.__hash__

    def __bool__(self):
        return _ex().decide(self.t != 0)

    def __float__(self):
        v = z3.simplify(self.t)
        if z3.is_rational_value(v):
            return float(v.as_fraction())
        raise ShadowAbort(f"symbolic real {self.t} used as a concrete float")


# --------------------------------------------------------------------------------------------------------
# IEEE double proxy: comparisons only (constructor domain checks)

FP64 = z3.Float64()
RNE = z3.RNE()


def _fpval(x):
    if isinstance(x, SymFP):
        return x.t
    if isinstance(x, bool):
        x = int(x)
    if isinstance(x, (int, float)):
        return z3.FPVal(float(x), FP64)
    if isinstance(x, SymInt):
        return z3.fpToFP(RNE, z3.ToReal(x.t), FP64)
    return None


class SymFP(Sym):
    """An IEEE-754 double whose value is only compared (and stored).  NaN, +-inf, -0.0 behave as in CPython."""

    def __init__(self, t):
        if isinstance(t, str):
            t = z3.FP(t, FP64)
        self.t = t

    def _cmp(self, o, f):
        b = _fpval(o)
        if b is None:
            return NotImplemented
        return SymBool(f(self.t, b))

    def __lt__(self, o):
        return self._cmp(o, z3.fpLT)

    def __le__(self, o):
        return self._cmp(o, z3.fpLEQ)

    def __gt__(self, o):
        return self._cmp(o, z3.fpGT)

    def __ge__(self, o):
        return self._cmp(o, z3.fpGEQ)

    def __eq__(self, o):
        r = self._cmp(o, z3.fpEQ)
        return SymBool(z3.BoolVal(False)) if r is NotImplemented else r

    def __ne__(self, o):
        r = self._cmp(o, z3.fpNEQ)
        return SymBool(z3.BoolVal(True)) if r is NotImplemented else r

    __hash__ = Sym.__hash__

    def __bool__(self):
        return _ex().decide(z3.Not(z3.fpIsZero(self.t)))

    def __neg__(self):
        return SymFP(z3.fpNeg(self.t))


# --------------------------------------------------------------------------------------------------------
# model extraction helpers


def model_value(m, x):
    """Concrete Python value of proxy / z3 term `x` under model `m` (completion on)."""
    t = x.t if isinstance(x, Sym) else x
    v = m.eval(t, model_completion=True)
    if z3.is_true(v):
        return True
    if z3.is_false(v):
        return False
    if z3.is_int_value(v):
        return v.as_long()
    if z3.is_rational_value(v):
        fr = v.as_fraction()
        return float(fr)
    if z3.is_algebraic_value(v):
        return float(v.approx(20).as_fraction())
    if z3.is_fp(v):
        if z3.is_fprm(v):
            return str(v)
        s = str(v)
        if z3.is_fprm_value(v):
            return s
        try:
            if v.isNaN():
                return float("nan")
            if v.isInf():
                return float("-inf") if v.isNegative() else float("inf")
            return float(z3.simplify(z3.fpToReal(v)).as_fraction()) * 1.0 if not v.isZero() else (-0.0 if v.isNegative() else 0.0)
        except Exception:
            return s
    return str(v)


def sqrt_axioms(*formulas):
    """Axiom instances for every sqrt(x) subterm of the (simplified) formulas."""
    seen, args, stack = set(), {}, [z3.simplify(f) for f in formulas]
    while stack:
        t = stack.pop()
        if t.get_id() in seen:
            continue
        seen.add(t.get_id())
        if z3.is_quantifier(t):
            continue  # instances under binders are not ground
        if z3.is_app(t) and t.decl().name() == "sqrt" and t.num_args() == 1:
            args[t.arg(0).get_id()] = t.arg(0)
        stack.extend(t.children())
    ax = [z3.Implies(x >= 0, z3.And(SQRT(x) >= 0, SQRT(x) * SQRT(x) == x)) for x in args.values()]
    # derived fact (lemma `sqrt-of-quotient`, discharged separately from the two axioms above): for a sqrt whose argument is a
    # quotient A/B with A >= 0, B > 0:  sqrt(A/B) = sqrt(A)/sqrt(B)
    for x in list(args.values()):
        if z3.is_app(x) and x.decl().kind() == z3.Z3_OP_DIV:
            A, B = x.children()
            ax.append(z3.Implies(z3.And(A >= 0, B > 0), z3.And(SQRT(x) == SQRT(A) / SQRT(B), SQRT(B) > 0, SQRT(A) >= 0,
                                                              SQRT(A) * SQRT(A) == A, SQRT(B) * SQRT(B) == B)))
    return ax


def div_axioms(*formulas):
    """Instances of the defining axioms of integer div / mod for every application with a NON-NUMERAL divisor that occurs in
    the formulas:  b > 0 => b*(a div b) <= a < b*(a div b) + b,  a mod b = a - b*(a div b),  and monotonicity between terms
    with the same divisor.  (Valid facts about SMT-LIB div/mod; they only help the nonlinear solver.)"""
    import itertools as _it
    seen, terms, stack = set(), {}, [z3.simplify(f) for f in formulas]
    while stack:
        t = stack.pop()
        if t.get_id() in seen:
            continue
        seen.add(t.get_id())
        if z3.is_quantifier(t):
            continue
        if z3.is_app(t) and t.decl().kind() in (z3.Z3_OP_IDIV, z3.Z3_OP_MOD):
            a, b = t.children()
            if not z3.is_int_value(b):
                terms[(a.get_id(), b.get_id())] = (a, b)
        stack.extend(t.children())
    dts = list(terms.values())
    if not dts or len(dts) > 40:
        return []
    ax = []
    for a, b in dts:
        q = a / b
        ax.append(z3.Implies(b > 0, z3.And(b * q <= a, a < b * q + b, a % b == a - b * q)))
    for (a1, b1), (a2, b2) in _it.permutations(dts, 2):
        if b1.get_id() == b2.get_id():
            ax.append(z3.Implies(z3.And(b1 > 0, a1 <= a2), a1 / b1 <= a2 / b1))
            ax.append(z3.Implies(z3.And(b1 > 0, a1 + b1 <= a2), a1 / b1 + 1 <= a2 / b1))
    return ax


def mul_axioms(*formulas):
    """Monotonicity of multiplication by a positive integer, instantiated for every pair of products x*b, y*b (b a non-numeral
    Int term) occurring in the formulas:  b > 0 /\\ x <= y => x*b <= y*b  and  b > 0 /\\ x < y => x*b + b <= y*b.
    Valid facts of integer arithmetic; opt-in (prove(..., nia=True)) because they only help nonlinear integer lemmas."""
    seen, prods, stack = set(), {}, [z3.simplify(f) for f in formulas]
    while stack:
        t = stack.pop()
        if t.get_id() in seen:
            continue
        seen.add(t.get_id())
        if z3.is_quantifier(t):
            continue
        if z3.is_app(t) and t.decl().kind() == z3.Z3_OP_MUL and t.num_args() == 2 and t.sort() == z3.IntSort():
            a, b = t.children()
            if not z3.is_int_value(a) and not z3.is_int_value(b):
                prods[(a.get_id(), b.get_id())] = (a, b)
                prods[(b.get_id(), a.get_id())] = (b, a)
        stack.extend(t.children())
    items = list(prods.values())
    if len(items) > 60:
        return []
    ax = []
    for i, (a1, b1) in enumerate(items):
        for a2, b2 in items[i + 1:]:
            if b1.get_id() == b2.get_id() and a1.get_id() != a2.get_id():
                for x, y in ((a1, a2), (a2, a1)):
                    ax.append(z3.Implies(z3.And(b1 > 0, x <= y), x * b1 <= y * b1))
                    ax.append(z3.Implies(z3.And(b1 > 0, x < y), x * b1 + b1 <= y * b1))
    return ax


def pow_axioms(*formulas):
    """x ** (1/2) is sqrt(x): instance for every pow(b, e) application in the formulas (e may be symbolic)."""
    seen, apps, stack = set(), {}, [z3.simplify(f) for f in formulas]
    while stack:
        t = stack.pop()
        if t.get_id() in seen:
            continue
        seen.add(t.get_id())
        if z3.is_quantifier(t):
            continue
        if z3.is_app(t) and t.decl().name() == "pow" and t.num_args() == 2:
            apps[t.get_id()] = t
        stack.extend(t.children())
    ax = []
    for t in list(apps.values())[:24]:
        b, e = t.arg(0), t.arg(1)
        ax.append(z3.Implies(e == z3.RealVal("1/2"), t == SQRT(b)))
        ax.append(z3.Implies(b >= 0, z3.And(SQRT(b) >= 0, SQRT(b) * SQRT(b) == b)))
    return ax
