"""Specification-side lemmas machine-checked by Lean 4 (files under lemmas/).  These are mathematics about the SPECIFICATION
(no repository code is modelled); they close steps of an argument that z3 cannot do (induction over tilings, choice).  A Lean
failure is never a violation of a property by /repo: status `unknown` => undecided."""
import os
import re
import shutil
import subprocess
import time

from .driver import ROOT, result

ALLOWED_AXIOMS = {"propext", "Classical.choice", "Quot.sound"}


def lean_obligation(ob, func, filename, theorems, text, case="", timeout=840):
    src = os.path.join(ROOT, "lemmas", filename)
    lean = shutil.which("lean")
    if lean is None or not os.path.exists(src):
        return result(ob, func, "unknown", backend="lean4 (not found)", case=case, text=text)
    body = open(src).read()
    t0 = time.time()
    probe = body + "\n" + "".join(f"#print axioms {t}\n" for t in theorems)
    try:
        r = subprocess.run([lean, "--stdin"], input=probe, capture_output=True, text=True, timeout=timeout, cwd=os.path.dirname(src))
        outp = r.stdout + r.stderr
        ok = r.returncode == 0 and "error" not in outp and "sorry" not in body and "sorryAx" not in outp
        axs = set(re.findall(r"[A-Za-z_.]+", " ".join(re.findall(r"depends on axioms: \[([^\]]*)\]", outp, flags=re.S))))
        n_reports = outp.count("depends on axioms") + outp.count("does not depend on any axioms")
        ok = ok and n_reports == len(theorems) and axs <= ALLOWED_AXIOMS and all(re.search(r"theorem\s+" + re.escape(t.split(".")[-1]) + r"\b", body) for t in theorems)
        ver = subprocess.run([lean, "--version"], capture_output=True, text=True).stdout.strip()[:60]
    except BaseException as ex:  # noqa
        return result(ob, func, "unknown", backend="lean4", case=case, text=(text + f" — lean did not finish: {ex!r}")[:600], time_s=time.time() - t0)
    return result(ob, func, "discharged" if ok else "unknown", backend=ver or "lean4", case=case, time_s=time.time() - t0,
                  text=text if ok else text + " — NOT accepted: " + outp[-600:])
