"""Check driver: runs the cases of one property in a process pool, applies the verdict mapping, the vacuity /
ledger guards, the known-findings protocol and native replay, and writes evidence/<id>.json.

Exit codes: 0 held / 1 violation (VIOLATION line printed) / 2 undecided / 3 checker crash.
"""
from __future__ import annotations

import ast
import hashlib
import importlib
import json
import multiprocessing as mp
import os
import re
import sys
import time
import traceback

ROOT = os.path.dirname(os.path.dirname(os.path.abspath(__file__)))
REPO = os.environ.get("VERIF_REPO", "/repo")
# checks run against a scratch copy (mutation self-test) must not overwrite the evidence about /repo itself
OUT = ROOT if not os.environ.get("VERIF_REPO") else os.path.join(ROOT, ".scratch", os.path.basename(os.environ["VERIF_REPO"].rstrip("/")) or "copy")


# ---------------------------------------------------------------------------------------------------------
# results produced by the check modules


def result(ob, func, status, kind="deciding", backend="", time_s=0.0, model=None, text="", replay=None,
           case="", extra=None):
    d = dict(ob=ob, func=func, status=status, kind=kind, backend=backend, time_s=time_s, model=model,
             text=text, replay=replay, case=case)
    if extra:
        d.update(extra)
    return d


def prove(ob, func, hyp, goal, kind="deciding", timeout_s=10.0, model_vars=None, text="", replay=None, case="",
          known=None, nia=False, plain=False, cvc5_first=False):
    """Discharge `hyp => goal`.  `known`: optional list of (finding_id, z3 condition) — a `sat` answer is
    re-solved with every known condition excluded; if that is unsat the result is tagged known=<ids>."""
    import z3
    from .solve import discharge

    from . import solve as _solve
    from .sym import sqrt_axioms, div_axioms, pow_axioms
    hyp, goal = z3.simplify(hyp), z3.simplify(goal)
    from . import tensor as _tensor
    if _tensor.COMPILE_MODE_USED:
        model_vars = dict(model_vars or {}, is_compiling=z3.Bool("is_compiling"))
    ax = [] if plain else sqrt_axioms(hyp, goal) + div_axioms(hyp, goal) + pow_axioms(hyp, goal)
    if nia:
        from .sym import mul_axioms
        ax = ax + mul_axioms(hyp, goal, *ax)
    if ax:
        hyp = z3.And(hyp, *ax)
    saved = _solve.VIOLATION_BUDGET["left"]
    saved_unknown = _solve.UNKNOWN_BUDGET["left"]
    if kind in ("canary", "cover"):
        # vacuity guards are decided on the formula with Bool-valued array predicates abstracted to opaque atoms
        # (keyed by term identity): keeps the satisfiability query in plain arithmetic.
        from .sym import _abstract_array_predicates
        _solve.VIOLATION_BUDGET["left"] = 1
        hyp, goal = _abstract_array_predicates([hyp, goal])
    r = discharge(hyp, goal, timeout_s=timeout_s, model_vars=model_vars, cvc5_first=cvc5_first)
    if kind in ("canary", "cover"):
        _solve.VIOLATION_BUDGET["left"] = saved
        _solve.UNKNOWN_BUDGET["left"] = max(_solve.UNKNOWN_BUDGET["left"], 1)
    elif kind == "auxiliary":
        # auxiliary obligations never decide anything (a failed one is reported as contract drift): they must not use up the
        # violation / unknown budgets of the deciding obligations of the same case either
        _solve.VIOLATION_BUDGET["left"] = saved
        _solve.UNKNOWN_BUDGET["left"] = max(_solve.UNKNOWN_BUDGET["left"], saved_unknown)
    extra = {}
    if r["status"] == "violated" and known:
        hits = []
        for fid, cond in known:
            s = z3.Solver()
            s.set("timeout", int(timeout_s * 1000))
            s.add(hyp, z3.Not(goal), cond)
            if s.check() == z3.sat:
                hits.append(fid)
        if hits:
            excl = z3.And(*[z3.Not(c) for fid, c in known if fid in hits])
            r2 = discharge(z3.And(hyp, excl), goal, timeout_s=timeout_s, model_vars=model_vars)
            if r2["status"] == "discharged":
                extra["known"] = hits
                extra["known_model"] = r["model"]
                r = dict(r2, status="known")
                _solve.VIOLATION_BUDGET["left"] += 1  # a known finding does not use up the violation budget
            elif r2["status"] == "violated":
                r = r2  # a different violation remains: report that one
            else:
                r = r2
    return result(ob, func, r["status"], kind=kind, backend=r.get("backend", ""), time_s=r.get("time_s", 0.0),
                  model=r.get("model"), text=text, replay=replay, case=case, extra=extra)


# ---------------------------------------------------------------------------------------------------------
# source hashing of functions under contract (the verified text is the code that runs)


def function_source(relpath, qualname):
    """Source segment of `qualname` (Class.method or function, nested by '.') in REPO/relpath."""
    src = open(os.path.join(REPO, relpath)).read()
    tree = ast.parse(src)
    node = tree
    for part in qualname.split("."):
        found = None
        for n in ast.walk(node) if node is tree else ast.iter_child_nodes(node):
            if isinstance(n, (ast.FunctionDef, ast.ClassDef, ast.AsyncFunctionDef)) and n.name == part:
                found = n
                break
        if found is None:
            # search deeper (nested defs inside function bodies)
            for n in ast.walk(node):
                if isinstance(n, (ast.FunctionDef, ast.ClassDef)) and n.name == part and n is not node:
                    found = n
                    break
        if found is None:
            return None
        node = found
    return ast.get_source_segment(src, node)


def hash_functions(funcs):
    out = []
    for rel, qn in funcs:
        seg = function_source(rel, qn)
        out.append({"file": rel, "function": qn,
                    "sha256": hashlib.sha256(seg.encode()).hexdigest()[:16] if seg else "MISSING"})
    return out


# ---------------------------------------------------------------------------------------------------------


class CaseTimeout(BaseException):
    pass


def _worker(args):
    modname, case_id, tier, seed = args
    t0 = time.time()
    import signal

    limit = int(os.environ.get("VERIF_CASE_TIMEOUT", "900" if tier == "quick" else "5400"))

    def _alarm(signum, frame):
        raise CaseTimeout()

    try:
        signal.signal(signal.SIGALRM, _alarm)
        signal.alarm(limit)
    except ValueError:  # not in the main thread
        pass
    try:
        mod = importlib.import_module(modname)
        from . import solve as _solve
        _solve.VIOLATION_BUDGET["left"] = 4
        _solve.UNKNOWN_BUDGET["left"] = 6
        res = mod.run_case(case_id, tier, seed)
        return dict(case=case_id, results=res, wall=time.time() - t0, crash=None)
    except CaseTimeout:
        # wall-clock budget of one case used up: undecided (never a verdict)
        return dict(case=case_id, results=[result(f"case-wall-clock-budget[{case_id}]", modname, "unknown", text=f"case exceeded {limit}s", case=case_id)],
                    wall=time.time() - t0, crash=None)
    except BaseException as e:  # noqa
        from .sym import ShadowAbort
        if isinstance(e, ShadowAbort):
            # the harness cannot interpret the current source (e.g. a function it extracts mechanically was moved or renamed):
            # undecided, never a verdict and not a checker crash
            return dict(case=case_id, results=[result(f"case-supported[{case_id}]", modname, "unknown", text=f"the harness cannot interpret the current source: {e}", case=case_id)],
                        wall=time.time() - t0, crash=None)
        return dict(case=case_id, results=[], wall=time.time() - t0,
                    crash="".join(traceback.format_exception(type(e), e, e.__traceback__))[-3000:])
    finally:
        try:
            signal.alarm(0)
        except Exception:
            pass


def _run_parallel(jobs, nproc, tier):
    """One fresh forked process per case (no cross-case state).  The parent enforces the wall-clock budget of a case with
    SIGKILL, because a solver call that ignores its own timeout cannot be interrupted from inside the child."""
    import pickle
    import signal
    import tempfile
    limit = int(os.environ.get("VERIF_CASE_TIMEOUT", "900" if tier == "quick" else "5400")) + 60
    pending = list(enumerate(jobs))
    running = {}
    outs = [None] * len(jobs)
    tmpd = tempfile.mkdtemp(prefix="vcheck_")
    try:
        while pending or running:
            while pending and len(running) < nproc:
                idx, job = pending.pop(0)
                path = os.path.join(tmpd, f"{idx}.pkl")
                sys.stdout.flush()
                pid = os.fork()
                if pid == 0:
                    code = 0
                    try:
                        o = _worker(job)
                        with open(path + ".tmp", "wb") as fh:
                            pickle.dump(o, fh)
                        os.rename(path + ".tmp", path)
                    except BaseException:  # noqa
                        code = 1
                    finally:
                        os._exit(code)
                running[pid] = (idx, time.time(), path, job)
            for pid in list(running):
                idx, t0, path, job = running[pid]
                r, status = os.waitpid(pid, os.WNOHANG)
                if r == pid:
                    del running[pid]
                    if os.path.exists(path):
                        with open(path, "rb") as fh:
                            outs[idx] = pickle.load(fh)
                    else:
                        outs[idx] = dict(case=job[1], results=[], wall=time.time() - t0, crash=f"case process ended without a result (status {status})")
                elif time.time() - t0 > limit:
                    try:
                        os.kill(pid, signal.SIGKILL)
                        os.waitpid(pid, 0)
                    except OSError:
                        pass
                    del running[pid]
                    outs[idx] = dict(case=job[1], wall=time.time() - t0, crash=None,
                                     results=[result(f"case-wall-clock-budget[{job[1]}]", job[0], "unknown", text=f"case killed after {limit}s (solver call did not return)", case=job[1])])
            time.sleep(0.02)
    finally:
        import shutil
        shutil.rmtree(tmpd, ignore_errors=True)
    return outs


def _safe(name):
    return re.sub(r"[^A-Za-z0-9_.\-]+", "_", name)[:150]


def ledger_name(ob):
    return re.sub(r"#p\d+", "", ob)


def load_known_findings():
    p = os.path.join(ROOT, "known_findings.json")
    if not os.path.exists(p):
        return []
    return json.load(open(p)).get("findings", [])


def run_check(modname, tier="quick", seed=0, update_ledger=False, only_case=None):
    t_start = time.time()
    mod = importlib.import_module(modname)
    prop = mod.PROP
    level = getattr(mod, "LEVEL", "proof")
    cases = mod.cases(tier)
    if only_case:
        cases = [c for c in cases if only_case in c]
    nproc = int(os.environ.get("VERIF_JOBS", "16"))
    jobs = [(modname, c, tier, seed) for c in cases]
    if nproc > 1 and len(jobs) > 1:
        outs = _run_parallel(jobs, min(nproc, len(jobs)), tier)
    else:
        outs = [_worker(j) for j in jobs]

    # robustness under load: a case that crashed or left an obligation undecided (solver timeout) is re-run once, alone and with
    # tripled solver budgets, before any verdict is derived from it (a violation is never retried away: it is kept as is)
    def _shaky(o):
        return bool(o["crash"]) or any(r["status"] == "unknown" and r["kind"] in ("deciding", "canary", "cover") for r in o["results"]) or \
            any(r["kind"] == "canary" and r["status"] != "violated" for r in o["results"])
    retried = []
    idxs = [i for i, o in enumerate(outs) if _shaky(o) and not any(r["status"] == "violated" and r["kind"] == "deciding" for r in o["results"])
            and not any(r["ob"].startswith("case-wall-clock-budget") for r in o["results"])]
    # the retry exists for load-related flakiness (a few cases); when a deciding violation is already established the exit code cannot
    # change, and when many cases are undecided the cause is systemic (e.g. an operation without a contract stub): re-running
    # everything with tripled budgets would only burn hours — at most RETRY_CAP cases are retried, the rest stay undecided
    RETRY_CAP = int(os.environ.get("VERIF_RETRY_CAP", "8"))
    if any(r["status"] == "violated" and r["kind"] == "deciding" for o in outs for r in o["results"]):
        idxs = []
    idxs = idxs[:RETRY_CAP]
    if idxs:
        os.environ["VERIF_TIMEOUT_SCALE"] = "3"
        try:
            rjobs = [(modname, outs[i]["case"], tier, seed) for i in idxs]
            routs = _run_parallel(rjobs, max(1, min(4, len(rjobs))), tier) if nproc > 1 else [_worker(j) for j in rjobs]
        finally:
            os.environ.pop("VERIF_TIMEOUT_SCALE", None)
        for i, o2 in zip(idxs, routs):
            retried.append(outs[i]["case"])
            if not o2["crash"] or outs[i]["crash"]:
                outs[i] = o2
    crashes = [o for o in outs if o["crash"]]
    results = [r for o in outs for r in o["results"]]

    # bounded stand-in tier (native, run-time contract evaluation) — never counted as proved
    bounded = None
    bounded_violations = []
    if hasattr(mod, "bounded"):
        try:
            bounded = mod.bounded(tier, seed)
            bounded_violations = bounded.pop("violations", [])
        except BaseException as e:  # noqa
            tb_text = "".join(traceback.format_exception(type(e), e, e.__traceback__))[-3000:]
            frames = traceback.extract_tb(e.__traceback__)
            in_repo = [f for f in frames if os.path.abspath(f.filename).startswith(os.path.abspath(REPO) + os.sep)]
            drift = isinstance(e, (AttributeError, TypeError, NameError, ImportError, KeyboardInterrupt, MemoryError))
            if in_repo and not drift:
                # the REAL code raised while the bounded tier drove it through its own entry points: that is an observation about
                # /repo (reported as a bounded violation, replayable by re-running the tier), not a defect of the checker.
                # Exceptions typical of interface drift between harness and code (AttributeError, TypeError, ...) stay checker crashes.
                where = in_repo[-1]
                bounded = dict(evaluations=1, distinct_nontrivial=1, rule="bounded tier aborted: the real code raised", samples=[], bound="aborted")
                bounded_violations = [dict(ob="bounded/real-code-raised", func=f"{os.path.relpath(where.filename, REPO)}:{where.name}", input=None,
                                           text=f"the real code raised {type(e).__name__}: {str(e)[:300]} at {os.path.relpath(where.filename, REPO)}:{where.lineno} ({where.name}) during the bounded tier",
                                           detail=tb_text[-1500:], replay=None)]
            else:
                crashes.append(dict(case="bounded", crash=tb_text))

    known_findings = {f["id"]: f for f in load_known_findings() if f.get("property") == prop}
    lines = []
    violations = []
    undecided = []
    skipped = []
    known_printed = set()

    deciding = [r for r in results if r["kind"] in ("deciding", "auxiliary")]
    for r in results:
        k, st = r["kind"], r["status"]
        if k == "canary":
            if st != "violated":
                undecided.append((r, "canary postcondition was not refuted (vacuous contract?)"))
        elif k == "cover":
            if st != "violated":  # cover = "not(reachable)" must be refuted
                undecided.append((r, "cover not reachable (vacuous precondition?)"))
        elif k == "auxiliary":
            if st != "discharged":
                lines.append(f"contract-drift: auxiliary obligation {r['ob']} is {st} (not a violation)")
        else:
            if st == "discharged":
                pass
            elif st == "known":
                for fid in r.get("known", []):
                    if fid in known_findings:
                        known_printed.add(fid)
                    else:
                        undecided.append((r, f"known tag {fid} not in known_findings.json"))
            elif st == "violated":
                violations.append(r)
            elif st == "skipped":
                skipped.append(r)
            else:
                undecided.append((r, "solver returned unknown / unsupported"))

    # bounded-tier violations are concrete failing inputs on the real code
    for bv in bounded_violations:
        fid = bv.get("known")
        if fid and fid in known_findings:
            known_printed.add(fid)
        else:
            violations.append(dict(ob=bv["ob"], func=bv.get("func", ""), status="violated", kind="bounded",
                                   model=bv.get("input"), text=bv.get("text", ""), replay=bv.get("replay"),
                                   native=dict(reproduced=True, detail=bv.get("detail", "")), backend="native",
                                   time_s=0.0, case=bv.get("case", "")))

    if skipped and not violations:
        undecided.extend((r, "skipped after the violation budget was used up, but no violation was kept") for r in skipped[:5])

    # ledger guard
    ledger_path = os.path.join(ROOT, "contracts", "ledger.json")
    ledger = json.load(open(ledger_path)) if os.path.exists(ledger_path) else {}
    names_now = sorted({ledger_name(r["ob"]) for r in deciding})
    if update_ledger:
        ledger[prop] = sorted({ledger_name(r["ob"]) for r in deciding if r["status"] in ("discharged", "known")
                               and r["kind"] == "deciding"})
        os.makedirs(os.path.dirname(ledger_path), exist_ok=True)
        json.dump(ledger, open(ledger_path, "w"), indent=0, sort_keys=True)
    missing = [n for n in ledger.get(prop, []) if n not in set(names_now)] if not only_case else []
    if prop not in ledger and not update_ledger and level != "exploration":
        lines.append("note: no ledger entry for this property (run `vcheck ledger`)")

    # replay every violation natively
    replay_dir = os.path.join(OUT, "replays", prop)
    violation_lines = []
    for r in violations:
        native = r.get("native")
        if native is None and hasattr(mod, "replay") and r.get("replay") is not None:
            try:
                ok, detail = mod.replay(r)
                native = dict(reproduced=bool(ok), detail=str(detail)[:2000])
            except BaseException as e:  # noqa
                native = dict(reproduced=False, detail="replay crashed: " + repr(e)[:500])
        if native is None:
            native = dict(reproduced=False, detail="no native replayer for this obligation family")
        in_ledger = ledger_name(r["ob"]) in set(ledger.get(prop, []))
        if not native["reproduced"] and not in_ledger and r["kind"] != "bounded":
            undecided.append((r, "counter-model not reproducible natively and obligation not in ledger (contract error suspected)"))
            continue
        os.makedirs(replay_dir, exist_ok=True)
        path = os.path.join(replay_dir, _safe(r["ob"]) + ".json")
        json.dump(dict(property=prop, obligation=r["ob"], function=r["func"], clause=r["text"], case=r["case"],
                       verifier_output=dict(status="sat", backend=r["backend"], model=r["model"]),
                       replay_input=r.get("replay"), native_replay=native,
                       rerun=f"./vcheck replay {os.path.relpath(path, ROOT)}"),
                  open(path, "w"), indent=1, default=str)
        suffix = "" if native["reproduced"] else " no-failing-input-found"
        violation_lines.append(f"VIOLATION property={prop} replay={path}{suffix}")

    # evidence
    # obligations attributable to a recorded known finding are reported separately (known_finding_obligations)
    n_ob = len([r for r in deciding if r["kind"] == "deciding" and r["status"] != "known"])
    n_dis = len([r for r in deciding if r["kind"] == "deciding" and r["status"] in ("discharged",)])
    n_known = len([r for r in deciding if r["kind"] == "deciding" and r["status"] == "known"])
    by_backend = {}
    for r in deciding:
        if r["status"] == "discharged":
            by_backend[r["backend"]] = by_backend.get(r["backend"], 0) + 1
    solver_time = round(sum(r["time_s"] for r in results), 3)
    samples = []
    seen_f = set()
    for r in deciding:
        key = (r["func"], ledger_name(r["ob"]).split("[")[0])
        if key not in seen_f and len(samples) < 12:
            seen_f.add(key)
            samples.append(dict(obligation=r["ob"], function=r["func"], clause=r["text"], status=r["status"],
                                backend=r["backend"], time_s=r["time_s"]))
    cov = dict(
        obligations=n_ob,
        discharged=n_dis,
        known_finding_obligations=n_known,
        auxiliary=len([r for r in results if r["kind"] == "auxiliary"]),
        canaries_refuted=len([r for r in results if r["kind"] == "canary" and r["status"] == "violated"]),
        covers_reached=len([r for r in results if r["kind"] == "cover" and r["status"] == "violated"]),
        by_backend=by_backend,
        solver_time_s=solver_time,
        cases=len(cases),
        paths=sum(r.get("paths", 0) for r in results if r["kind"] == "cover") or None,
        checker_cmd=f"./vcheck {prop} --tier {tier}",
        trusted_base=list(getattr(mod, "TRUSTED", [])),
        functions_under_contract=hash_functions(getattr(mod, "FUNCS", [])),
        samples=samples,
        explanation=getattr(mod, "EXPLANATION", ""),
        undecided=[dict(obligation=r["ob"], why=w) for r, w in undecided][:20],
        ledger_missing=missing[:20],
        cases_retried_with_larger_budget=retried,
    )
    if cov["paths"] is None:
        del cov["paths"]
    if bounded is not None:
        if not cov["samples"]:
            cov["samples"] = list(bounded.get("samples", []))
        cov["bounded"] = bounded
        cov["evaluations"] = int(bounded.get("evaluations", 0))
        cov["distinct_nontrivial"] = int(bounded.get("distinct_nontrivial", 0))
        cov["rule"] = bounded.get("rule", "")
    ev = dict(property_id=prop, tier=tier, seed=int(seed), level=level, coverage=cov,
              assumptions=list(getattr(mod, "ASSUMPTIONS", [])) + list(getattr(mod, "TRUSTED", [])),
              wall_s=round(time.time() - t_start, 2), violations=len(violation_lines),
              known_findings=sorted(known_printed))
    os.makedirs(os.path.join(OUT, "evidence"), exist_ok=True)
    json.dump(ev, open(os.path.join(OUT, "evidence", f"{prop}.json"), "w"), indent=1, default=str)

    for l in lines:
        print(l)
    for fid in sorted(known_printed):
        f = known_findings[fid]
        print(f"KNOWN-FINDING: property={prop} {fid}: {f['what']}")
    print(f"{prop} [{tier}] obligations={n_ob} discharged={n_dis} known={n_known} aux={cov['auxiliary']} "
          f"canaries={cov['canaries_refuted']} covers={cov['covers_reached']} cases={len(cases)} "
          f"solver={solver_time}s wall={ev['wall_s']}s"
          + (f" bounded_evals={cov.get('evaluations')}" if bounded is not None else ""))
    if crashes:
        for c in crashes:
            print(f"CHECKER-CRASH case={c['case']}\n{c['crash']}")
    if violation_lines:
        # an established violation (counter-model / failed obligation) stands whatever else went wrong in other cases
        for l in violation_lines:
            print(l)
        return 1
    if crashes:
        return 3
    if undecided or missing:
        for r, w in undecided[:30]:
            print(f"UNDECIDED {r['ob']}: {w}" + (f" — {str(r.get('text'))[:300]}" if r.get("text") else ""))
        for n in missing[:30]:
            print(f"UNDECIDED ledger obligation no longer generated: {n}")
        return 2
    if n_ob == 0 and not (level == "exploration" and bounded is not None and cov.get("evaluations", 0) > 0):
        print("UNDECIDED zero obligations generated")
        return 2
    return 0
