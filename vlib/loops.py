"""Loop contracts on the real code: mechanical split of a real function around its (single) `while` loop.

`LoopSplit(func)` re-reads the source of the real function object on every run and compiles four segments from the function's
OWN statements (no statement is rewritten except `break`, see below), each executed with the function's own globals (so the
contract stubs rebound into the module apply) and with the locals passed explicitly:

    pre(*args, **kw)      -> env      statements before the loop                                  (establishes the invariant)
    test(env)             -> value    the loop condition expression
    body(env)             -> (kind, env')   one iteration; kind = "next" | "break"                (preserves the invariant)
    post(env, broke)      -> value    `else:` suite of the loop (only if not broke) + statements after the loop

With an invariant Inv supplied by the harness the three classic obligations — Inv after pre; Inv ∧ test ⇒ Inv after body;
Inv ∧ ¬test (or the state at a `break`) ⇒ postcondition after post — give the postcondition for EVERY number of iterations.
Termination is not proved.

What the extraction drops / changes (stated in the evidence):
  * `break` directly in the loop body (not inside a nested loop) becomes `return ("break", locals())`;
  * a pure `try: ... finally: ...` wrapper around the loop is flattened: the `finally` suite is NOT part of any segment (its
    effect is covered by whole-function path enumeration with small iteration budgets);
  * docstrings and annotations are not executed.
Every local name is passed through `env`; a name that is not yet bound is bound to `UNDEF`, whose every use aborts the path.
"""
from __future__ import annotations

import ast
import inspect
import textwrap


class _Undef:
    def _boom(self, *a, **k):
        from .sym import ShadowAbort
        raise ShadowAbort("use of a local that is unbound at this point of the loop contract (harness must havoc it)")

    __bool__ = __add__ = __radd__ = __sub__ = __rsub__ = __mul__ = __rmul__ = __truediv__ = __rtruediv__ = __lt__ = __le__ = __gt__ = __ge__ = _boom
    __call__ = __getitem__ = __iter__ = __matmul__ = __rmatmul__ = __neg__ = __float__ = __int__ = __index__ = _boom

    def __getattr__(self, n):
        self._boom()

    def __repr__(self):
        return "UNDEF"


UNDEF = _Undef()


class EarlyReturn(Exception):
    """The pre segment executed a `return` of the real function before reaching the loop."""

    def __init__(self, value):
        self.value = value


class _BreakRewriter(ast.NodeTransformer):
    """`break` belonging to the designated loop -> return ("break", locals()); nested loops and nested defs are left alone."""

    def visit_While(self, node):
        return node

    visit_For = visit_AsyncFor = visit_FunctionDef = visit_AsyncFunctionDef = visit_Lambda = visit_ClassDef = visit_While

    def visit_Break(self, node):
        return ast.copy_location(ast.Return(value=ast.Tuple(elts=[ast.Constant("break"), ast.Call(ast.Name("locals", ast.Load()), [], [])], ctx=ast.Load())), node)

    def visit_Continue(self, node):
        return ast.copy_location(ast.Return(value=ast.Tuple(elts=[ast.Constant("next"), ast.Call(ast.Name("locals", ast.Load()), [], [])], ctx=ast.Load())), node)


def _find(stmts, dropped):
    for i, s in enumerate(stmts):
        if isinstance(s, ast.While):
            return stmts[:i], s, stmts[i + 1:]
        if isinstance(s, ast.Try) and not s.handlers and not s.orelse:
            r = _find(s.body, dropped)
            if r:
                dropped.append("finally-suite at line %d" % s.finalbody[0].lineno)
                return stmts[:i] + r[0], r[1], r[2] + stmts[i + 1:]
    return None


def _stored(nodes):
    names = []
    for n in nodes:
        for x in ast.walk(n):
            if isinstance(x, ast.Name) and isinstance(x.ctx, (ast.Store, ast.Del)) and x.id not in names:
                names.append(x.id)
    return names


class LoopSplit:
    def __init__(self, func):
        f = inspect.unwrap(func)
        self.func = f
        src = textwrap.dedent(inspect.getsource(f))
        fdef = ast.parse(src).body[0]
        assert isinstance(fdef, ast.FunctionDef)
        self.dropped = []
        r = _find(fdef.body, self.dropped)
        if r is None:
            raise LookupError(f"{f.__qualname__}: no while loop at the top level (or inside a pure try/finally) of the function body")
        pre, loop, post = r
        if _find(post, []) is not None:
            raise LookupError(f"{f.__qualname__}: more than one while loop")
        self.loop_lineno = loop.lineno + f.__code__.co_firstlineno - 1
        self.test_src = ast.unparse(loop.test)
        params = [a.arg for a in fdef.args.posonlyargs + fdef.args.args + fdef.args.kwonlyargs]
        self.params = params
        self.names = list(dict.fromkeys(params + _stored(fdef.body)))
        self.body_stores = _stored(loop.body)
        env_args = ast.arguments(posonlyargs=[], args=[ast.arg(arg=n) for n in self.names], kwonlyargs=[], kw_defaults=[], defaults=[])
        ret_locals = lambda kind: ast.Return(value=ast.Tuple(elts=[ast.Constant(kind), ast.Call(ast.Name("locals", ast.Load()), [], [])], ctx=ast.Load()))
        strip = lambda ss: [s for s in ss if not (isinstance(s, ast.Expr) and isinstance(getattr(s, "value", None), ast.Constant) and isinstance(s.value.value, str))]
        f_pre = ast.FunctionDef(name="__pre__", args=fdef.args, body=strip(pre) + [ret_locals("pre")], decorator_list=[], returns=None, type_params=[])
        f_test = ast.FunctionDef(name="__test__", args=env_args, body=[ast.Return(value=loop.test)], decorator_list=[], returns=None, type_params=[])
        body = [_BreakRewriter().visit(s) for s in loop.body]
        f_body = ast.FunctionDef(name="__body__", args=env_args, body=body + [ret_locals("next")], decorator_list=[], returns=None, type_params=[])
        f_post_nb = ast.FunctionDef(name="__post_nobreak__", args=env_args, body=(list(loop.orelse) + post) or [ast.Pass()], decorator_list=[], returns=None, type_params=[])
        f_post_b = ast.FunctionDef(name="__post_break__", args=env_args, body=list(post) or [ast.Pass()], decorator_list=[], returns=None, type_params=[])
        mod = ast.Module(body=[f_pre, f_test, f_body, f_post_nb, f_post_b], type_ignores=[])
        for fd in mod.body:
            ast.copy_location(fd, loop)
            fd.end_lineno = max([getattr(x, "end_lineno", 0) or 0 for x in ast.walk(fd)] + [loop.end_lineno])
        ast.fix_missing_locations(mod)
        ast.increment_lineno(mod, f.__code__.co_firstlineno - 1)
        ns = {}
        exec(compile(mod, f.__code__.co_filename, "exec"), f.__globals__, ns)
        self._pre, self._test, self._body, self._post_nb, self._post_b = (ns[k] for k in ("__pre__", "__test__", "__body__", "__post_nobreak__", "__post_break__"))
        # the segments tile the function: every top-level statement of the (flattened) body is in exactly one segment
        self.stmt_counts = dict(pre=len(pre), body=len(loop.body), orelse=len(loop.orelse), post=len(post))
        # control-flow shape of the loop: the harness-supplied invariants and exit-state obligations are written for ONE shape (how the loop is
        # left: test / break / else clause).  A harness compares this with the shape it was written for; on a mismatch the loop contract is
        # "not applicable" (undecided), never a verdict — a counter-model of an exit obligation for a differently shaped loop means nothing.
        def _breaks(stmts):
            n = 0
            for st_ in stmts:
                for node in ast.walk(st_):
                    if isinstance(node, ast.Break):
                        n += 1
                    # (nested loops would own their breaks; the functions under contract have none)
            return n
        self.shape = (bool(loop.orelse), _breaks(loop.body))

    def _env(self, d):
        return {n: d.get(n, UNDEF) for n in self.names}

    def pre(self, *a, **k):
        r = self._pre(*a, **k)
        if not (isinstance(r, tuple) and len(r) == 2 and r[0] == "pre" and isinstance(r[1], dict)):
            raise EarlyReturn(r)
        return self._env(r[1])

    def test(self, env):
        return self._test(**self._env(env))

    def body(self, env):
        kind, e = self._body(**self._env(env))
        return kind, self._env(e)

    def post(self, env, broke=False):
        return (self._post_b if broke else self._post_nb)(**self._env(env))

    def describe(self):
        return dict(function=self.func.__qualname__, loop_line=self.loop_lineno, test=self.test_src, loop_assigned=self.body_stores,
                    statements=self.stmt_counts, dropped=self.dropped)
