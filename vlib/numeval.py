"""Numeric refutation: evaluates a z3 formula under a concrete pseudo-random interpretation (floats).

Used only to FIND counter-models when the SMT solvers answer `unknown` — never to discharge anything.  The
interpretation is a genuine first-order model: scalar constants get values, array constants are pseudo-random
functions of the index, and every uninterpreted function is a deterministic hash of its evaluated arguments
(array arguments are observed at fixed sample indices, which makes the interpretation a function of the array
and keeps congruence).  `sqrt` is interpreted as the real square root so that its axiom instances hold.
Equalities are evaluated with a relative tolerance; a reported counter-model is subsequently replayed natively.
"""
from __future__ import annotations

import hashlib
import math
from fractions import Fraction

import z3

SAMPLES = (0, 1, 2, 3, 5, 7, 11, 13)


def _h(*parts):
    s = "|".join(repr(p) for p in parts).encode()
    v = int.from_bytes(hashlib.blake2b(s, digest_size=8).digest(), "big")
    return v


def _hreal(*parts):
    v = _h(*parts)
    return Fraction((v % 2001) - 1000, 250) or Fraction(37, 100)  # exact rational in [-4, 4], never 0


class Eval:
    def __init__(self, env, seed=0):
        self.env = env  # name -> python value (float/int/bool) for scalar constants; arrays -> callable
        self.seed = seed
        self.cache = {}
        self.forced = {}
        self.registry = {}  # function name -> list of (observed args, value-or-salt)

    def arr_const(self, name):
        return lambda i, n=name: _hreal(self.seed, "arr", n, int(i))

    def obs(self, v):
        if callable(v):
            return tuple(self.obs(v(i)) for i in SAMPLES)
        if isinstance(v, (float, Fraction)):
            return round(float(v), 9)
        return v

    def ev(self, t, bound=()):
        key = (t.get_id(), bound)
        hit = self.cache.get(key)
        if hit is not None:
            return hit[1]
        r = self._ev(t, bound)
        self.cache[key] = (t, r)  # the term is kept alive: z3 recycles AST ids of freed terms
        return r

    def _ev(self, t, bound):
        if z3.is_quantifier(t):
            if t.is_lambda():
                body = t.body()
                return lambda i, body=body, bound=bound: self.ev(body, (int(i),) + bound)
            raise ValueError("quantifier")
        if z3.is_var(t):
            return bound[z3.get_var_index(t)]
        if z3.is_int_value(t):
            return t.as_long()
        if z3.is_rational_value(t):
            return t.as_fraction()  # exact
        if z3.is_algebraic_value(t):
            return float(t.approx(20).as_fraction())
        if z3.is_true(t):
            return True
        if z3.is_false(t):
            return False
        k = t.decl().kind()
        ch = t.children()
        E = lambda x: self.ev(x, bound)
        if k == z3.Z3_OP_UNINTERPRETED:
            name = t.decl().name()
            if not ch:
                if name in self.env:
                    return self.env[name]
                srt = t.sort()
                if srt.kind() == z3.Z3_ARRAY_SORT:
                    return self.arr_const(name)
                if srt == z3.BoolSort():
                    return _h(self.seed, "b", name) % 2 == 0
                if srt == z3.IntSort():
                    return _h(self.seed, "i", name) % 5 + 1
                return _hreal(self.seed, "r", name)
            args = [E(c) for c in ch]
            if name == "sqrt":
                if args[0] < 0:
                    return _hreal(self.seed, "sqrtneg", round(float(args[0]), 9))
                if isinstance(args[0], Fraction):
                    n, d = math.isqrt(args[0].numerator), math.isqrt(args[0].denominator)
                    if n * n == args[0].numerator and d * d == args[0].denominator:
                        return Fraction(n, d)  # exact when the argument is a rational square
                return math.sqrt(args[0])
            keyargs = tuple(self.obs(a) for a in args)
            rs = t.sort()
            # one value per (function, argument tuple); argument tuples are matched with a tolerance so that two
            # extensionally equal arguments computed in a different floating-point order denote the SAME argument
            entry = self.lookup(name, keyargs)
            if entry is None:
                n = len(self.registry.get(name, []))
                if rs.kind() == z3.Z3_ARRAY_SORT:
                    val = ("salt", n)
                elif rs == z3.BoolSort():
                    val = _h(self.seed, "ufb", name, n) % 2 == 0
                elif rs == z3.IntSort():
                    val = _h(self.seed, "ufi", name, n) % 7
                else:
                    val = _hreal(self.seed, "ufr", name, n)
                self.registry.setdefault(name, []).append((keyargs, val))
                entry = val
            if rs.kind() == z3.Z3_ARRAY_SORT:
                return lambda i, n=name, sl=entry: _hreal(self.seed, "ufa", n, sl, int(i))
            return entry
        if k == z3.Z3_OP_ADD:
            return sum(E(c) for c in ch)
        if k == z3.Z3_OP_SUB:
            v = E(ch[0])
            for c in ch[1:]:
                v = v - E(c)
            return v
        if k == z3.Z3_OP_UMINUS:
            return -E(ch[0])
        if k == z3.Z3_OP_MUL:
            v = 1
            for c in ch:
                v = v * E(c)
            return v
        if k == z3.Z3_OP_DIV:
            a, b = E(ch[0]), E(ch[1])
            if isinstance(a, int):
                a = Fraction(a)
            return a / b if b != 0 else _hreal(self.seed, "div0", round(float(a), 9))
        if k == z3.Z3_OP_IDIV:
            a, b = E(ch[0]), E(ch[1])
            if b == 0:
                return _h(self.seed, "idiv0", a) % 7
            q = a // b if b > 0 else -((a) // (-b)) if a % b == 0 else (a // abs(b)) * (1 if b > 0 else -1)
            # SMT-LIB: a = b*q + r with 0 <= r < |b|
            r = a % abs(b)
            return (a - r) // b
        if k == z3.Z3_OP_MOD:
            a, b = E(ch[0]), E(ch[1])
            return a % abs(b) if b != 0 else _h(self.seed, "mod0", a) % 7
        if k == z3.Z3_OP_TO_REAL:
            return Fraction(E(ch[0]))
        if k == z3.Z3_OP_TO_INT:
            return math.floor(E(ch[0]))
        if k == z3.Z3_OP_POWER:
            a, b = E(ch[0]), E(ch[1])
            try:
                return a ** b
            except Exception:
                return _hreal(self.seed, "pow", a, b)
        if k == z3.Z3_OP_ITE:
            return E(ch[1]) if E(ch[0]) else E(ch[2])
        if k == z3.Z3_OP_EQ:
            a, b = E(ch[0]), E(ch[1])
            return self.eq(a, b)
        if k == z3.Z3_OP_DISTINCT:
            a, b = E(ch[0]), E(ch[1])
            return not self.eq(a, b)
        if k == z3.Z3_OP_LE:
            return E(ch[0]) <= E(ch[1])
        if k == z3.Z3_OP_LT:
            return E(ch[0]) < E(ch[1])
        if k == z3.Z3_OP_GE:
            return E(ch[0]) >= E(ch[1])
        if k == z3.Z3_OP_GT:
            return E(ch[0]) > E(ch[1])
        if k == z3.Z3_OP_AND:
            return all(E(c) for c in ch)
        if k == z3.Z3_OP_OR:
            return any(E(c) for c in ch)
        if k == z3.Z3_OP_NOT:
            return not E(ch[0])
        if k == z3.Z3_OP_IMPLIES:
            return (not E(ch[0])) or E(ch[1])
        if k == z3.Z3_OP_XOR:
            return bool(E(ch[0])) != bool(E(ch[1]))
        if k == z3.Z3_OP_SELECT:
            a = E(ch[0])
            return a(E(ch[1]))
        if k == z3.Z3_OP_CONST_ARRAY:
            v = E(ch[0])
            return lambda i, v=v: v
        if k == z3.Z3_OP_STORE:
            a, j, v = E(ch[0]), E(ch[1]), E(ch[2])
            return lambda i, a=a, j=j, v=v: v if i == j else a(i)
        raise ValueError(f"numeval: unsupported operator {t.decl().name()}")

    def close(self, a, b):
        if isinstance(a, tuple) or isinstance(b, tuple):
            return isinstance(a, tuple) and isinstance(b, tuple) and len(a) == len(b) and all(self.close(x, y) for x, y in zip(a, b))
        if isinstance(a, bool) or isinstance(b, bool):
            return a == b
        if isinstance(a, (int, float, Fraction)) and isinstance(b, (int, float, Fraction)):
            a, b = float(a), float(b)
            return abs(a - b) <= 1e-7 * max(1.0, abs(a), abs(b))
        return a == b

    def lookup(self, name, keyargs):
        for k, v in self.registry.get(name, []):
            if self.close(k, keyargs):
                return v
        return None

    def force(self, name, keyargs, val):
        """returns False if the application already has a different value"""
        old = self.lookup(name, keyargs)
        if old is not None:
            return self.eq(old, val) if not isinstance(old, tuple) else False
        self.registry.setdefault(name, []).append((keyargs, val))
        return True

    def eq(self, a, b):
        if callable(a) or callable(b):
            return all(self.eq(a(i), b(i)) for i in SAMPLES)
        if isinstance(a, bool) or isinstance(b, bool):
            return bool(a) == bool(b)
        if isinstance(a, (int, Fraction)) and isinstance(b, (int, Fraction)):
            return a == b  # exact rational arithmetic: no tolerance
        a, b = float(a), float(b)
        return abs(a - b) <= 1e-9 * max(1.0, abs(a), abs(b))


def _conjuncts(f):
    if z3.is_and(f):
        for c in f.children():
            yield from _conjuncts(c)
    else:
        yield f


def numeric_refute(hyp, goal, env, seeds=range(24)):
    """Search an interpretation with hyp true and goal false.  env: scalar constant name -> python value.
    Returns the successful Eval or None."""
    lits = list(_conjuncts(hyp))
    for seed in seeds:
        ev = Eval(env, seed)
        try:
            ok = True
            for lit in lits:
                pol, atom = True, lit
                while z3.is_not(atom):
                    pol, atom = not pol, atom.children()[0]
                if (z3.is_app(atom) and atom.decl().kind() == z3.Z3_OP_UNINTERPRETED and atom.num_args() > 0 and z3.is_bool(atom)
                        and any(a.sort().kind() == z3.Z3_ARRAY_SORT for a in atom.children())):
                    if not ev.force(atom.decl().name(), tuple(ev.obs(ev.ev(a)) for a in atom.children()), pol):
                        ok = False
                        break
            if not ok:
                continue
            ev.cache = {}
            if ev.ev(hyp) and not ev.ev(goal):
                return ev
        except (ValueError, ZeroDivisionError, OverflowError, TypeError):
            continue
    return None


def guided_refute(hyp, goal, abstract, pyval, timeout_ms=4000, tries=4):
    """Model-guided search: solve the ABSTRACTED query (scalar/Bool functions of whole arrays replaced by constants) with z3,
    then build the concrete interpretation in which exactly those function applications take the model's values (arrays and
    everything else pseudo-random), and VERIFY by evaluation that hyp holds and goal fails.  Only a verified interpretation is
    returned, so the answer is a genuine counter-model."""
    subs = {}

    def visit(t, seen):
        if t.get_id() in seen:
            return
        seen.add(t.get_id())
        if z3.is_app(t) and t.decl().kind() == z3.Z3_OP_UNINTERPRETED and t.num_args() > 0 and t.sort().kind() != z3.Z3_ARRAY_SORT \
                and any(a.sort().kind() == z3.Z3_ARRAY_SORT for a in t.children()):
            subs[t.get_id()] = (t, z3.Const(f"abs!{t.decl().name()}!{t.get_id()}", t.sort()))
            return
        if z3.is_quantifier(t):
            visit(t.body(), seen)
            return
        for ch in t.children():
            visit(ch, seen)

    seen = set()
    visit(hyp, seen)
    visit(goal, seen)
    pairs = list(subs.values())
    if not pairs:
        return None
    a_hyp, a_goal = z3.substitute(hyp, *pairs), z3.substitute(goal, *pairs)
    sol = z3.Solver()
    sol.set("timeout", timeout_ms)
    sol.add(a_hyp, z3.Not(a_goal))
    for attempt in range(tries):
        try:
            if sol.check() != z3.sat:
                return None
        except z3.Z3Exception:
            return None
        m = sol.model()
        env = {}
        for d in m.decls():
            if d.arity() == 0 and not d.name().startswith("abs!"):
                try:
                    env[d.name()] = pyval(m[d])
                except Exception:
                    pass
        ev = Eval(env, seed=attempt)
        conflict = None
        keys = {}
        try:
            for t, c in pairs:
                name, key = t.decl().name(), tuple(ev.obs(ev.ev(a)) for a in t.children())
                val = pyval(m.eval(c, model_completion=True))
                prev = [cc for (nn, kk, cc) in keys.get("list", []) if nn == name and ev.close(kk, key)]
                if not ev.force(name, key, val):
                    conflict = (prev[0] if prev else c, c)
                    break
                keys.setdefault("list", []).append((name, key, c))
            if conflict is not None:
                if conflict[0] is conflict[1]:
                    return None
                sol.add(conflict[0] == conflict[1])  # semantically equal applications must agree
                continue
            ev.cache = {}
            if ev.ev(hyp) and not ev.ev(goal):
                return ev
        except (ValueError, ZeroDivisionError, OverflowError, TypeError):
            pass
        # block this assignment of the abstract constants and try another
        sol.add(z3.Or(*[c != m.eval(c, model_completion=True) for _, c in pairs]))
    return None
